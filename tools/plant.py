#!/usr/bin/env python3
"""Planted changes (the 'Sens' lists of DESIGN §4): for each entry apply a small edit to /repo, run the
repository's suite (does the change survive it?), run the named checks, undo the edit, and write
seeded/P-<name>/{patch.diff,meta.json}.  Usage: tools/plant.py [name ...]"""
import json, os, subprocess, sys, time

ENV = dict(os.environ, GOFLAGS="-mod=mod", GOPROXY="off", GOSUMDB="off", GOTOOLCHAIN="local")

def sh(cmd, cwd=None):
    return subprocess.run(cmd, shell=True, text=True, cwd=cwd, env=ENV, stdout=subprocess.PIPE, stderr=subprocess.STDOUT)

# name, properties to check, file, old, new, what it breaks
PLANTS = [
 ("skip-include-precedence", ["C01"], "plan.go", "\t\tif def == SkipDirective && v {\n\t\t\treturn false\n\t\t}", "\t\tif def == SkipDirective && v && len(directives) == 1 {\n\t\t\treturn false\n\t\t}",
  "@skip(if:true) loses against a second directive on the same node"),
 ("fragment-declared-type", ["C01"], "plan.go", "\tif conditionalType.Name() == runtime.Name() {\n\t\treturn true\n\t}\n\tswitch ct := conditionalType.(type) {\n\tcase *Interface:\n\t\treturn schema.IsPossibleType(ct, runtime)",
  "\tif conditionalType.Name() == runtime.Name() {\n\t\treturn true\n\t}\n\tswitch ct := conditionalType.(type) {\n\tcase *Interface:\n\t\treturn len(schema.PossibleTypes(ct)) > 0",
  "interface type conditions match every runtime type"),
 ("static-args-shared", ["C20", "C06"], "plan.go", "\t\targs = make(map[string]interface{}, len(fp.args.static))\n\t\tfor k, v := range fp.args.static {\n\t\t\targs[k] = v\n\t\t}", "\t\targs = fp.args.static",
  "the plan's static argument map is handed to resolvers without copying"),
 ("parenttype-declared", ["C20"], "plan.go", "\t\tParentType:     parentType,", "\t\tParentType:     fp.fieldDefParent(parentType),", None),
 ("nonnull-list-item-index0", ["C04", "C01"], "plan.go", "\t\tcompletedItem := completePlannedValueCatchingError(eCtx, itemType, fp, info, fieldPath, val)", "\t\tcompletedItem := completePlannedValueCatchingError(eCtx, itemType, fp, info, fieldPath, val)\n\t\tif completedItem == nil && i > 0 {\n\t\t\tif nn, ok := itemType.(*NonNull); ok {\n\t\t\t\t_ = nn\n\t\t\t\tcompletedResults = append(completedResults, nil)\n\t\t\t\tcontinue\n\t\t\t}\n\t\t}",
  None),
 ("skip-ispossibletype", ["C04"], "plan.go", "\tif !eCtx.Schema.IsPossibleType(returnType, runtimeType) {", "\tif false && !eCtx.Schema.IsPossibleType(returnType, runtimeType) {", "a runtime type outside the abstract type's possible types is accepted"),
 ("list-of-one-dropped", ["C05"], "values.go", "\t\treturn append(values, coerceValue(ttype.OfType, value))", "\t\treturn coerceValue(ttype.OfType, value)", "a single variable value for a list type is no longer wrapped"),
 ("unknown-input-keys-accepted", ["C05"], "values.go", "\t\t\tif _, ok := fields[fieldName]; !ok {\n\t\t\t\tmessagesReduce = append(messagesReduce, fmt.Sprintf(`In field \"%v\": Unknown field.`, fieldName))\n\t\t\t}", "\t\t\tif _, ok := fields[fieldName]; !ok && len(valueMapFieldNames) > 3 {\n\t\t\t\tmessagesReduce = append(messagesReduce, fmt.Sprintf(`In field \"%v\": Unknown field.`, fieldName))\n\t\t\t}", "unknown keys in small input-object variables are accepted"),
 ("cache-no-schema-guard", ["C06"], "plan_cache.go", "\tif item.e.schema != schema {", "\tif false && item.e.schema != schema {", "a cached plan is served for another schema value"),
 ("cache-key-without-opname", ["C06"], "plan_cache.go", "\t\tkey := operationName + \"\\x00\" + query", "\t\tkey := query", "the exact cache key forgets the operation name"),
 ("cache-evict-front", ["C06"], "plan_cache.go", "\t\toldest := c.order.Back()", "\t\toldest := c.order.Front()", "eviction removes the newest entry"),
 ("printer-drops-alias", ["C08"], "language/printer/printer.go", None, None, None),
 ("top-level-recover-removed", ["C09", "C04"], "plan.go", None, None, None),
 ("thunks-one-pass", ["C13"], "plan.go", "\t\tif path == nil && eCtx.plan != nil && eCtx.plan.isMutation {", "\t\tif false && path == nil && eCtx.plan != nil && eCtx.plan.isMutation {", "deferred work of mutation fields is forced after all fields again"),
 ("dethunk-unsorted", ["C12"], "executor.go", "func dethunkMapBreadthFirst(m map[string]interface{}, dethunkQueue *dethunkQueue) {\n\tfor _, k := range sortedKeys(m) {\n\t\tv := m[k]", "func dethunkMapBreadthFirst(m map[string]interface{}, dethunkQueue *dethunkQueue) {\n\tfor k, v := range m {", "thunks forced in map order again"),
 ("suggestions-unsorted-ties", ["C12"], "rules.go", "\tif s.Distances[i] == s.Distances[j] {\n\t\treturn s.Options[i] < s.Options[j]\n\t}", "", "equidistant suggestions in map order"),
 ("visitor-leave-for-skipped", ["C14"], "language/visitor/visitor.go", None, None, None),
 ("typeinfo-objectfield-not-popped", ["C14", "C02"], "type_info.go", "\tcase kinds.ListValue, kinds.ObjectField:", "\tcase kinds.ListValue:", "TypeInfo does not pop the input type of an object field"),
 ("subscription-no-close", ["C15"], "subscription.go", "\t\t\t\tcase res, more := <-sub:\n\t\t\t\t\tif !more {\n\t\t\t\t\t\treturn\n\t\t\t\t\t}", "\t\t\t\tcase res, more := <-sub:\n\t\t\t\t\tif !more {\n\t\t\t\t\t\tsub = nil\n\t\t\t\t\t\tcontinue\n\t\t\t\t\t}", "a closed source no longer ends the subscription"),
 ("cancel-waits-for-result", ["C16"], "plan.go", "\tselect {\n\tcase <-ctx.Done():\n\t\tr := &Result{}\n\t\tr.Errors = append(r.Errors, gqlerrors.FormatError(ctx.Err()))\n\t\treturn r\n\tcase r := <-resultChannel:\n\t\treturn r\n\t}", "\tr := <-resultChannel\n\tif ctx.Err() != nil {\n\t\tr = &Result{}\n\t\tr.Errors = append(r.Errors, gqlerrors.FormatError(ctx.Err()))\n\t}\n\treturn r", "ExecutePlan waits for the resolvers before honouring cancellation"),
 ("extension-finish-twice", ["C17"], "graphql.go", "\t// run parseFinish functions for extensions\n\textErrs = parseFinishFn(err)", "\t// run parseFinish functions for extensions\n\tparseFinishFn(err)\n\textErrs = parseFinishFn(err)", "parse-finish hooks run twice on success"),
 ("crlf-two-lines", ["C18"], "language/location/location.go", "\tlineRegexp := regexp.MustCompile(\"\\r\\n|[\\n\\r]\")", "\tlineRegexp := regexp.MustCompile(\"[\\n\\r]\")", "CRLF counts as two line terminators"),
 ("path-without-index", ["C18", "C04"], "plan.go", "\t\tfieldPath := path.WithKey(i)\n\t\tcompletedItem", "\t\tfieldPath := path\n\t\tif i > 1 {\n\t\t\tfieldPath = path.WithKey(i)\n\t\t}\n\t\tcompletedItem", "list indices 0 and 1 are missing from response paths"),
 ("overlap-memo-removed", ["C19"], "rules_overlapping_fields_can_be_merged.go", "\tif rule.comparedFieldsAndFragmentSet.Has(fieldsInfo, fragmentName, areMutuallyExclusive) {\n\t\treturn conflicts\n\t}", "", "fields/fragment pairs are compared again and again"),
 ("abstract-eager", ["C19"], "plan.go", None, None, None),
 ("rule-removed", ["C02"], "rules.go", "\tScalarLeafsRule,\n", "", "ScalarLeafs is no longer among the specified rules"),
 ("types-conflict-ignores-list", ["C02"], "rules_overlapping_fields_can_be_merged.go", None, None, None),
 ("introspection-oftype-dropped", ["C10"], "introspection.go", None, None, None),
 ("schema-skip-interface-check-on-append", ["C11"], "schema.go", "\t// Enforce correct interface implementations\n\tfor _, ttype := range gq.typeMap {", "\t// Enforce correct interface implementations\n\tfor _, ttype := range TypeMap{} {", "AppendType no longer checks interface implementations"),
 ("enum-lazy-again", ["C07"], "definition.go", "\tgt.getValueLookup()\n\tgt.getNameLookup()\n", "", "enum lookups are built lazily again"),
 ("int-literal-64", ["C05", "C02"], "scalars.go", "strconv.ParseInt(valueAST.Value, 10, 32)", "strconv.ParseInt(valueAST.Value, 10, 64)", "Int literals up to 64 bits are valid again"),
 ("block-string-first-line", ["C03"], "language/lexer/lexer.go", "\t\tfor i := 1; i < len(lines); i++ {\n\t\t\tline := lines[i]", "\t\tfor i := 0; i < len(lines); i++ {\n\t\t\tline := lines[i]", "first line of a block string is de-indented again"),
]

def main():
    want = set(sys.argv[1:])
    st = sh("git -C /repo status --porcelain").stdout.strip()
    if st:
        print("refusing: /repo not clean"); return 2
    summary = []
    for name, props, path, old, new, what in PLANTS:
        if old is None or (want and name not in want):
            continue
        full = os.path.join("/repo", path)
        src = open(full).read()
        if src.count(old) != 1:
            print(f"{name}: anchor occurs {src.count(old)} times, skipped"); continue
        open(full, "w").write(src.replace(old, new))
        try:
            b = sh("go build ./... && go vet -tags verif . >/dev/null 2>&1; go build -tags verif ./...", cwd="/repo")
            if b.returncode != 0:
                print(f"{name}: does not build: {b.stdout[-300:]}"); continue
            d = os.path.join("/verif/seeded", "P-" + name)
            os.makedirs(d, exist_ok=True)
            open(os.path.join(d, "patch.diff"), "w").write(sh("git -C /repo diff").stdout)
            t = sh("go test -vet=off -count=1 ./... 2>&1 | grep -v 'no test files'", cwd="/repo").stdout
            fails = [l for l in t.splitlines() if l.startswith("--- FAIL")]
            if fails == ["--- FAIL: TestContextDeadline"] or any("TestContextDeadline" in f for f in fails) and len(fails) == 1:
                t2 = sh("go test -vet=off -count=1 -run TestContextDeadline .", cwd="/repo").stdout
                if "ok" in t2:
                    fails = []
            res = {}
            for p in props:
                r = sh(f"./check {p} quick", cwd="/verif")
                obs = [l.strip() for l in r.stdout.splitlines() if l.strip().startswith("observed:")]
                res[p] = {"exit": r.returncode, "observed": (obs[:1] or [""])[0][:300]}
            meta = {"kind": "planted by the author (DESIGN §4 'Sens' lists / §13)", "change": what, "file": path, "checks_run": props,
                    "repository_suite_fails_on": fails, "survives_repository_suite": not fails, "results": res}
            json.dump(meta, open(os.path.join(d, "meta.json"), "w"), indent=1)
            summary.append((name, not fails, {p: v["exit"] for p, v in res.items()}))
            print(name, "suite_ok" if not fails else f"suite_fails({len(fails)})", {p: v["exit"] for p, v in res.items()}, flush=True)
        finally:
            open(full, "w").write(src)
    st = sh("git -C /repo status --porcelain").stdout.strip()
    print("repo status after:", st or "clean")
    return 0

if __name__ == "__main__":
    sys.exit(main())
