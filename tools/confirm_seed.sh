#!/bin/sh
# usage: confirm_seed.sh <ID> [worktree] [output dir]  -- confirms a seeded change in its scratch worktree /tmp/wt/<ID> with outputs in /tmp/seeded/<ID>:
# the library's suite passes with the change, the demonstration fails with it and passes without it.
export GOFLAGS=-mod=mod GOPROXY=off GOSUMDB=off GOTOOLCHAIN=local
id=$1; wt=${2:-/tmp/wt/$id}; out=${3:-/tmp/seeded/$id}
cd $wt || exit 2
git status --short | grep -v "^??" | head -5
echo "--- patch applies to /repo HEAD?"; git -C /repo apply --check $out/patch.diff && echo yes
echo "--- suite with change"
s=$(go test -vet=off -count=1 ./... 2>&1 | grep -v "no test files"); echo "$s" | grep -v "^ok" | head -8; echo "$s" | grep -c "^ok"
if echo "$s" | grep -q "^--- FAIL: TestContextDeadline"; then echo "(re-running TestContextDeadline alone)"; go test -vet=off -count=1 -run TestContextDeadline . | tail -1; fi
echo "--- demo with change (must FAIL)"
(cd $out/demo && go test -count=1 ./... 2>&1 | tail -4)
# never `git stash` here: the stash is shared by all worktrees of /repo
git diff > /tmp/confirm_$id.diff
git apply -R /tmp/confirm_$id.diff
echo "--- demo without change (must PASS)"
(cd $out/demo && go test -count=1 ./... 2>&1 | tail -2)
git apply /tmp/confirm_$id.diff && rm -f /tmp/confirm_$id.diff
git status --short | grep -v "^??" | head -3
