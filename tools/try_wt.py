#!/usr/bin/env python3
"""Triage of seeded changes without touching /repo: tools/try_wt.py [-j N] <seed-id>:<PROP>[,<PROP>...] ...
Each seeded change is expected applied in its scratch worktree /tmp/wt/<seed-id>; the check is built against that
worktree (VERIF_REPO) with its own output and evidence directories, so several can run at once and neither /repo
nor /verif/evidence is written. The recorded result of a seeded change still comes from tools/try_seed.py
(patch applied to /repo, check run, patch undone)."""
import concurrent.futures, os, subprocess, sys, time


def one(job):
    sid, p = job
    wt = f"/tmp/wt/{sid}"
    out = f"/tmp/tryout/{sid}-{p}"
    env = dict(os.environ, VERIF_REPO=wt, VERIF_OUT=out, VERIF_EVIDENCE_DIR=out + "/evidence")
    t0 = time.time()
    r = subprocess.run(["/verif/check", p, "quick"], env=env, text=True, stdout=subprocess.PIPE, stderr=subprocess.STDOUT)
    viol = [l for l in r.stdout.splitlines() if l.startswith("VIOLATION")]
    obs = [l.strip() for l in r.stdout.splitlines() if l.strip().startswith("observed:")]
    return sid, p, r.returncode, viol[:1], (obs[:1] or [""])[0][:260], round(time.time() - t0, 1)


def main():
    args = sys.argv[1:]
    j = 4
    if args and args[0] == "-j":
        j = int(args[1])
        args = args[2:]
    jobs = []
    for a in args:
        sid, ps = a.split(":")
        jobs += [(sid, p) for p in ps.split(",")]
    with concurrent.futures.ThreadPoolExecutor(j) as ex:
        for sid, p, rc, viol, obs, wall in ex.map(one, jobs):
            print(f"{sid} {p} exit={rc} {'CAUGHT' if rc == 1 and viol else ('INCONCLUSIVE' if rc == 2 else 'missed')} {wall}s {obs}", flush=True)


if __name__ == "__main__":
    main()
