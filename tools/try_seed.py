#!/usr/bin/env python3
"""Run checks against a seeded change: tools/try_seed.py <patch.diff> <PROP> [<PROP>...] [--tier quick]
Applies the patch to /repo, runs ./check for each property, prints the outcome and ALWAYS undoes the patch."""
import json, os, subprocess, sys, time

def sh(cmd, **kw):
    return subprocess.run(cmd, shell=True, text=True, stdout=subprocess.PIPE, stderr=subprocess.STDOUT, **kw)

def main():
    args = [a for a in sys.argv[1:] if not a.startswith("--")]
    tier = "quick"
    for a in sys.argv[1:]:
        if a.startswith("--tier="):
            tier = a.split("=", 1)[1]
    patch, props = os.path.abspath(args[0]), args[1:]
    st = sh("git -C /repo status --porcelain").stdout.strip()
    if st:
        print("refusing: /repo is not clean:\n" + st)
        return 2
    r = sh(f"git -C /repo apply --check {patch}")
    if r.returncode != 0:
        print("patch does not apply:\n" + r.stdout)
        return 2
    sh(f"git -C /repo apply {patch}")
    out = {}
    # the evidence files describe the unchanged tree: keep them out of reach of runs against a changed one
    import shutil, tempfile
    keep = tempfile.mkdtemp(prefix="evidence-keep-")
    shutil.copytree("/verif/evidence", os.path.join(keep, "evidence"))
    try:
        for p in props:
            t0 = time.time()
            r = sh(f"cd /verif && ./check {p} {tier}")
            viol = [l for l in r.stdout.splitlines() if l.startswith("VIOLATION")]
            obs = [l for l in r.stdout.splitlines() if l.strip().startswith("observed:")]
            out[p] = {"exit": r.returncode, "violations": viol, "observed": [o.strip()[:300] for o in obs[:2]], "wall_s": round(time.time() - t0, 1)}
            print(p, "exit", r.returncode, viol[:1], (obs[:1] or [""])[0].strip()[:200])
    finally:
        shutil.rmtree("/verif/evidence", ignore_errors=True)
        shutil.copytree(os.path.join(keep, "evidence"), "/verif/evidence")
        shutil.rmtree(keep, ignore_errors=True)
        sh(f"git -C /repo apply -R {patch}")
        st = sh("git -C /repo status --porcelain").stdout.strip()
        if st:
            sh("git -C /repo checkout -- . ")
            print("note: used git checkout to restore /repo; remaining status:", sh("git -C /repo status --porcelain").stdout.strip())
    print(json.dumps(out))
    return 0

if __name__ == "__main__":
    sys.exit(main())
