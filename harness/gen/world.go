package gen

import (
	"fmt"

	"pgregory.net/rapid"

	"verif/model"
	"verif/ref"
)

// WorldOpts tunes the resolver-outcome generator.
type WorldOpts struct {
	// Adversarial: percentage of reachable positions that get a non-plain outcome (0 = a few by chance).
	Adversarial int
	// Hostile adds the wrong-kind / unserialisable / lying-type-resolver outcomes (C04).
	Hostile bool
	// NoThunks / NoPropagation select the regime explicitly; by default it is drawn.
	NoThunks      bool
	NoPropagation bool
	// AllowInf lets Float fields return +Inf (off while the corresponding finding is unrepaired).
	AllowInf bool
}

// World draws a World for executing doc: default values from a salt, plus outcome overrides
// at positions that a dry run of the reference interpreter shows to be reachable.
//
// Two regimes keep the oracle unambiguous (DESIGN §3.4): either deferred results (thunks) are
// present and then no outcome can make a null propagate (every failure sits at a nullable
// position), or nulls may propagate and then nothing is deferred.
func World(t *T, s *model.Schema, d *model.Doc, opName string, vars map[string]*model.Val, o WorldOpts) (*ref.World, string) {
	w := &ref.World{S: s, Salt: intn(t, 0, 1<<20, "salt"), Outcomes: map[string]ref.Outcome{}}
	if chance(t, 40, "hasNulls") {
		w.NullRate = rapid.SampledFrom([]int{3, 6, 11}).Draw(t, "nullRate")
	}
	w.MaxList = 1 + uniform(t, 4, "maxList")
	w.TypedLeaves = chance(t, 35, "typedLeaves")
	w.TypedLists = chance(t, 35, "typedLists") // 1..4, unbiased: lists of several elements are where runtime types mix
	regime := "propagate"
	if o.NoPropagation || (!o.NoThunks && chance(t, 50, "thunkRegime")) {
		regime = "thunks"
	}
	rounds := 1
	if o.Adversarial > 0 {
		rounds = 2
	}
	for r := 0; r < rounds; r++ {
		dry := ref.Execute(s, d, opName, vars, w)
		if dry.ReqError != "" || len(dry.Calls) == 0 {
			break
		}
		n := 0
		if o.Adversarial > 0 {
			n = 1 + len(dry.Calls)*o.Adversarial/100
		} else if chance(t, 55, "someOutcomes") {
			n = 1 + uniform(t, 4, "nOutcomes")
		}
		for i := 0; i < n; i++ {
			c := dry.Calls[uniform(t, len(dry.Calls), "callIdx")]
			if regime == "propagate" && chance(t, 70, "preferNonNull") {
				// aim at positions from which a null has to travel
				var nn, deep []ref.Call
				byPath := map[string]ref.Call{}
				for _, x := range dry.Calls {
					byPath[ref.PathKey(x.Path)] = x
				}
				for _, x := range dry.Calls {
					if !model.T(x.ReturnType).NonNull() || len(x.Path) < 2 {
						continue
					}
					nn = append(nn, x)
					// is the enclosing field non-null too? (strip indices, then one key)
					pp := x.Path[:len(x.Path)-1]
					for len(pp) > 0 {
						if _, isIdx := pp[len(pp)-1].(int); !isIdx {
							break
						}
						pp = pp[:len(pp)-1]
					}
					if par, ok := byPath[ref.PathKey(pp)]; ok && model.T(par.ReturnType).NonNull() {
						deep = append(deep, x)
					}
				}
				if len(deep) > 0 && chance(t, 60, "preferDeep") {
					nn = deep
				}
				if len(nn) > 0 {
					c = nn[uniform(t, len(nn), "nnIdx")]
				}
			}
			ty := model.T(c.ReturnType)
			key := ref.PathKey(c.Path)
			if _, dup := w.Outcomes[key]; dup {
				continue
			}
			kinds := []string{"nil", "err", "valerr", "panic_err", "err_foreign", "err_ctx", "err_located", "err_shared", "panic_shared"}
			if o.Hostile {
				kinds = append(kinds, "panic_str", "panic_int", "typednil")
			}
			if regime == "thunks" {
				kinds = append(kinds, "thunk", "thunk", "thunk_err", "thunk_nil")
				if ty.Nullable().IsList() {
					kinds = append(kinds, "elem", "elem", "elem", "elem") // deferred list elements (and deferred values below them)
				}
			}
			named := s.Type(ty.Name)
			if o.Hostile {
				if ty.Nullable().IsList() {
					kinds = append(kinds, "notlist", "elem")
					if named.Kind == model.KEnum || (named.Kind == model.KScalar && !builtinScalar(ty.Name)) {
						kinds = append(kinds, "elem", "elem", "elem") // items whose serializer yields nothing or raises
					}
				}
				if ty.Nullable().Named() {
					switch {
					case ty.Name == "Int":
						kinds = append(kinds, "bigint", "badleaf", "bigtext", "nantext")
					case ty.Name == "Float":
						kinds = append(kinds, "nan", "badleaf", "nantext", "inftext")
						if o.AllowInf {
							kinds = append(kinds, "inf")
						}
					case named.Kind == model.KEnum:
						kinds = append(kinds, "badenum", "badleaf", "leafpanic")
					case named.Kind == model.KScalar && !builtinScalar(ty.Name):
						kinds = append(kinds, "badleaf", "leafpanic", "sernan", "sernilptr")
					}
				}
				if named.Kind == model.KIface || named.Kind == model.KUnion || (named.Kind == model.KObject && named.HasIsTypeOf) {
					kinds = append(kinds, "type")
					if ty.Nullable().IsList() {
						kinds = append(kinds, "type", "type") // the same decision for every element
					}
				}
			} else if ty.Nullable().IsList() && chance(t, 30, "elemOutcome") {
				kinds = []string{"elem"}
			}
			kind := pick(t, kinds, "outcomeKind")
			local := !ty.NonNull() // a failure here stays here
			switch kind {
			case "thunk":
				if ty.NonNull() && !ty.Nullable().Named() {
					// a deferred list/object under a non-null field can still fail inside; keep
					// deferred values to positions where nothing can escape
					continue
				}
				if ty.NonNull() && s.IsComposite(ty.Name) {
					continue
				}
				w.Outcomes[key] = ref.Outcome{Kind: kind}
			case "elem":
				// element-level override inside the first list level
				et := ty.Nullable().Inner()
				if regime == "thunks" && et.NonNull() {
					continue
				}
				idx := intn(t, 0, 2, "elemIdx")
				ek := "nil"
				if o.Hostile && et.Nullable().IsList() && chance(t, 50, "elemNotList") {
					ek = "notlist"
				}
				if regime == "thunks" && chance(t, 40, "elemThunk") {
					ek = "thunk" // the element itself is handed over as a deferred value
				} else if o.Hostile && et.Nullable().Named() && chance(t, 60, "elemLeaf") {
					// one item of a list of leaves that serialises to nothing, or whose serializer raises
					if etd := s.Type(et.Name); etd != nil && (etd.Kind == model.KEnum || (etd.Kind == model.KScalar && !builtinScalar(et.Name))) {
						ek = pick(t, []string{"badleaf", "leafpanic", "leafpanic"}, "elemLeafKind")
						if etd.Kind == model.KScalar && chance(t, 40, "elemSerNothing") {
							ek = pick(t, []string{"sernan", "sernilptr"}, "elemSerKind")
						}
					} else if et.Name == "Int" || et.Name == "Float" {
						ek = "badleaf" // (String / Boolean / ID digest any value: the property is silent there)
						if et.Name == "Float" && chance(t, 50, "elemNaNText") {
							ek = pick(t, []string{"nantext", "inftext"}, "elemTextKind")
						}
						if et.Name == "Int" && chance(t, 50, "elemBigText") {
							ek = pick(t, []string{"bigtext", "bigint", "nantext"}, "elemBigKind")
						}
					}
				}
				w.Outcomes[fmt.Sprintf("%s/%d", key, idx)] = ref.Outcome{Kind: ek}
				if ek == "thunk" && chance(t, 70, "thunkBelowThunk") {
					// a deferred value below the deferred element: a field of that object, or an
					// element of that inner list
					prefix := fmt.Sprintf("%s/%d/", key, idx)
					var below []ref.Call
					for _, x := range dry.Calls {
						if k := ref.PathKey(x.Path); len(k) > len(prefix) && k[:len(prefix)] == prefix {
							xt := model.T(x.ReturnType)
							if !xt.NonNull() || (xt.Nullable().Named() && !s.IsComposite(xt.Name)) {
								below = append(below, x)
							}
						}
					}
					if len(below) > 0 {
						bk := ref.PathKey(below[uniform(t, len(below), "belowIdx")].Path)
						if _, dup := w.Outcomes[bk]; !dup {
							w.Outcomes[bk] = ref.Outcome{Kind: "thunk"}
						}
					}
				}
			case "type":
				tk := "rt_nil"
				arg := ""
				if named.Kind == model.KObject {
					tk = "istypeof_false"
				} else if !named.HasResolveType {
					tk = "istypeof_false"
				} else if chance(t, 50, "nonMember") {
					for _, od := range s.Types {
						if od.Kind == model.KObject && !s.IsPossible(named.Name, od.Name) {
							tk, arg = "rt_nonmember", od.Name
							break
						}
					}
				}
				// type decisions are keyed by the field path: at a list-typed field every element
				// gets the same decision (the same field plan meets the same wrong type repeatedly)
				allNullable := true
				for _, ch := range ty.Wrap {
					allNullable = allNullable && ch != '!'
				}
				if regime == "thunks" && !allNullable {
					continue
				}
				w.Outcomes[key+"#type"] = ref.Outcome{Kind: tk, Arg: arg}
			default:
				failing := kind != "valerr" || true
				if regime == "thunks" && failing && !local {
					continue
				}
				w.Outcomes[key] = ref.Outcome{Kind: kind}
			}
		}
	}
	if regime == "thunks" {
		// default nulls never sit in non-null positions, so nothing propagates in this regime
		// as long as no override was placed at a non-null position (checked above).
	}
	return w, regime
}

func builtinScalar(name string) bool {
	switch name {
	case "Int", "Float", "String", "Boolean", "ID":
		return true
	}
	return false
}
