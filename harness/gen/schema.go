// Package gen holds the rapid generators for schema models, documents, values and worlds.
// Every random choice goes through rapid so that shrinking and replay work.
package gen

import (
	"fmt"

	"pgregory.net/rapid"

	"verif/model"
	"verif/rnd"
)

type T = rapid.T

func intn(t *T, lo, hi int, label string) int     { return rnd.Intn(t, lo, hi, label) }
func uniform(t *T, n int, label string) int       { return rnd.Uniform(t, n, label) }
func chance(t *T, pct int, label string) bool     { return rnd.Chance(t, pct, label) }
func pick(t *T, xs []string, label string) string { return rnd.Pick(t, xs, label) }

// Chance / Uniform / Intn are exported for property files.
func Chance(t *T, pct int, label string) bool { return chance(t, pct, label) }
func Uniform(t *T, n int, label string) int   { return uniform(t, n, label) }
func Intn(t *T, lo, hi int, label string) int { return intn(t, lo, hi, label) }

// SchemaOpts tunes the schema generator.
type SchemaOpts struct {
	Mutation        bool // add a mutation root
	Subscription    bool
	MaxWrap         int  // maximal wrapper depth (default 3)
	Descriptions    bool // draw descriptions / deprecations (C10)
	Directives      bool // custom directives (C02/C10)
	NonNullDefaults bool // allow defaults on non-null arguments / input fields (C10 only)
	ExtraObjects    bool // object types X0.. that implement interfaces but are referenced by nothing (AppendType)
}

var fieldNames = []string{"a", "b", "c", "d", "e", "f", "g"}
var argNames = []string{"x", "y", "z"}

// Schema draws a schema model that NewSchema accepts.
func Schema(t *T, o SchemaOpts) *model.Schema {
	if o.MaxWrap == 0 {
		o.MaxWrap = 3
	}
	s := &model.Schema{Query: "Q"}
	// A fifth of the schemas is non-null heavy: chains of non-null positions are what a null has to travel through.
	nonNullPct = 50
	if chance(t, 20, "nonNullHeavy") {
		nonNullPct = 85
	}
	defer func() { nonNullPct = 50 }()
	nEnum, nInput, nScalar := intn(t, 0, 2, "nEnum"), intn(t, 0, 2, "nInput"), intn(t, 0, 1, "nScalar")
	nIface, nUnion, nObj := uniform(t, 3, "nIface"), uniform(t, 3, "nUnion"), 1+uniform(t, 4, "nObj")
	for i := 0; i < nScalar; i++ {
		s.Types = append(s.Types, &model.TypeDef{Kind: model.KScalar, Name: fmt.Sprintf("C%d", i), Desc: desc(t, o, "scalar")})
	}
	for i := 0; i < nEnum; i++ {
		td := &model.TypeDef{Kind: model.KEnum, Name: fmt.Sprintf("E%d", i), Desc: desc(t, o, "enum")}
		mode := intn(t, 0, 2, "enumInternal")
		for j, n := 0, intn(t, 1, 4, "nValues"); j < n; j++ {
			ev := &model.EnumVal{Name: fmt.Sprintf("V%d", j), Desc: desc(t, o, "enumval")}
			switch mode {
			case 1:
				ev.Internal = model.Int(int64(10 + j))
			case 2:
				ev.Internal = model.Str(fmt.Sprintf("x%d", j))
			}
			if o.Descriptions && chance(t, 25, "deprecated") {
				ev.Deprecation = pick(t, []string{"old", "use V0", "No longer supported"}, "reason")
			}
			td.Values = append(td.Values, ev)
		}
		s.Types = append(s.Types, td)
	}
	inputPool := []string{"Int", "Float", "String", "Boolean", "ID"}
	for _, td := range s.Types {
		inputPool = append(inputPool, td.Name)
	}
	for i := 0; i < nInput; i++ {
		td := &model.TypeDef{Kind: model.KInput, Name: fmt.Sprintf("N%d", i), Desc: desc(t, o, "input")}
		s.Types = append(s.Types, td) // registered first so that defaults can refer to it
		for j, n := 0, intn(t, 1, 3, "nInputFields"); j < n; j++ {
			ft := wrapIn(t, pick(t, inputPool, "inputFieldType"), o.MaxWrap)
			if chance(t, 15, "selfRef") { // nullable / list self reference (never a non-null cycle)
				ft = model.TypeRef{Name: td.Name}
				if chance(t, 50, "selfList") {
					ft.Wrap = "["
				}
			}
			f := &model.ArgDef{Name: fieldNames[j], Type: ft, Desc: desc(t, o, "inputfield")}
			td.InputFields = append(td.InputFields, f)
		}
		for _, f := range td.InputFields {
			if (!f.Type.NonNull() || o.NonNullDefaults) && f.Type.Name != td.Name && chance(t, 35, "inputDefault") {
				f.Default = RuntimeValue(t, s, f.Type, 2, true)
			}
		}
		inputPool = append(inputPool, td.Name)
	}
	// names of composite types are fixed up front so that fields can refer to any of them
	var ifaces, unions, objs []string
	for i := 0; i < nIface; i++ {
		ifaces = append(ifaces, fmt.Sprintf("I%d", i))
	}
	for i := 0; i < nUnion; i++ {
		unions = append(unions, fmt.Sprintf("U%d", i))
	}
	for i := 0; i < nObj; i++ {
		objs = append(objs, fmt.Sprintf("O%d", i))
	}
	outPool := []string{"Int", "Float", "String", "Boolean", "ID", "String", "Int"}
	for _, td := range s.Types {
		if td.Kind != model.KInput {
			outPool = append(outPool, td.Name)
		}
	}
	compPool := append(append(append([]string{}, objs...), ifaces...), unions...)
	outType := func(label string) model.TypeRef {
		var n string
		if chance(t, 45, label+"Composite") {
			n = pick(t, compPool, label+"C")
		} else {
			n = pick(t, outPool, label+"L")
		}
		return wrapOut(t, n, o.MaxWrap)
	}
	mkArgs := func() []*model.ArgDef {
		var out []*model.ArgDef
		for j, n := 0, intn(t, 0, 2, "nArgs"); j < n; j++ {
			a := &model.ArgDef{Name: argNames[j], Type: wrapIn(t, pick(t, inputPool, "argType"), o.MaxWrap), Desc: desc(t, o, "arg")}
			if j == 0 && chance(t, 12, "argNamedIf") {
				a.Name = "if" // the name of @skip / @include's argument
			}
			if (!a.Type.NonNull() || o.NonNullDefaults) && chance(t, 35, "argDefault") {
				a.Default = RuntimeValue(t, s, a.Type, 2, true)
			}
			out = append(out, a)
		}
		return out
	}
	mkField := func(name string) *model.FieldDef {
		f := &model.FieldDef{Name: name, Type: outType("fieldType"), Desc: desc(t, o, "field")}
		if chance(t, 40, "hasArgs") {
			f.Args = mkArgs()
			if len(f.Args) > 0 && chance(t, 60, "echoString") {
				f.Type = wrapOut(t, "String", 1) // arguments become visible in the response
			}
		}
		if o.Descriptions && chance(t, 20, "fieldDeprecated") {
			f.Deprecation = pick(t, []string{"gone", "use b", "No longer supported"}, "reason")
		}
		return f
	}
	ifaceDefs := map[string]*model.TypeDef{}
	for i, n := range ifaces {
		td := &model.TypeDef{Kind: model.KIface, Name: n, Desc: desc(t, o, "iface"), HasResolveType: chance(t, 70, "ifaceResolveType")}
		for j, k := 0, intn(t, 1, 2, "nIfaceFields"); j < k; j++ {
			td.Fields = append(td.Fields, mkField(fmt.Sprintf("i%d%s", i, fieldNames[j])))
		}
		ifaceDefs[n] = td
		s.Types = append(s.Types, td)
	}
	objDefs := map[string]*model.TypeDef{}
	for _, n := range objs {
		td := &model.TypeDef{Kind: model.KObject, Name: n, Desc: desc(t, o, "object"), HasIsTypeOf: chance(t, 30, "isTypeOf"), Thunked: chance(t, 30, "thunkedIfaces")}
		for _, in := range ifaces {
			if chance(t, 50, "implements") {
				td.Interfaces = append(td.Interfaces, in)
			}
		}
		objDefs[n] = td
		s.Types = append(s.Types, td)
	}
	// every interface needs an implementer
	for _, in := range ifaces {
		has := false
		for _, n := range objs {
			for _, x := range objDefs[n].Interfaces {
				if x == in {
					has = true
				}
			}
		}
		if !has {
			o0 := objDefs[pick(t, objs, "forcedImplementer")]
			o0.Interfaces = append(o0.Interfaces, in)
		}
	}
	for _, n := range objs {
		td := objDefs[n]
		for _, in := range td.Interfaces {
			for _, f := range ifaceDefs[in].Fields {
				cp := *f
				// the implementer's arguments have the interface's names and types, but may have defaults of their own:
				// a field selected through the interface is then called with the defaults of the runtime type
				cp.Args = nil
				for _, a := range f.Args {
					ac := *a
					if (!ac.Type.NonNull() || o.NonNullDefaults) && chance(t, 30, "implementerDefault") {
						ac.Default = RuntimeValue(t, s, ac.Type, 2, true)
					}
					cp.Args = append(cp.Args, &ac)
				}
				td.Fields = append(td.Fields, &cp)
			}
		}
		used := map[string]bool{}
		for j, k := 0, intn(t, 1, 3, "nOwnFields"); j < k; j++ {
			name := pick(t, fieldNames, "fieldName")
			if used[name] {
				continue
			}
			used[name] = true
			td.Fields = append(td.Fields, mkField(name))
		}
	}
	for _, n := range unions {
		td := &model.TypeDef{Kind: model.KUnion, Name: n, Desc: desc(t, o, "union"), HasResolveType: chance(t, 70, "unionResolveType"), Thunked: chance(t, 30, "thunkedMembers")}
		seen := map[string]bool{}
		for j, k := 0, 1+uniform(t, 3, "nMembers"); j < k; j++ {
			m := pick(t, objs, "member")
			if !seen[m] {
				seen[m] = true
				td.Members = append(td.Members, m)
			}
		}
		s.Types = append(s.Types, td)
	}
	// abstract types without a type resolver rely on isTypeOf of every possible type
	for _, td := range s.Types {
		if (td.Kind == model.KIface || td.Kind == model.KUnion) && !td.HasResolveType {
			for _, p := range s.PossibleTypes(td.Name) {
				objDefs[p].HasIsTypeOf = true
			}
		}
	}
	if o.ExtraObjects && len(ifaces) > 0 {
		var extras []string
		for i, n := 0, intn(t, 0, 2, "nExtra"); i < n; i++ {
			td := &model.TypeDef{Kind: model.KObject, Name: fmt.Sprintf("X%d", i), Desc: desc(t, o, "extra"), HasIsTypeOf: true}
			in := pick(t, ifaces, "extraIface")
			td.Interfaces = []string{in}
			for _, f := range ifaceDefs[in].Fields {
				cp := *f
				td.Fields = append(td.Fields, &cp)
			}
			td.Fields = append(td.Fields, &model.FieldDef{Name: "xa", Type: model.T("Int")})
			s.Types = append(s.Types, td)
			extras = append(extras, td.Name)
		}
		// a union nothing refers to whose members are the extra objects: appending it brings
		// them into the schema transitively
		if len(extras) > 0 && chance(t, 50, "extraUnion") {
			s.Types = append(s.Types, &model.TypeDef{Kind: model.KUnion, Name: "XU", Desc: desc(t, o, "extraUnion"), Members: append([]string{}, extras...)})
		}
	}
	root := &model.TypeDef{Kind: model.KObject, Name: "Q", Desc: desc(t, o, "query")}
	used := map[string]bool{}
	for j, k := 0, intn(t, 2, 5, "nRootFields"); j < k; j++ {
		name := pick(t, fieldNames, "rootFieldName")
		if used[name] {
			continue
		}
		used[name] = true
		f := mkField(name)
		if j == 0 { // at least one composite entry point, preferably a list of an abstract type
			abs := append(append([]string{}, ifaces...), unions...)
			if len(abs) > 0 && chance(t, 60, "rootAbstract") {
				f.Type = model.TypeRef{Name: pick(t, abs, "rootAbs"), Wrap: pick(t, []string{"[", "![!", "[!", "", "[["}, "rootAbsWrap")}
			} else {
				f.Type = wrapOut(t, pick(t, compPool, "rootComposite"), o.MaxWrap)
			}
		}
		root.Fields = append(root.Fields, f)
	}
	s.Types = append(s.Types, root)
	// The library knows a built-in scalar only when the schema mentions it (a quirk outside the
	// listed properties): every generated schema mentions all five.
	s.Types = append(s.Types, &model.TypeDef{Kind: model.KObject, Name: "Z5", Fields: []*model.FieldDef{
		{Name: "i", Type: model.T("Int")}, {Name: "f", Type: model.T("Float")}, {Name: "s", Type: model.T("String")},
		{Name: "b", Type: model.T("Boolean")}, {Name: "d", Type: model.T("ID")}}})
	if o.Mutation {
		m := &model.TypeDef{Kind: model.KObject, Name: "M"}
		for j, k := 0, intn(t, 2, 5, "nMutFields"); j < k; j++ {
			m.Fields = append(m.Fields, mkField(fieldNames[j]))
		}
		s.Types = append(s.Types, m)
		s.Mutation = "M"
	}
	if o.Subscription {
		m := &model.TypeDef{Kind: model.KObject, Name: "S"}
		for j, k := 0, intn(t, 1, 3, "nSubFields"); j < k; j++ {
			m.Fields = append(m.Fields, mkField(fieldNames[j]))
		}
		s.Types = append(s.Types, m)
		s.Subscription = "S"
	}
	if o.Directives {
		locs := []string{"QUERY", "MUTATION", "FIELD", "FRAGMENT_DEFINITION", "FRAGMENT_SPREAD", "INLINE_FRAGMENT"}
		for i, n := 0, intn(t, 0, 2, "nDirectives"); i < n; i++ {
			d := &model.DirectiveDef{Name: fmt.Sprintf("d%d", i), Desc: desc(t, o, "directive")}
			for _, l := range locs {
				if chance(t, 40, "dirLoc") {
					d.Locations = append(d.Locations, l)
				}
			}
			if len(d.Locations) == 0 {
				d.Locations = []string{"FIELD"}
			}
			if chance(t, 50, "dirArgs") {
				d.Args = mkArgs()
			}
			s.Directives = append(s.Directives, d)
		}
	}
	return s
}

func desc(t *T, o SchemaOpts, what string) string {
	if !o.Descriptions || !chance(t, 40, "hasDesc") {
		return ""
	}
	if chance(t, 25, "composedDesc") {
		return rnd.ComposeString(t)
	}
	return pick(t, []string{"plain", "two\nlines", "with \"quotes\"", "  padded  ", "ünï", "back\\slash"}, "desc") + " " + what
}

func wrapIn(t *T, name string, max int) model.TypeRef  { return wrap(t, name, max) }
func wrapOut(t *T, name string, max int) model.TypeRef { return wrap(t, name, max) }

// WrapType is wrap for property files.
func WrapType(t *T, name string, max int) model.TypeRef { return wrap(t, name, max) }

// nonNullPct is the chance of a non-null wrapper where one may stand; Schema sets it per schema (all draws happen on
// the goroutine that runs the property, so a package variable is enough).
var nonNullPct = 50

// wrap draws a wrapper chain of depth ≤ max without NonNull(NonNull).
func wrap(t *T, name string, max int) model.TypeRef {
	w := ""
	depth := 0
	if !chance(t, 45, "plain") {
		depth = 1 + uniform(t, max, "wrapDepth")
	}
	for i := 0; i < depth; i++ {
		c := "["
		if (len(w) == 0 || w[len(w)-1] != '!') && chance(t, nonNullPct, "nonNull") {
			c = "!"
		}
		w += c
	}
	// make sure chains of only '!' collapse to a single '!'
	return model.TypeRef{Name: name, Wrap: w}
}

// RuntimeValue draws a conformant runtime value for an input type (enum members as K "enum"
// when asDefault – the model's way to name an enum member in a configured default – else as
// K "str", the way a caller supplies them in a variables map).
func RuntimeValue(t *T, s *model.Schema, ty model.TypeRef, depth int, asDefault bool) *model.Val {
	if ty.NonNull() {
		return RuntimeValue(t, s, ty.Inner(), depth, asDefault)
	}
	if ty.IsList() {
		if !asDefault && chance(t, 12, "listOfOneValue") {
			// a single value where a list is expected (input coercion wraps it)
			if in := RuntimeValue(t, s, ty.Inner(), depth-1, asDefault); in.K != "null" {
				return in
			}
		}
		n := intn(t, 0, 2, "listLen")
		if depth <= 0 {
			n = 0
		}
		v := model.List()
		v.L = []*model.Val{}
		for i := 0; i < n; i++ {
			// a configured default cannot hold a null inside a list: this edition has no null
			// literal, so introspection could not report it (excluded, DESIGN §3.3)
			if !asDefault && !ty.Inner().NonNull() && chance(t, 10, "nullElem") {
				v.L = append(v.L, model.Null())
				continue
			}
			v.L = append(v.L, RuntimeValue(t, s, ty.Inner(), depth-1, asDefault))
		}
		return v
	}
	td := s.Type(ty.Name)
	switch td.Kind {
	case model.KEnum:
		n := td.Values[intn(t, 0, len(td.Values)-1, "enumIdx")].Name
		if asDefault {
			return model.Enum(n)
		}
		return model.Str(n)
	case model.KInput:
		v := model.Obj()
		for _, f := range td.InputFields {
			need := f.Type.NonNull()
			if !need && (depth <= 0 || f.Type.Name == td.Name || !chance(t, 60, "optField")) {
				if asDefault && f.Default != nil {
					// a configured default is given in coerced form: fields that have a default
					// of their own carry it (otherwise reading the reported literal back, which
					// applies field defaults, could not reproduce it)
					v.O = append(v.O, model.F(f.Name, f.Default.Clone()))
				}
				continue
			}
			v.O = append(v.O, model.F(f.Name, RuntimeValue(t, s, f.Type, depth-1, asDefault)))
		}
		return v
	}
	switch ty.Name {
	case "Int":
		i := rapid.SampledFrom([]int{0, 1, -1, 7, 42, 2147483647, -2147483648, 1000}).Draw(t, "int")
		if !asDefault && chance(t, 25, "intAsFloat") { // JSON decoders deliver float64
			return model.Float(float64(i))
		}
		return model.Int(int64(i))
	case "Float":
		if chance(t, 30, "floatAsInt") {
			return model.Int(int64(intn(t, -5, 5, "fi")))
		}
		return model.Float(rapid.SampledFrom([]float64{0.5, -1.25, 3.0, 1e10, 2.5e-3, 1e19, -1e19, 1e21, 1.5e300, 9007199254740993, 123456789.125, 1e-7, -4.9e-324}).Draw(t, "float"))
	case "String":
		if chance(t, 35, "composedStr") {
			return model.Str(rnd.ComposeString(t))
		}
		return model.Str(rapid.SampledFrom([]string{"", "s", "hello world", "q\"uote", "ünï", "a,b]c", "line\nbreak"}).Draw(t, "str"))
	case "Boolean":
		return model.Bool(chance(t, 50, "bool"))
	case "ID":
		if chance(t, 40, "idInt") {
			return model.Int(int64(intn(t, 0, 99, "id")))
		}
		return model.Str(rapid.SampledFrom([]string{"id1", "42", "x-y"}).Draw(t, "idstr"))
	}
	if chance(t, 25, "composedCustom") {
		return model.Str(rnd.ComposeString(t))
	}
	return model.Str(rapid.SampledFrom([]string{"c1", "custom", ""}).Draw(t, "custom"))
}
