package gen

import (
	"testing"

	"pgregory.net/rapid"

	"verif/model"
)

func TestInjectionCatalogue(t *testing.T) {
	names := InjectionOperatorNames()
	if len(names) != NumInjectionOperators() || len(names) < 40 {
		t.Fatalf("%d operators", len(names))
	}
	seen := map[string]bool{}
	for _, n := range names {
		if seen[n] {
			t.Errorf("duplicate operator name %s", n)
		}
		seen[n] = true
	}
	// the index wraps around (also for negative indices), the base document is never touched,
	// and the result prints
	rapid.Check(t, func(rt *rapid.T) {
		s := Schema(rt, SchemaOpts{})
		d, _, _ := Doc(rt, s, DocOpts{})
		before := model.Print(d, nil).Text
		i := rapid.IntRange(-200, 200).Draw(rt, "opIndex")
		out, inj, ok := InjectViolation(rt, s, d, i)
		n := len(names)
		if inj.Operator != names[((i%n)+n)%n] {
			rt.Fatalf("index %d gave %s", i, inj.Operator)
		}
		if model.Print(d, nil).Text != before {
			rt.Fatalf("%s modified its input", inj.Operator)
		}
		if ok && model.Print(out, nil).Text == before {
			rt.Fatalf("%s changed nothing", inj.Operator)
		}
	})
}
