package gen

import (
	"verif/model"
)

// pos is a position inside a runtime value together with the declared type at that position
// and a setter that replaces the value there (nil = remove, for object fields).
type pos struct {
	ty     model.TypeRef
	v      *model.Val
	set    func(*model.Val)
	remove func() // only for object fields
}

func positions(s *model.Schema, ty model.TypeRef, v *model.Val, set func(*model.Val), remove func(), out *[]pos) {
	*out = append(*out, pos{ty: ty, v: v, set: set, remove: remove})
	if v == nil || v.K == "null" {
		return
	}
	t := ty.Nullable()
	if t.IsList() {
		if v.K == "list" {
			for i := range v.L {
				i := i
				positions(s, t.Inner(), v.L[i], func(n *model.Val) { v.L[i] = n }, nil, out)
			}
		}
		return
	}
	td := s.Type(t.Name)
	if td != nil && td.Kind == model.KInput && v.K == "obj" {
		for i := range v.O {
			i := i
			fd := td.InputField(v.O[i].N)
			if fd == nil {
				continue
			}
			name := v.O[i].N
			positions(s, fd.Type, v.O[i].V, func(n *model.Val) { v.O[i].V = n }, func() {
				var keep []model.ObjFld
				for _, f := range v.O {
					if f.N != name {
						keep = append(keep, f)
					}
				}
				v.O = keep
			}, out)
		}
	}
}

// Corrupt takes a conformant runtime value for ty and injects exactly one of the
// non-conformances the property names, at a drawn position. It returns the corrupted copy and
// the name of the corruption, or (nil, "") when the type offers no position to corrupt.
func Corrupt(t *T, s *model.Schema, ty model.TypeRef, v *model.Val) (*model.Val, string) {
	root := v.Clone()
	if root == nil {
		root = model.Null()
	}
	holder := &model.Val{K: "list", L: []*model.Val{root}}
	var ps []pos
	positions(s, ty, holder.L[0], func(n *model.Val) { holder.L[0] = n }, nil, &ps)
	type option struct {
		kind  string
		apply func()
	}
	var opts []option
	for _, p := range ps {
		p := p
		if p.ty.NonNull() {
			opts = append(opts, option{"null_for_nonnull", func() { p.set(model.Null()) }})
			if p.remove != nil {
				opts = append(opts, option{"missing_required_field", p.remove})
			}
		}
		if p.v == nil || p.v.K == "null" {
			continue
		}
		nt := p.ty.Nullable()
		if nt.IsList() {
			continue
		}
		td := s.Type(nt.Name)
		if td == nil {
			continue
		}
		switch {
		case nt.Name == "Int":
			opts = append(opts,
				option{"non_numeric_for_int", func() { p.set(model.Str("abc")) }},
				option{"non_numeric_for_int", func() { p.set(model.Obj(model.F("a", model.Int(1)))) }},
				option{"int_out_of_32_bits", func() { p.set(model.Int(2147483648)) }},
				option{"int_out_of_32_bits", func() { p.set(model.Int(-2147483649)) }},
				option{"int_out_of_32_bits", func() { p.set(model.Float(3e9)) }},
				option{"int_out_of_32_bits", func() { p.set(model.Float(-3e9)) }},
				option{"int_out_of_32_bits", func() { p.set(model.Int(1 << 40)) }},
				option{"int_out_of_32_bits", func() { p.set(model.Int(-(1 << 40))) }},
				// numeric text: whether the port reads it as a number (then it is out of range) or
				// as a non-number, the value cannot be coerced to Int
				option{"int_out_of_32_bits", func() { p.set(model.Str("2147483648")) }},
				option{"int_out_of_32_bits", func() { p.set(model.Str("-2147483649")) }},
				option{"int_out_of_32_bits", func() { p.set(model.Str("9999999999")) }})
		case nt.Name == "Float":
			opts = append(opts,
				option{"non_numeric_for_float", func() { p.set(model.Str("abc")) }},
				option{"non_numeric_for_float", func() { p.set(model.Obj(model.F("a", model.Int(1)))) }})
		case td.Kind == model.KEnum:
			opts = append(opts,
				option{"unknown_enum_value", func() { p.set(model.Str("NOPE")) }},
				option{"unknown_enum_value", func() { p.set(model.Str("v0")) }})
		case td.Kind == model.KInput:
			opts = append(opts,
				option{"non_object_for_input_object", func() { p.set(model.Str("notobj")) }},
				option{"non_object_for_input_object", func() { p.set(model.Int(3)) }},
				option{"unknown_input_field", func() {
					c := p.v.Clone()
					c.O = append(c.O, model.F("zz", model.Int(1)))
					p.set(c)
				}})
		}
	}
	if len(opts) == 0 {
		return nil, ""
	}
	o := opts[uniform(t, len(opts), "corruption")]
	o.apply()
	return holder.L[0], o.kind
}

// ToLiteral converts a runtime value into the literal a client would write for type ty:
// enum members become bare names, integral floats for Int become int literals. ok is false
// when the value has no literal form in this edition (an explicit null inside a list).
// Null object fields are written by leaving the field out.
func ToLiteral(s *model.Schema, ty model.TypeRef, v *model.Val) (*model.Val, bool) {
	if v == nil || v.K == "null" {
		return nil, true
	}
	t := ty.Nullable()
	if t.IsList() {
		if v.K == "list" {
			out := model.List()
			out.L = []*model.Val{}
			for _, e := range v.L {
				le, ok := ToLiteral(s, t.Inner(), e)
				if !ok || le == nil {
					return nil, false
				}
				out.L = append(out.L, le)
			}
			return out, true
		}
		return ToLiteral(s, t.Inner(), v)
	}
	td := s.Type(t.Name)
	if td == nil {
		return v.Clone(), true
	}
	switch td.Kind {
	case model.KEnum:
		if v.K == "str" && isName(v.S) {
			return model.Enum(v.S), true
		}
		return v.Clone(), true
	case model.KInput:
		if v.K != "obj" {
			return v.Clone(), true
		}
		out := model.Obj()
		for _, f := range v.O {
			ft := model.TypeRef{Name: "String"}
			if fd := td.InputField(f.N); fd != nil {
				ft = fd.Type
			}
			lf, ok := ToLiteral(s, ft, f.V)
			if !ok {
				return nil, false
			}
			if lf == nil {
				continue
			}
			out.O = append(out.O, model.F(f.N, lf))
		}
		return out, true
	}
	if t.Name == "Int" && v.K == "float" && v.F == float64(int64(v.F)) && v.F > -1e15 && v.F < 1e15 {
		return model.Int(int64(v.F)), true
	}
	return v.Clone(), true
}

func isName(s string) bool {
	if s == "" || s == "true" || s == "false" || s == "null" {
		return false
	}
	for i, c := range s {
		ok := c == '_' || (c >= 'a' && c <= 'z') || (c >= 'A' && c <= 'Z') || (i > 0 && c >= '0' && c <= '9')
		if !ok {
			return false
		}
	}
	return true
}
