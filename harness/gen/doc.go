package gen

import (
	"fmt"
	"sort"

	"pgregory.net/rapid"

	"verif/model"
	"verif/rnd"
)

// DocOpts tunes the valid-document generator.
type DocOpts struct {
	MaxDepth   int    // selection nesting (default 4)
	MaxSel     int    // selections per set (default 4)
	MaxOps     int    // operations per document (default 3)
	Budget     int    // total field occurrences (default 40)
	OpKind     string // "" = query (or mutation when the schema has one, by chance), else forced
	NoVars     bool
	NoDirs     bool
	NoFrags    bool
	Typename   bool // allow __typename selections (default on through zero value inversion below)
	NoTypename bool
}

type keyInfo struct{ name, args, typ, sig string }

type docGen struct {
	t       *T
	s       *model.Schema
	o       DocOpts
	doc     *model.Doc
	keys    map[string]keyInfo      // response key → the one call it may stand for, document-wide
	keyArgs map[string][]*model.Arg // arguments used under that key (re-used for duplicates)
	vars    []*model.VarDef         // document-wide variable pool
	frags   []*model.Def
	open    map[string]bool // fragments whose body is being generated (no cycles)
	budget  int
	nAlias  int
	// Stats for non-triviality
	DupKeys, MultiSpread, VarDirs, BothDirs, Reentries int
}

// Doc draws a document that satisfies every validation rule by construction, together with
// the operation name to execute ("" when the document has a single operation and the name is
// left out).
func Doc(t *T, s *model.Schema, o DocOpts) (*model.Doc, string, *DocStats) {
	if o.MaxDepth == 0 {
		o.MaxDepth = 4
	}
	if o.MaxSel == 0 {
		o.MaxSel = 4
	}
	if o.MaxOps == 0 {
		o.MaxOps = 3
	}
	if o.Budget == 0 {
		o.Budget = 40
	}
	g := &docGen{t: t, s: s, o: o, doc: &model.Doc{}, keys: map[string]keyInfo{}, keyArgs: map[string][]*model.Arg{}, open: map[string]bool{}, budget: o.Budget}
	nOps := 1
	if chance(t, 25, "multiOp") {
		nOps = intn(t, 2, o.MaxOps, "nOps")
	}
	var ops []*model.Def
	for i := 0; i < nOps; i++ {
		kind := o.OpKind
		if kind == "" {
			kind = "query"
			if s.Mutation != "" && chance(t, 20, "mutation") {
				kind = "mutation"
			}
		}
		op := &model.Def{Kind: kind}
		if nOps > 1 || chance(t, 50, "named") {
			op.Name = fmt.Sprintf("Op%d", i)
		} else if kind == "query" && chance(t, 50, "shorthand") {
			op.Shorthand = true
		}
		root := s.Query
		if kind == "mutation" {
			root = s.Mutation
		} else if kind == "subscription" {
			root = s.Subscription
		}
		op.Sel = g.selSet(root, 0, -1)
		ops = append(ops, op)
	}
	// definitions order: operations and fragments interleaved by chance
	defs := append([]*model.Def{}, ops...)
	for _, f := range g.frags {
		pos := intn(t, 0, len(defs), "fragPos")
		defs = append(defs[:pos], append([]*model.Def{f}, defs[pos:]...)...)
	}
	g.doc.Defs = defs
	// declare in every operation exactly the variables it uses (transitively)
	for _, op := range ops {
		used := map[string]bool{}
		g.usedVars(op.Sel, op.Dirs, used, map[string]bool{})
		for _, v := range g.vars {
			if used[v.Name] {
				cp := *v
				op.Vars = append(op.Vars, &cp)
			}
		}
		if len(op.Vars) > 0 {
			op.Shorthand = false
		}
	}
	opName := ""
	if nOps > 1 {
		opName = ops[intn(t, 0, nOps-1, "opIdx")].Name
	} else if ops[0].Name != "" && chance(t, 50, "giveName") {
		opName = ops[0].Name
	}
	st := &DocStats{DupKeys: g.DupKeys, MultiSpread: g.MultiSpread, VarDirs: g.VarDirs, BothDirs: g.BothDirs, Fragments: len(g.frags), Vars: len(g.vars), Ops: nOps, Reentries: g.Reentries}
	return g.doc, opName, st
}

type DocStats struct {
	DupKeys, MultiSpread, VarDirs, BothDirs, Fragments, Vars, Ops, Reentries int
}

func (g *docGen) usedVars(sel []*model.Sel, dirs []*model.Dir, used, seen map[string]bool) {
	var val func(v *model.Val)
	val = func(v *model.Val) {
		if v == nil {
			return
		}
		if v.K == "var" {
			used[v.S] = true
		}
		for _, e := range v.L {
			val(e)
		}
		for _, f := range v.O {
			val(f.V)
		}
	}
	doDirs := func(ds []*model.Dir) {
		for _, d := range ds {
			for _, a := range d.Args {
				val(a.Val)
			}
		}
	}
	doDirs(dirs)
	for _, x := range sel {
		doDirs(x.Dirs)
		for _, a := range x.Args {
			val(a.Val)
		}
		switch x.K {
		case "spread":
			if !seen[x.Name] {
				seen[x.Name] = true
				if f := g.fragByName(x.Name); f != nil {
					g.usedVars(f.Sel, f.Dirs, used, seen)
				}
			}
		default:
			g.usedVars(x.Sel, nil, used, seen)
		}
	}
}

func (g *docGen) fragByName(n string) *model.Def {
	for _, f := range g.frags {
		if f.Name == n {
			return f
		}
	}
	return nil
}

// overlapping lists the type conditions that can apply to a value of static type parent.
func overlapping(s *model.Schema, parent string) []string {
	pp := s.PossibleTypes(parent)
	set := map[string]bool{}
	var out []string
	for _, td := range s.Types {
		if !s.IsComposite(td.Name) {
			continue
		}
		for _, a := range s.PossibleTypes(td.Name) {
			hit := false
			for _, b := range pp {
				if a == b {
					hit = true
				}
			}
			if hit && !set[td.Name] {
				set[td.Name] = true
				out = append(out, td.Name)
			}
		}
	}
	sort.Strings(out)
	return out
}

// selSet draws a non-empty selection set for a composite parent type. fragIdx is the index of
// the fragment whose body is being generated (-1 inside operations): only fragments created
// later may be spread there, which keeps the spread graph acyclic.
func (g *docGen) selSet(parent string, depth int, fragIdx int) []*model.Sel {
	t := g.t
	td := g.s.Type(parent)
	n := intn(t, 1, g.o.MaxSel, "nSel")
	var out []*model.Sel
	for i := 0; i < n; i++ {
		roll := intn(t, 0, 99, "selKind")
		switch {
		case roll < 12 && !g.o.NoFrags && depth < g.o.MaxDepth:
			if x := g.spread(parent, depth, fragIdx); x != nil {
				out = append(out, x)
				continue
			}
			fallthrough
		case roll < 24 && depth < g.o.MaxDepth:
			conds := overlapping(g.s, parent)
			cond := ""
			if chance(t, 75, "inlineHasCond") {
				cond = pick(t, conds, "inlineCond")
			}
			eff := parent
			if cond != "" {
				eff = cond
			}
			x := &model.Sel{K: "inline", TypeCond: cond, Dirs: g.dirs("inline")}
			x.Sel = g.selSet(eff, depth+1, fragIdx)
			out = append(out, x)
		case roll < 32 && len(out) > 0 && out[intn(t, 0, len(out)-1, "dupIdx")].K == "field":
			// deliberately repeat a response key with a fresh sub-selection
			var fields []*model.Sel
			for _, x := range out {
				if x.K == "field" {
					fields = append(fields, x)
				}
			}
			src := fields[intn(t, 0, len(fields)-1, "dupSrc")]
			if x := g.fieldSel(parent, td, src.Name, src.Alias, depth); x != nil {
				g.DupKeys++
				out = append(out, x)
			}
		default:
			if x := g.anyField(parent, td, depth); x != nil {
				out = append(out, x)
			}
		}
	}
	// re-entry: next to a spread of fragment F, select one of F's own composite fields directly,
	// with F spread again below it (the response key then has an occurrence outside F whose
	// sub-selection leads back into F, and one inside F)
	if !g.o.NoFrags && depth < g.o.MaxDepth && td.Kind != model.KUnion && chance(t, 12, "reenter") {
	search:
		for idx, x := range out {
			if x.K != "spread" {
				continue
			}
			f := g.fragByName(x.Name)
			if f == nil || g.open[f.Name] {
				continue
			}
			ftd := g.s.Type(f.TypeCond)
			if ftd == nil {
				continue
			}
			for _, y := range f.Sel {
				if y.K != "field" || len(y.Sel) == 0 {
					continue
				}
				fd, pd := ftd.Field(y.Name), td.Field(y.Name)
				if fd == nil || pd == nil || fd.Type.String() != pd.Type.String() || len(fd.Args) != len(pd.Args) {
					continue
				}
				sameArgs := true
				for i := range fd.Args {
					sameArgs = sameArgs && fd.Args[i].Name == pd.Args[i].Name && fd.Args[i].Type.String() == pd.Args[i].Type.String()
				}
				fits := false
				for _, c := range overlapping(g.s, fd.Type.Name) {
					fits = fits || c == f.TypeCond
				}
				if !sameArgs || !fits {
					continue
				}
				nf := &model.Sel{K: "field", Name: y.Name, Alias: y.Alias, Args: cloneArgs(y.Args), Sel: []*model.Sel{{K: "spread", Name: f.Name}}}
				out = append(out[:idx], append([]*model.Sel{nf}, out[idx:]...)...)
				g.DupKeys++
				g.MultiSpread++
				g.Reentries++
				break search
			}
		}
	}
	if len(out) == 0 {
		out = append(out, &model.Sel{K: "field", Name: "__typename"})
	}
	return out
}

func (g *docGen) anyField(parent string, td *model.TypeDef, depth int) *model.Sel {
	t := g.t
	var cands []string
	if td.Kind != model.KUnion {
		for _, f := range td.Fields {
			if depth >= g.o.MaxDepth && g.s.IsComposite(f.Type.Name) {
				continue
			}
			cands = append(cands, f.Name)
		}
	}
	if !g.o.NoTypename || len(cands) == 0 {
		cands = append(cands, "__typename")
	}
	name := pick(t, cands, "field")
	alias := ""
	if chance(t, 20, "alias") {
		alias = pick(t, []string{"k1", "k2", "k3"}, "aliasName")
	}
	return g.fieldSel(parent, td, name, alias, depth)
}

// fieldSel builds one field selection under the document-wide response-key table.
func (g *docGen) fieldSel(parent string, td *model.TypeDef, name, alias string, depth int) *model.Sel {
	t := g.t
	if g.budget <= 0 {
		name, alias = "__typename", ""
	}
	g.budget--
	x := &model.Sel{K: "field", Name: name, Alias: alias}
	typ := "String!"
	sig := ""
	var fd *model.FieldDef
	if name != "__typename" {
		fd = td.Field(name)
		if fd == nil {
			return nil
		}
		typ = fd.Type.String()
		for _, a := range fd.Args {
			sig += a.Name + ":" + a.Type.String() + ";"
		}
	}
	key := x.Key()
	if prev, ok := g.keys[key]; ok && (prev.name != name || prev.typ != typ || prev.sig != sig) {
		// the key already stands for a different call: take a fresh alias
		g.nAlias++
		x.Alias = fmt.Sprintf("u%d", g.nAlias)
		key = x.Alias
	}
	if prev, ok := g.keys[key]; ok {
		// same call again: reuse its arguments verbatim
		_ = prev
		for _, a := range g.keyArgs[key] {
			x.Args = append(x.Args, &model.Arg{Name: a.Name, Val: a.Val.Clone()})
		}
	} else {
		if fd != nil {
			x.Args = g.args(fd.Args)
		}
		g.keys[key] = keyInfo{name: name, typ: typ, sig: sig, args: argsString(x.Args)}
		g.keyArgs[key] = x.Args
	}
	x.Dirs = g.dirs("field")
	if fd != nil && g.s.IsComposite(fd.Type.Name) {
		x.Sel = g.selSet(fd.Type.Name, depth+1, g.curFrag())
	}
	_ = t
	return x
}

// curFrag is the index of the innermost fragment being generated (-1 in operations).
func (g *docGen) curFrag() int {
	best := -1
	for i, f := range g.frags {
		if g.open[f.Name] && i > best {
			best = i
		}
	}
	return best
}

func argsString(as []*model.Arg) string {
	s := ""
	for _, a := range as {
		s += a.Name + ":" + model.ValString(a.Val) + ","
	}
	return s
}

func (g *docGen) spread(parent string, depth, fragIdx int) *model.Sel {
	t := g.t
	cur := g.curFrag()
	var cands []*model.Def
	conds := overlapping(g.s, parent)
	for i, f := range g.frags {
		if i <= cur || g.open[f.Name] {
			continue
		}
		for _, c := range conds {
			if c == f.TypeCond {
				cands = append(cands, f)
				break
			}
		}
	}
	if len(cands) > 0 && chance(t, 60, "reuseFrag") {
		f := cands[intn(t, 0, len(cands)-1, "fragIdx")]
		g.MultiSpread++
		return &model.Sel{K: "spread", Name: f.Name, Dirs: g.dirs("spread")}
	}
	if len(g.frags) >= 4 {
		return nil
	}
	f := &model.Def{Kind: "fragment", Name: fmt.Sprintf("F%d", len(g.frags)), TypeCond: pick(t, conds, "fragCond")}
	g.frags = append(g.frags, f)
	g.open[f.Name] = true
	f.Sel = g.selSet(f.TypeCond, depth+1, len(g.frags)-1)
	g.open[f.Name] = false
	return &model.Sel{K: "spread", Name: f.Name, Dirs: g.dirs("spread")}
}

// dirs draws @skip/@include with literal or variable conditions.
func (g *docGen) dirs(where string) []*model.Dir {
	t := g.t
	if g.o.NoDirs {
		return nil
	}
	if !chance(t, 18, "hasDir") {
		if len(g.s.Directives) > 0 && chance(t, 10, "onlyCustomDir") {
			return g.customDir(where)
		}
		return nil
	}
	var out []*model.Dir
	names := []string{"skip", "include"}
	first := pick(t, names, "dirName")
	mk := func(n string) *model.Dir {
		var v *model.Val
		if !g.o.NoVars && chance(t, 60, "dirVar") {
			v = model.Var(g.variable(model.T("Boolean!"), true))
			g.VarDirs++
		} else {
			v = model.Bool(chance(t, 50, "dirLit"))
		}
		return &model.Dir{Name: n, Args: []*model.Arg{{Name: "if", Val: v}}}
	}
	out = append(out, mk(first))
	if chance(t, 20, "bothDirs") {
		other := "skip"
		if first == "skip" {
			other = "include"
		}
		out = append(out, mk(other))
		g.BothDirs++
	}
	return append(out, g.customDir(where)...)
}

// customDir applies one of the schema's custom directives that is allowed at this kind of
// location, with arguments of the declared types (their names are the field arguments' names:
// x, y, z - sometimes `if`).
func (g *docGen) customDir(where string) []*model.Dir {
	loc := map[string]string{"field": "FIELD", "spread": "FRAGMENT_SPREAD", "inline": "INLINE_FRAGMENT"}[where]
	var cands []*model.DirectiveDef
	for _, d := range g.s.Directives {
		for _, l := range d.Locations {
			if l == loc {
				cands = append(cands, d)
			}
		}
	}
	if len(cands) == 0 || !chance(g.t, 50, "customDir") {
		return nil
	}
	d := cands[intn(g.t, 0, len(cands)-1, "customDirIdx")]
	return []*model.Dir{{Name: d.Name, Args: g.args(d.Args)}}
}

// variable returns the name of a variable usable at a position of type ty: an existing one of
// exactly that type, or a new one (declared as ty, or – when ty is non-null and allowDefault –
// as the nullable type with a default, which this edition accepts in a non-null position).
func (g *docGen) variable(ty model.TypeRef, allowDefault bool) string {
	t := g.t
	var same []*model.VarDef
	for _, v := range g.vars {
		if v.Type == ty {
			same = append(same, v)
		}
	}
	if len(same) > 0 && chance(t, 50, "reuseVar") {
		return same[intn(t, 0, len(same)-1, "varIdx")].Name
	}
	v := &model.VarDef{Name: fmt.Sprintf("v%d", len(g.vars)), Type: ty}
	if ty.NonNull() && allowDefault && chance(t, 15, "nullableWithDefault") {
		// `$v: T = lit` used where T! is expected: legal in this edition
		v.Type = ty.Inner()
		v.Default = g.literal(v.Type, 2, false)
	} else if !ty.NonNull() && chance(t, 30, "varDefault") {
		v.Default = g.literal(ty, 2, false)
	}
	g.vars = append(g.vars, v)
	return v.Name
}

// args draws arguments for a field or directive: required ones always, optional ones by chance,
// in drawn order.
func (g *docGen) args(defs []*model.ArgDef) []*model.Arg {
	t := g.t
	var out []*model.Arg
	for _, d := range defs {
		required := d.Type.NonNull() && d.Default == nil
		if !required && !chance(t, 60, "giveArg") {
			continue
		}
		out = append(out, &model.Arg{Name: d.Name, Val: g.literal(d.Type, 2, true)})
	}
	if len(out) == 2 && chance(t, 50, "swapArgs") {
		out[0], out[1] = out[1], out[0]
	}
	return out
}

// literal draws a literal that is valid for ty; variables may appear when vars is true.
func (g *docGen) literal(ty model.TypeRef, depth int, vars bool) *model.Val {
	t := g.t
	if vars && !g.o.NoVars && chance(t, 25, "useVar") {
		return model.Var(g.variable(ty, true))
	}
	if ty.NonNull() {
		return g.literalNN(ty.Inner(), depth, vars)
	}
	return g.literalNN(ty, depth, vars)
}

func (g *docGen) literalNN(ty model.TypeRef, depth int, vars bool) *model.Val {
	t := g.t
	if ty.NonNull() {
		ty = ty.Inner()
	}
	if ty.IsList() {
		if chance(t, 15, "listOfOne") && !ty.Inner().Nullable().IsList() {
			return g.literalNN(ty.Inner().Nullable(), depth, false)
		}
		v := model.List()
		v.L = []*model.Val{}
		n := intn(t, 0, 3, "litListLen")
		if depth <= 0 {
			n = 0
		}
		for i := 0; i < n; i++ {
			v.L = append(v.L, g.literal(ty.Inner(), depth-1, vars))
		}
		return v
	}
	td := g.s.Type(ty.Name)
	switch td.Kind {
	case model.KEnum:
		return model.Enum(td.Values[intn(t, 0, len(td.Values)-1, "litEnum")].Name)
	case model.KInput:
		v := model.Obj()
		for _, f := range td.InputFields {
			need := f.Type.NonNull() && f.Default == nil
			if f.Type.NonNull() {
				need = true // a non-null field is always supplied (see DESIGN §3.3, ambiguity about defaults)
			}
			if !need && (depth <= 0 || f.Type.Name == td.Name || !chance(t, 60, "litOptField")) {
				continue
			}
			v.O = append(v.O, model.F(f.Name, g.literal(f.Type, depth-1, vars)))
		}
		if len(v.O) == 2 && chance(t, 50, "swapFields") {
			v.O[0], v.O[1] = v.O[1], v.O[0]
		}
		return v
	}
	switch ty.Name {
	case "Int":
		return model.Int(int64(rapid.SampledFrom([]int{0, 1, -1, 7, 42, 2147483647, -2147483648, 123456}).Draw(t, "litInt")))
	case "Float":
		if chance(t, 30, "litFloatAsInt") {
			return model.Int(int64(intn(t, -5, 5, "lfi")))
		}
		return model.Float(rapid.SampledFrom([]float64{0.5, -1.25, 3.0, 1e10, 2.5e-3, 6.02e23}).Draw(t, "litFloat"))
	case "String":
		if chance(t, 30, "composedLitStr") {
			return model.Str(rnd.ComposeString(t))
		}
		return model.Str(rapid.SampledFrom([]string{"", "s", "hello world", "q\"uote", "ünï", "a,b]c", "line\nbreak", "sV0,"}).Draw(t, "litStr"))
	case "Boolean":
		return model.Bool(chance(t, 50, "litBool"))
	case "ID":
		if chance(t, 40, "litIdInt") {
			return model.Int(int64(intn(t, 0, 99, "litId")))
		}
		return model.Str(rapid.SampledFrom([]string{"id1", "42", "x-y"}).Draw(t, "litIdStr"))
	}
	return model.Str(rapid.SampledFrom([]string{"c1", "custom", ""}).Draw(t, "litCustom"))
}

// Variables draws a coercible assignment for the variables of the document's operations:
// each variable is absent, explicitly null (when allowed) or a conformant value.
func Variables(t *T, s *model.Schema, d *model.Doc) map[string]*model.Val {
	out := map[string]*model.Val{}
	seen := map[string]bool{}
	for _, op := range d.Operations() {
		for _, v := range op.Vars {
			if seen[v.Name] {
				continue
			}
			seen[v.Name] = true
			optional := !v.Type.NonNull()
			roll := intn(t, 0, 99, "varPresence")
			switch {
			case optional && roll < 25:
				// absent
			case optional && roll < 35:
				out[v.Name] = model.Null()
			default:
				out[v.Name] = RuntimeValue(t, s, v.Type, 2, false)
			}
		}
	}
	return out
}
