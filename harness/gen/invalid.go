package gen

// Violation injection: a catalogue of operators that each turn a VALID document (as produced by
// Doc) into one that violates known validation rules, at a drawn position. Everything an
// operator adds carries a name starting with "z"/"Z" so that it cannot collide with what the
// document generator produced (F0.., Op0.., v0.., k1..k3, u1..).

import (
	"fmt"
	"runtime"
	"sort"

	"verif/model"
)

// Injection describes one applied operator.
type Injection struct {
	Operator string
	// Rules this operator is intended to violate (at least these). nil = the operator builds
	// a divergent-but-legal document: no rule is expected to fire, the oracle decides.
	Rules []string
}

// InjectViolation takes a VALID document (as produced by Doc) and applies ONE operator chosen
// by index (opIndex modulo the number of operators, so a caller can round-robin) at a drawn
// position. It returns a deep copy of the document with the violation injected, or ok=false
// when the operator is not applicable to this document/schema.
func InjectViolation(t *T, s *model.Schema, d *model.Doc, opIndex int) (*model.Doc, Injection, bool) {
	ops := injOperators()
	n := len(ops)
	op := ops[((opIndex%n)+n)%n]
	c := &injector{t: t, s: s, d: CloneDoc(d)}
	c.index()
	extra, ok := runOperator(op.run, c)
	if !ok {
		return nil, Injection{Operator: op.name}, false
	}
	inj := Injection{Operator: op.name}
	if op.rules != nil {
		inj.Rules = append(append([]string{}, op.rules...), extra...)
	}
	return c.d, inj, true
}

// runOperator applies an operator. The operators are written for valid documents; on a
// document that already carries injections an operator may find nothing to work on (an empty
// candidate list indexed): that is "not applicable", not a failure of the case.
func runOperator(run func(*injector) ([]string, bool), c *injector) (extra []string, ok bool) {
	defer func() {
		if r := recover(); r != nil {
			if _, isRuntime := r.(runtime.Error); isRuntime {
				extra, ok = nil, false
				return
			}
			panic(r)
		}
	}()
	return run(c)
}

func NumInjectionOperators() int { return len(injOperators()) }

// InjectionOperatorNames lists the operators in index order.
func InjectionOperatorNames() []string {
	var out []string
	for _, o := range injOperators() {
		out = append(out, o.name)
	}
	return out
}

// ---------------------------------------------------------------------------------------------
// Deep copy

func CloneDoc(d *model.Doc) *model.Doc {
	out := &model.Doc{}
	for _, def := range d.Defs {
		out.Defs = append(out.Defs, cloneDef(def))
	}
	return out
}

func cloneDef(d *model.Def) *model.Def {
	c := *d
	c.Vars = nil
	for _, v := range d.Vars {
		cv := *v
		cv.Default = v.Default.Clone()
		c.Vars = append(c.Vars, &cv)
	}
	c.Dirs = cloneDirs(d.Dirs)
	c.Sel = cloneSels(d.Sel)
	return &c
}

func cloneArgs(as []*model.Arg) []*model.Arg {
	var out []*model.Arg
	for _, a := range as {
		out = append(out, &model.Arg{Name: a.Name, Val: a.Val.Clone()})
	}
	return out
}

func cloneDirs(ds []*model.Dir) []*model.Dir {
	var out []*model.Dir
	for _, d := range ds {
		out = append(out, &model.Dir{Name: d.Name, Args: cloneArgs(d.Args)})
	}
	return out
}

func cloneSels(ss []*model.Sel) []*model.Sel {
	var out []*model.Sel
	for _, s := range ss {
		c := *s
		c.Args = cloneArgs(s.Args)
		c.Dirs = cloneDirs(s.Dirs)
		c.Sel = cloneSels(s.Sel)
		out = append(out, &c)
	}
	return out
}

// ---------------------------------------------------------------------------------------------
// Index of the (cloned) document

type injSet struct {
	sel    *[]*model.Sel // the slice to extend
	parent string        // composite type whose fields are selected ("" = unknown)
	def    *model.Def
}

type injField struct {
	x      *model.Sel
	fd     *model.FieldDef // nil = unknown
	parent string
	def    *model.Def
}

type injDirSite struct {
	dirs *[]*model.Dir
	loc  string
	def  *model.Def
}

type injector struct {
	t      *T
	s      *model.Schema
	d      *model.Doc
	sets   []*injSet
	fields []*injField
	dirs   []*injDirSite
	keys   map[string]int // response key → number of field selections using it, document-wide
	n      int
}

func (c *injector) fresh(prefix string) string {
	c.n++
	return fmt.Sprintf("%s%d", prefix, c.n)
}

func (c *injector) composite(name string) string {
	if name != "" && c.s.IsComposite(name) {
		return name
	}
	return ""
}

func (c *injector) rootOf(kind string) string {
	switch kind {
	case "mutation":
		return c.composite(c.s.Mutation)
	case "subscription":
		return c.composite(c.s.Subscription)
	}
	return c.composite(c.s.Query)
}

func (c *injector) fieldDef(parent, name string) *model.FieldDef {
	if parent == "" {
		return nil
	}
	if name == "__typename" {
		return &model.FieldDef{Name: name, Type: model.T("String!")}
	}
	td := c.s.Type(parent)
	if td == nil || td.Kind == model.KUnion {
		return nil
	}
	return td.Field(name)
}

func (c *injector) index() {
	c.sets, c.fields, c.dirs, c.keys = nil, nil, nil, map[string]int{}
	for _, def := range c.d.Defs {
		if def.Kind == "fragment" {
			c.dirs = append(c.dirs, &injDirSite{&def.Dirs, "FRAGMENT_DEFINITION", def})
			c.walk(&def.Sel, c.composite(def.TypeCond), def)
		} else {
			loc := "QUERY"
			if def.Kind == "mutation" {
				loc = "MUTATION"
			} else if def.Kind == "subscription" {
				loc = "SUBSCRIPTION"
			}
			c.dirs = append(c.dirs, &injDirSite{&def.Dirs, loc, def})
			c.walk(&def.Sel, c.rootOf(def.Kind), def)
		}
	}
}

func (c *injector) walk(sel *[]*model.Sel, parent string, def *model.Def) {
	c.sets = append(c.sets, &injSet{sel, parent, def})
	for _, x := range *sel {
		switch x.K {
		case "field":
			fd := c.fieldDef(parent, x.Name)
			c.fields = append(c.fields, &injField{x, fd, parent, def})
			c.keys[x.Key()]++
			c.dirs = append(c.dirs, &injDirSite{&x.Dirs, "FIELD", def})
			if len(x.Sel) > 0 {
				sub := ""
				if fd != nil {
					sub = c.composite(fd.Type.Name)
				}
				c.walk(&x.Sel, sub, def)
			}
		case "inline":
			c.dirs = append(c.dirs, &injDirSite{&x.Dirs, "INLINE_FRAGMENT", def})
			p := parent
			if x.TypeCond != "" {
				p = c.composite(x.TypeCond)
			}
			c.walk(&x.Sel, p, def)
		case "spread":
			c.dirs = append(c.dirs, &injDirSite{&x.Dirs, "FRAGMENT_SPREAD", def})
		}
	}
}

// ---------------------------------------------------------------------------------------------
// Small helpers

func (c *injector) uni(n int, label string) int { return uniform(c.t, n, label) }

func (c *injector) knownSets() []*injSet {
	var out []*injSet
	for _, s := range c.sets {
		if s.parent != "" {
			out = append(out, s)
		}
	}
	return out
}

func (c *injector) pickSet(label string, ok func(*injSet) bool) *injSet {
	var cands []*injSet
	for _, s := range c.sets {
		if ok == nil || ok(s) {
			cands = append(cands, s)
		}
	}
	if len(cands) == 0 {
		return nil
	}
	return cands[c.uni(len(cands), label)]
}

// insert puts x at a drawn index of the set.
func (c *injector) insert(set *injSet, xs ...*model.Sel) {
	for _, x := range xs {
		l := *set.sel
		i := c.uni(len(l)+1, "insertAt")
		l = append(l, nil)
		copy(l[i+1:], l[i:])
		l[i] = x
		*set.sel = l
	}
}

// aliasIfTaken returns "" when no field selection of the document uses name as its response
// key, else a fresh alias.
func (c *injector) aliasIfTaken(name string) string {
	if c.keys[name] == 0 {
		return ""
	}
	return c.fresh("zf")
}

func typenameSel() *model.Sel { return &model.Sel{K: "field", Name: "__typename"} }

func (c *injector) overlap(a, b string) bool {
	for _, x := range c.s.PossibleTypes(a) {
		for _, y := range c.s.PossibleTypes(b) {
			if x == y {
				return true
			}
		}
	}
	return false
}

// reaching lists the operations whose execution can include selections of def.
func (c *injector) reaching(def *model.Def) []*model.Def {
	if def.Kind != "fragment" {
		return []*model.Def{def}
	}
	var out []*model.Def
	for _, op := range c.d.Operations() {
		seen := map[string]bool{}
		var visit func(sel []*model.Sel) bool
		visit = func(sel []*model.Sel) bool {
			for _, x := range sel {
				if x.K == "spread" {
					if x.Name == def.Name {
						return true
					}
					if !seen[x.Name] {
						seen[x.Name] = true
						if f := c.d.Fragment(x.Name); f != nil && visit(f.Sel) {
							return true
						}
					}
				} else if visit(x.Sel) {
					return true
				}
			}
			return false
		}
		if visit(op.Sel) {
			out = append(out, op)
		}
	}
	return out
}

// declare adds a variable definition to every operation that reaches def.
func (c *injector) declare(def *model.Def, name string, ty model.TypeRef, dflt *model.Val) {
	for _, op := range c.reaching(def) {
		op.Vars = append(op.Vars, &model.VarDef{Name: name, Type: ty, Default: dflt.Clone()})
		op.Shorthand = false
	}
}

// minLiteral is a smallest valid literal for an input type.
func (c *injector) minLiteral(ty model.TypeRef) *model.Val {
	ty = ty.Nullable()
	if ty.IsList() {
		v := model.List()
		v.L = []*model.Val{}
		return v
	}
	td := c.s.Type(ty.Name)
	switch td.Kind {
	case model.KEnum:
		return model.Enum(td.Values[0].Name)
	case model.KInput:
		v := model.Obj()
		for _, f := range td.InputFields {
			if f.Type.NonNull() {
				v.O = append(v.O, model.F(f.Name, c.minLiteral(f.Type)))
			}
		}
		return v
	}
	switch ty.Name {
	case "Int":
		return model.Int(0)
	case "Float":
		return model.Float(0.5)
	case "String":
		return model.Str("s")
	case "Boolean":
		return model.Bool(true)
	case "ID":
		return model.Str("id")
	}
	return model.Str("c")
}

// inType wraps a literal meant for the named type into as many list literals as ty has list
// levels.
func inType(ty model.TypeRef, v *model.Val) *model.Val {
	for _, w := range ty.Wrap {
		if w == '[' {
			v = model.List(v)
		}
	}
	return v
}

// wrongLiterals lists literals that are invalid for the named type (hence, through
// list-of-one coercion, for any wrapping of it).
func (c *injector) wrongLiterals(name string) []*model.Val {
	obj := model.Obj(model.F("zz", model.Int(1)))
	switch name {
	case "Int":
		return []*model.Val{model.Str("1"), model.Float(1.5), model.Bool(true), model.Enum("ZZ"), obj, model.Int(3000000000)}
	case "Float":
		return []*model.Val{model.Str("1.5"), model.Bool(false), model.Enum("ZZ"), obj}
	case "String":
		return []*model.Val{model.Int(1), model.Float(1.5), model.Bool(true), model.Enum("ZZ"), obj}
	case "Boolean":
		return []*model.Val{model.Int(1), model.Str("true"), model.Enum("TRUE"), obj}
	case "ID":
		return []*model.Val{model.Float(1.5), model.Bool(true), model.Enum("ZZ"), obj}
	}
	td := c.s.Type(name)
	switch td.Kind {
	case model.KEnum:
		return []*model.Val{model.Str(td.Values[0].Name), model.Int(0), model.Enum("ZZ_UNKNOWN"), model.Bool(true)}
	case model.KInput:
		return []*model.Val{model.Int(1), model.Str("x"), model.Enum("ZZ"), model.Bool(false)}
	}
	return []*model.Val{model.Int(1), model.Float(1.5), model.Bool(true), model.Enum("ZZ")} // custom scalar: strings only
}

func (c *injector) wrongLiteral(name string) *model.Val {
	l := c.wrongLiterals(name)
	return l[c.uni(len(l), "wrongLit")]
}

func (c *injector) minArgs(fd *model.FieldDef) []*model.Arg {
	var out []*model.Arg
	for _, a := range fd.Args {
		if a.Type.NonNull() {
			out = append(out, &model.Arg{Name: a.Name, Val: c.minLiteral(a.Type)})
		}
	}
	return out
}

// minField selects fd with the required arguments and, for composite types, `{ __typename }`.
func (c *injector) minField(fd *model.FieldDef, alias string) *model.Sel {
	x := &model.Sel{K: "field", Name: fd.Name, Alias: alias, Args: c.minArgs(fd)}
	if c.s.IsComposite(fd.Type.Name) {
		x.Sel = []*model.Sel{typenameSel()}
	}
	return x
}

// fieldsOf lists the selectable fields of a composite type, __typename last.
func (c *injector) fieldsOf(parent string) []*model.FieldDef {
	var out []*model.FieldDef
	if td := c.s.Type(parent); td != nil && td.Kind != model.KUnion {
		out = append(out, td.Fields...)
	}
	return append(out, &model.FieldDef{Name: "__typename", Type: model.T("String!")})
}

func (c *injector) typesOfKind(kinds ...string) []string {
	var out []string
	for _, td := range c.s.Types {
		for _, k := range kinds {
			if td.Kind == k {
				out = append(out, td.Name)
			}
		}
	}
	return out
}

// ensureFragment returns a drawn fragment definition, creating `fragment ZFn on P {__typename}`
// with a spread in a fitting set when the document has none.
func (c *injector) ensureFragment() *model.Def {
	if fs := c.d.Fragments(); len(fs) > 0 {
		return fs[c.uni(len(fs), "fragment")]
	}
	set := c.pickSet("fragHost", func(s *injSet) bool { return s.parent != "" })
	f := &model.Def{Kind: "fragment", Name: c.fresh("ZF"), TypeCond: set.parent, Sel: []*model.Sel{typenameSel()}}
	c.d.Defs = append(c.d.Defs, f)
	c.insert(set, &model.Sel{K: "spread", Name: f.Name})
	c.index()
	return f
}

// newDir attaches `@skip|@include(if: v)` to a drawn field / spread / inline fragment and
// returns the directive and the definition it sits in.
func (c *injector) newDir(v *model.Val) (*model.Dir, *model.Def) {
	var sites []*injDirSite
	for _, s := range c.dirs {
		if s.loc == "FIELD" || s.loc == "FRAGMENT_SPREAD" || s.loc == "INLINE_FRAGMENT" {
			has := false
			for _, d := range *s.dirs {
				if d.Name == "skip" || d.Name == "include" {
					has = true
				}
			}
			if !has {
				sites = append(sites, s)
			}
		}
	}
	if len(sites) == 0 {
		// every site is taken: add a fresh field to carry the directive
		set := c.pickSet("dirHost", func(s *injSet) bool { return s.parent != "" })
		x := typenameSel()
		x.Alias = c.fresh("zf")
		c.insert(set, x)
		c.index()
		return c.newDir(v)
	}
	site := sites[c.uni(len(sites), "dirSite")]
	name := "skip"
	if c.uni(2, "dirName") == 1 {
		name = "include"
	}
	d := &model.Dir{Name: name, Args: []*model.Arg{{Name: "if", Val: v}}}
	*site.dirs = append(*site.dirs, d)
	return d, site.def
}

// existingCondDirs lists the @skip/@include applications with a literal condition already in
// the document.
func (c *injector) existingCondDirs() []*model.Dir {
	var out []*model.Dir
	for _, s := range c.dirs {
		for _, d := range *s.dirs {
			if a := d.Arg("if"); (d.Name == "skip" || d.Name == "include") && a != nil && !a.Val.HasVar() {
				out = append(out, d)
			}
		}
	}
	return out
}

// someCondDir draws an existing @skip/@include or attaches a new one.
func (c *injector) someCondDir() *model.Dir {
	if l := c.existingCondDirs(); len(l) > 0 && c.uni(2, "reuseDir") == 0 {
		return l[c.uni(len(l), "dirIdx")]
	}
	d, _ := c.newDir(model.Bool(true))
	return d
}

// ---------------------------------------------------------------------------------------------
// Argument sites: an argument definition of a field selection, existing or to be added

type injArgSite struct {
	c   *injector
	ad  *model.ArgDef
	def *model.Def
	// existing selection
	x *model.Sel
	// or a selection still to be created
	set *injSet
	fd  *model.FieldDef
	// or the `if` argument of a directive to be attached
	dir bool
}

func (c *injector) argSites(ok func(*model.ArgDef) bool, withDirective bool) []*injArgSite {
	var out []*injArgSite
	for _, f := range c.fields {
		if f.fd == nil || c.keys[f.x.Key()] > 1 {
			continue // changing the arguments of one of several same-key fields would also make them conflict
		}
		for _, ad := range f.fd.Args {
			if cur := argOf(f.x.Args, ad.Name); cur != nil && cur.Val.HasVar() {
				continue // overwriting it could leave the variable unused
			}
			if ok(ad) {
				out = append(out, &injArgSite{c: c, ad: ad, def: f.def, x: f.x})
			}
		}
	}
	for _, s := range c.sets {
		if s.parent == "" {
			continue
		}
		for _, fd := range c.fieldsOf(s.parent) {
			for _, ad := range fd.Args {
				if ok(ad) {
					out = append(out, &injArgSite{c: c, ad: ad, def: s.def, set: s, fd: fd})
				}
			}
		}
	}
	if withDirective {
		ad := &model.ArgDef{Name: "if", Type: model.T("Boolean!")}
		if ok(ad) {
			out = append(out, &injArgSite{c: c, ad: ad, dir: true})
		}
	}
	return out
}

func argOf(args []*model.Arg, name string) *model.Arg {
	for _, a := range args {
		if a.Name == name {
			return a
		}
	}
	return nil
}

func (c *injector) pickArgSite(label string, ok func(*model.ArgDef) bool, withDirective bool) *injArgSite {
	l := c.argSites(ok, withDirective)
	if len(l) == 0 {
		return nil
	}
	return l[c.uni(len(l), label)]
}

// set makes the argument carry v (creating the field selection / directive when needed).
func (a *injArgSite) put(v *model.Val) {
	c := a.c
	switch {
	case a.dir:
		_, def := c.newDir(v)
		a.def = def
		return
	case a.x == nil:
		a.x = c.minField(a.fd, c.fresh("zf"))
		c.insert(a.set, a.x)
	}
	for _, arg := range a.x.Args {
		if arg.Name == a.ad.Name {
			arg.Val = v
			return
		}
	}
	a.x.Args = append(a.x.Args, &model.Arg{Name: a.ad.Name, Val: v})
}

// ensure materialises the site and makes sure the argument is given (an existing value stays).
func (a *injArgSite) ensure() {
	if a.x != nil {
		for _, arg := range a.x.Args {
			if arg.Name == a.ad.Name {
				return
			}
		}
	}
	a.put(a.c.minLiteral(a.ad.Type))
}

func (c *injector) namedKind(ad *model.ArgDef) string { return c.s.Kind(ad.Type.Name) }

func (c *injector) isInputObj(ad *model.ArgDef) bool {
	return c.namedKind(ad) == model.KInput && len(c.s.Type(ad.Type.Name).InputFields) > 0
}

// objWithField is the minimal literal of an input object type with field f forced to v.
func (c *injector) objWithField(td *model.TypeDef, f string, v *model.Val) *model.Val {
	o := c.minLiteral(model.TypeRef{Name: td.Name})
	for i := range o.O {
		if o.O[i].N == f {
			o.O[i].V = v
			return o
		}
	}
	i := c.uni(len(o.O)+1, "fieldAt")
	o.O = append(o.O, model.ObjFld{})
	copy(o.O[i+1:], o.O[i:])
	o.O[i] = model.F(f, v)
	return o
}

// ---------------------------------------------------------------------------------------------
// The catalogue

// how the two colliding fields reach one selection set: both written there; one moved into a
// new fragment; one moved into a chain of two fragments; both moved into chains of 1..2.
var injPlacements = []string{"direct", "fragmentOneSide", "fragmentChainOneSide", "fragmentsBothSides"}

type injOp struct {
	name  string
	rules []string
	run   func(c *injector) (extra []string, ok bool)
}

func injOperators() []injOp {
	ops := []injOp{
		// fields
		{"field/unknown", []string{"FieldsOnCorrectType"}, (*injector).opUnknownField},
		{"field/onWrongType", []string{"FieldsOnCorrectType"}, (*injector).opFieldOnWrongType},
		{"field/directlyOnUnion", []string{"FieldsOnCorrectType"}, (*injector).opFieldOnUnion},
		{"field/selectionOnLeaf", []string{"ScalarLeafs"}, (*injector).opSelectionOnLeaf},
		{"field/noSelectionOnComposite", []string{"ScalarLeafs"}, (*injector).opNoSelectionOnComposite},
		// arguments
		{"arg/unknownOnField", []string{"KnownArgumentNames"}, (*injector).opUnknownArgOnField},
		{"arg/unknownOnDirective", []string{"KnownArgumentNames"}, (*injector).opUnknownArgOnDirective},
		{"arg/duplicateOnField", []string{"UniqueArgumentNames"}, (*injector).opDuplicateFieldArg},
		{"arg/duplicateOnDirective", []string{"UniqueArgumentNames"}, (*injector).opDuplicateDirectiveArg},
		{"arg/missingRequiredOnField", []string{"ProvidedNonNullArguments"}, (*injector).opMissingFieldArg},
		{"arg/missingRequiredOnDirective", []string{"ProvidedNonNullArguments"}, (*injector).opMissingDirectiveArg},
		// directives
		{"directive/unknown", []string{"KnownDirectives"}, (*injector).opUnknownDirective},
		{"directive/skipOnOperation", []string{"KnownDirectives"}, (*injector).opSkipOnOperation},
		{"directive/includeOnFragmentDefinition", []string{"KnownDirectives"}, (*injector).opIncludeOnFragmentDef},
		{"directive/deprecatedOnField", []string{"KnownDirectives"}, (*injector).opDeprecatedOnField},
		{"directive/customInWrongLocation", []string{"KnownDirectives"}, (*injector).opCustomDirectiveWrongLocation},
		// names of fragments and types
		{"fragment/unknownSpread", []string{"KnownFragmentNames"}, (*injector).opUnknownSpread},
		{"type/unknownInVariable", []string{"KnownTypeNames"}, (*injector).opUnknownTypeInVariable},
		{"type/unknownInFragmentCondition", []string{"KnownTypeNames"}, (*injector).opUnknownTypeInFragmentCond},
		{"type/unknownInInlineCondition", []string{"KnownTypeNames"}, (*injector).opUnknownTypeInInlineCond},
		{"fragment/definitionOnNonComposite", []string{"FragmentsOnCompositeTypes"}, (*injector).opFragmentOnNonComposite},
		{"fragment/inlineOnNonComposite", []string{"FragmentsOnCompositeTypes"}, (*injector).opInlineOnNonComposite},
		{"fragment/unused", []string{"NoUnusedFragments"}, (*injector).opUnusedFragment},
		{"fragment/duplicateName", []string{"UniqueFragmentNames"}, (*injector).opDuplicateFragment},
		{"fragment/cycle1", []string{"NoFragmentCycles"}, (*injector).opCycle1},
		{"fragment/cycle2", []string{"NoFragmentCycles"}, func(c *injector) ([]string, bool) { return c.opCycleN(2) }},
		{"fragment/cycle3", []string{"NoFragmentCycles"}, func(c *injector) ([]string, bool) { return c.opCycleN(3) }},
		{"spread/objectInOtherObject", []string{"PossibleFragmentSpreads"}, (*injector).opImpossibleObjectSpread},
		{"spread/abstractConditionNoOverlap", []string{"PossibleFragmentSpreads"}, (*injector).opImpossibleAbstractCond},
		{"spread/abstractParentNoOverlap", []string{"PossibleFragmentSpreads"}, (*injector).opImpossibleAbstractParent},
		// values
		{"value/wrongKindTopLevel", []string{"ArgumentsOfCorrectType"}, (*injector).opWrongLiteralTop},
		{"value/wrongKindInList", []string{"ArgumentsOfCorrectType"}, (*injector).opWrongLiteralInList},
		{"value/wrongKindInObject", []string{"ArgumentsOfCorrectType"}, (*injector).opWrongLiteralInObject},
		{"value/missingRequiredInputField", []string{"ArgumentsOfCorrectType"}, (*injector).opMissingInputField},
		{"value/unknownInputField", []string{"ArgumentsOfCorrectType"}, (*injector).opUnknownInputField},
		{"value/intOutOfRange", []string{"ArgumentsOfCorrectType"}, (*injector).opIntOutOfRange},
		{"value/unknownEnumValue", []string{"ArgumentsOfCorrectType"}, (*injector).opUnknownEnumValue},
		{"value/wrongKindDirectiveArgument", []string{"ArgumentsOfCorrectType"}, (*injector).opWrongDirectiveLiteral},
		{"value/duplicateInputField", []string{"UniqueInputFieldNames"}, (*injector).opDuplicateInputField},
		{"value/duplicateInputFieldInDefault", []string{"UniqueInputFieldNames"}, (*injector).opDuplicateInputFieldInDefault},
		// variables
		{"variable/undefinedByRemovingDefinition", []string{"NoUndefinedVariables"}, (*injector).opRemoveVarDef},
		{"variable/undefinedNewUse", []string{"NoUndefinedVariables"}, (*injector).opUndefinedVarUse},
		{"variable/unused", []string{"NoUnusedVariables"}, (*injector).opUnusedVariable},
		{"variable/duplicateDefinition", []string{"UniqueVariableNames"}, (*injector).opDuplicateVariable},
		{"variable/stricterPositionTopLevel", []string{"VariablesInAllowedPosition"}, (*injector).opVarStricterTop},
		{"variable/stricterPositionInList", []string{"VariablesInAllowedPosition"}, (*injector).opVarStricterInList},
		{"variable/stricterPositionInObject", []string{"VariablesInAllowedPosition"}, (*injector).opVarStricterInObject},
		{"variable/otherNamedType", []string{"VariablesInAllowedPosition"}, (*injector).opVarOtherNamedType},
		{"variable/nonInputType", []string{"VariablesAreInputTypes"}, (*injector).opVarNonInputType},
		{"variable/defaultOnNonNull", []string{"DefaultValuesOfCorrectType"}, (*injector).opDefaultOnNonNull},
		{"variable/wrongTypedDefault", []string{"DefaultValuesOfCorrectType"}, (*injector).opWrongTypedDefault},
		{"variable/legalNullableWithDefaultAtNonNull", nil, (*injector).opLegalDefaultAtNonNull},
		// operations
		{"operation/duplicateName", []string{"UniqueOperationNames"}, (*injector).opDuplicateOperationName},
		{"operation/anonymousPlusAnother", []string{"LoneAnonymousOperation"}, (*injector).opAnonymousPlusAnother},
	}
	// overlapping fields: kind of difference × how the two fields reach the same set
	for _, kind := range []string{"differentFields", "differentArguments", "differentLeafTypes", "differentListShape", "typenameAgainstOtherShape"} {
		for _, place := range injPlacements {
			kind, place := kind, place
			ops = append(ops, injOp{"overlap/" + kind + "/" + place, []string{"OverlappingFieldsCanBeMerged"},
				func(c *injector) ([]string, bool) { return c.opOverlap(kind, place) }})
		}
	}
	for _, place := range injPlacements {
		place := place
		ops = append(ops, injOp{"overlap/legalDivergentUnderObjectConditions/" + place, nil,
			func(c *injector) ([]string, bool) { return c.opOverlap("legalDivergent", place) }})
	}
	return ops
}

// ---------------------------------------------------------------------------------------------
// Fields

func (c *injector) opUnknownField() ([]string, bool) {
	set := c.pickSet("set", func(s *injSet) bool { return s.parent != "" })
	c.insert(set, &model.Sel{K: "field", Name: "zzNoSuchField"})
	return nil, true
}

func (c *injector) opFieldOnWrongType() ([]string, bool) {
	type cand struct {
		set *injSet
		fd  *model.FieldDef
	}
	var cands []cand
	for _, s := range c.sets {
		k := c.s.Kind(s.parent)
		if k != model.KObject && k != model.KIface {
			continue
		}
		seen := map[string]bool{}
		for _, td := range c.s.Types {
			if td.Name == s.parent || (td.Kind != model.KObject && td.Kind != model.KIface) {
				continue
			}
			for _, fd := range td.Fields {
				if c.s.Type(s.parent).Field(fd.Name) == nil && !seen[fd.Name] {
					seen[fd.Name] = true
					cands = append(cands, cand{s, fd})
				}
			}
		}
	}
	if len(cands) == 0 {
		return nil, false
	}
	k := cands[c.uni(len(cands), "cand")]
	c.insert(k.set, c.minField(k.fd, c.aliasIfTaken(k.fd.Name)))
	return nil, true
}

func (c *injector) opFieldOnUnion() ([]string, bool) {
	set := c.pickSet("set", func(s *injSet) bool { return c.s.Kind(s.parent) == model.KUnion })
	if set == nil {
		return nil, false
	}
	name := "a"
	for _, m := range c.s.Type(set.parent).Members {
		if td := c.s.Type(m); td != nil && len(td.Fields) > 0 {
			fd := td.Fields[c.uni(len(td.Fields), "memberField")]
			c.insert(set, c.minField(fd, c.aliasIfTaken(fd.Name)))
			return nil, true
		}
	}
	c.insert(set, &model.Sel{K: "field", Name: name})
	return nil, true
}

func (c *injector) opSelectionOnLeaf() ([]string, bool) {
	var cands []*injField
	for _, f := range c.fields {
		if f.fd != nil && c.s.IsLeaf(f.fd.Type.Name) {
			cands = append(cands, f)
		}
	}
	if len(cands) == 0 {
		return nil, false
	}
	f := cands[c.uni(len(cands), "field")]
	f.x.Sel = []*model.Sel{typenameSel()}
	return nil, true
}

func (c *injector) opNoSelectionOnComposite() ([]string, bool) {
	type cand struct {
		f   *injField
		set *injSet
		fd  *model.FieldDef
	}
	var cands []cand
	for _, f := range c.fields {
		// only sub-selections whose removal cannot orphan a fragment or a variable
		if f.fd != nil && c.s.IsComposite(f.fd.Type.Name) && selfContained(f.x.Sel) {
			cands = append(cands, cand{f: f})
		}
	}
	for _, s := range c.sets {
		if s.parent == "" {
			continue
		}
		for _, fd := range c.fieldsOf(s.parent) {
			if c.s.IsComposite(fd.Type.Name) {
				cands = append(cands, cand{set: s, fd: fd})
			}
		}
	}
	if len(cands) == 0 {
		return nil, false
	}
	k := cands[c.uni(len(cands), "cand")]
	if k.f != nil {
		k.f.x.Sel = nil
		return nil, true
	}
	x := c.minField(k.fd, c.fresh("zf"))
	x.Sel = nil
	c.insert(k.set, x)
	return nil, true
}

// selfContained: no fragment spread and no variable anywhere in the selections.
func selfContained(sel []*model.Sel) bool {
	for _, x := range sel {
		if x.K == "spread" || !selfContained(x.Sel) {
			return false
		}
		for _, a := range x.Args {
			if a.Val.HasVar() {
				return false
			}
		}
		for _, d := range x.Dirs {
			for _, a := range d.Args {
				if a.Val.HasVar() {
					return false
				}
			}
		}
	}
	return true
}

// ---------------------------------------------------------------------------------------------
// Arguments

// knownFields lists the field selections with a known definition, those with a document-wide
// unique response key when there are any (so that touching their arguments has no side effect).
func (c *injector) knownFields() []*injField {
	var out, unique []*injField
	for _, f := range c.fields {
		if f.fd != nil {
			out = append(out, f)
			if c.keys[f.x.Key()] == 1 {
				unique = append(unique, f)
			}
		}
	}
	if len(unique) > 0 {
		return unique
	}
	return out
}

func (c *injector) opUnknownArgOnField() ([]string, bool) {
	l := c.knownFields()
	f := l[c.uni(len(l), "field")]
	i := c.uni(len(f.x.Args)+1, "argAt")
	f.x.Args = append(f.x.Args, nil)
	copy(f.x.Args[i+1:], f.x.Args[i:])
	f.x.Args[i] = &model.Arg{Name: "zzArg", Val: model.Int(1)}
	return nil, true
}

func (c *injector) opUnknownArgOnDirective() ([]string, bool) {
	d := c.someCondDir()
	a := &model.Arg{Name: "zzArg", Val: model.Int(1)}
	if c.uni(2, "argFirst") == 0 {
		d.Args = append([]*model.Arg{a}, d.Args...)
	} else {
		d.Args = append(d.Args, a)
	}
	return nil, true
}

func (c *injector) opDuplicateFieldArg() ([]string, bool) {
	site := c.pickArgSite("site", func(*model.ArgDef) bool { return true }, false)
	if site == nil {
		return nil, false
	}
	site.ensure()
	for _, a := range site.x.Args {
		if a.Name == site.ad.Name {
			site.x.Args = append(site.x.Args, &model.Arg{Name: a.Name, Val: a.Val.Clone()})
			break
		}
	}
	if n := len(site.x.Args); n > 2 && c.uni(2, "adjacent") == 0 {
		site.x.Args[1], site.x.Args[n-1] = site.x.Args[n-1], site.x.Args[1]
	}
	return nil, true
}

func (c *injector) opDuplicateDirectiveArg() ([]string, bool) {
	d := c.someCondDir()
	a := d.Arg("if")
	d.Args = append(d.Args, &model.Arg{Name: "if", Val: a.Val.Clone()})
	return nil, true
}

func (c *injector) opMissingFieldArg() ([]string, bool) {
	site := c.pickArgSite("site", func(ad *model.ArgDef) bool { return ad.Type.NonNull() }, false)
	if site == nil {
		return nil, false
	}
	site.ensure() // materialise, then drop the argument
	var keep []*model.Arg
	for _, a := range site.x.Args {
		if a.Name != site.ad.Name {
			keep = append(keep, a)
		}
	}
	site.x.Args = keep
	return nil, true
}

func (c *injector) opMissingDirectiveArg() ([]string, bool) {
	d := c.someCondDir()
	d.Args = nil
	return nil, true
}

// ---------------------------------------------------------------------------------------------
// Directives

func (c *injector) opUnknownDirective() ([]string, bool) {
	site := c.dirs[c.uni(len(c.dirs), "site")]
	*site.dirs = append(*site.dirs, &model.Dir{Name: "zzUnknownDirective"})
	if site.dirs == &site.def.Dirs {
		site.def.Shorthand = false
	}
	return nil, true
}

func (c *injector) condDir() *model.Dir {
	name := "skip"
	if c.uni(2, "dirName") == 1 {
		name = "include"
	}
	return &model.Dir{Name: name, Args: []*model.Arg{{Name: "if", Val: model.Bool(c.uni(2, "dirVal") == 1)}}}
}

func (c *injector) opSkipOnOperation() ([]string, bool) {
	ops := c.d.Operations()
	op := ops[c.uni(len(ops), "op")]
	op.Dirs = append(op.Dirs, c.condDir())
	op.Shorthand = false
	return nil, true
}

func (c *injector) opIncludeOnFragmentDef() ([]string, bool) {
	f := c.ensureFragment()
	f.Dirs = append(f.Dirs, c.condDir())
	return nil, true
}

func (c *injector) opDeprecatedOnField() ([]string, bool) {
	var sites []*injDirSite
	for _, s := range c.dirs {
		if s.loc == "FIELD" || s.loc == "FRAGMENT_SPREAD" || s.loc == "INLINE_FRAGMENT" {
			sites = append(sites, s)
		}
	}
	site := sites[c.uni(len(sites), "site")]
	d := &model.Dir{Name: "deprecated"}
	if c.uni(2, "withReason") == 1 {
		d.Args = []*model.Arg{{Name: "reason", Val: model.Str("old")}}
	}
	*site.dirs = append(*site.dirs, d)
	return nil, true
}

func (c *injector) opCustomDirectiveWrongLocation() ([]string, bool) {
	type cand struct {
		dd   *model.DirectiveDef
		site *injDirSite
	}
	var cands []cand
	for _, dd := range c.s.Directives {
		for _, site := range c.dirs {
			allowed := false
			for _, l := range dd.Locations {
				if l == site.loc {
					allowed = true
				}
			}
			if !allowed {
				cands = append(cands, cand{dd, site})
			}
		}
	}
	if len(cands) == 0 {
		return nil, false
	}
	k := cands[c.uni(len(cands), "cand")]
	d := &model.Dir{Name: k.dd.Name}
	for _, a := range k.dd.Args {
		if a.Type.NonNull() {
			d.Args = append(d.Args, &model.Arg{Name: a.Name, Val: c.minLiteral(a.Type)})
		}
	}
	*k.site.dirs = append(*k.site.dirs, d)
	if k.site.dirs == &k.site.def.Dirs {
		k.site.def.Shorthand = false
	}
	return nil, true
}

// ---------------------------------------------------------------------------------------------
// Fragment and type names

func (c *injector) opUnknownSpread() ([]string, bool) {
	set := c.pickSet("set", nil)
	c.insert(set, &model.Sel{K: "spread", Name: "ZZNoSuchFragment"})
	return nil, true
}

func (c *injector) opUnknownTypeInVariable() ([]string, bool) {
	var vars []*model.VarDef
	for _, op := range c.d.Operations() {
		vars = append(vars, op.Vars...)
	}
	if len(vars) > 0 && c.uni(2, "existing") == 0 {
		vars[c.uni(len(vars), "var")].Type.Name = "ZZUnknownType"
		return nil, true
	}
	name := c.fresh("zv")
	_, def := c.newDir(model.Var(name))
	wraps := []string{"", "!", "[", "[!", "![!"}
	c.declare(def, name, model.TypeRef{Name: "ZZUnknownType", Wrap: wraps[c.uni(len(wraps), "wrap")]}, nil)
	return nil, true
}

func (c *injector) opUnknownTypeInFragmentCond() ([]string, bool) {
	f := c.ensureFragment()
	f.TypeCond = "ZZUnknownType"
	return nil, true
}

func (c *injector) opUnknownTypeInInlineCond() ([]string, bool) {
	set := c.pickSet("set", nil)
	c.insert(set, &model.Sel{K: "inline", TypeCond: "ZZUnknownType", Sel: []*model.Sel{typenameSel()}})
	return nil, true
}

func (c *injector) nonCompositeTypes() []string {
	out := []string{"Int", "Float", "String", "Boolean", "ID"}
	return append(out, c.typesOfKind(model.KScalar, model.KEnum, model.KInput)...)
}

func (c *injector) opFragmentOnNonComposite() ([]string, bool) {
	ts := c.nonCompositeTypes()
	f := &model.Def{Kind: "fragment", Name: c.fresh("ZF"), TypeCond: ts[c.uni(len(ts), "type")], Sel: []*model.Sel{typenameSel()}}
	c.d.Defs = append(c.d.Defs, f)
	c.insert(c.pickSet("set", nil), &model.Sel{K: "spread", Name: f.Name})
	return nil, true
}

func (c *injector) opInlineOnNonComposite() ([]string, bool) {
	ts := c.nonCompositeTypes()
	c.insert(c.pickSet("set", nil), &model.Sel{K: "inline", TypeCond: ts[c.uni(len(ts), "type")], Sel: []*model.Sel{typenameSel()}})
	return nil, true
}

func (c *injector) opUnusedFragment() ([]string, bool) {
	ts := c.typesOfKind(model.KObject, model.KIface, model.KUnion)
	f := &model.Def{Kind: "fragment", Name: c.fresh("ZUnused"), TypeCond: ts[c.uni(len(ts), "type")], Sel: []*model.Sel{typenameSel()}}
	i := c.uni(len(c.d.Defs)+1, "defAt")
	c.d.Defs = append(c.d.Defs, nil)
	copy(c.d.Defs[i+1:], c.d.Defs[i:])
	c.d.Defs[i] = f
	return nil, true
}

func (c *injector) opDuplicateFragment() ([]string, bool) {
	f := c.ensureFragment()
	cp := cloneDef(f)
	i := c.uni(len(c.d.Defs)+1, "defAt")
	c.d.Defs = append(c.d.Defs, nil)
	copy(c.d.Defs[i+1:], c.d.Defs[i:])
	c.d.Defs[i] = cp
	return nil, true
}

func (c *injector) opCycle1() ([]string, bool) {
	f := c.ensureFragment()
	cond := c.composite(f.TypeCond)
	set := c.pickSet("set", func(s *injSet) bool {
		return s.def == f && s.parent != "" && cond != "" && c.overlap(s.parent, cond)
	})
	if set == nil {
		return nil, false
	}
	c.insert(set, &model.Sel{K: "spread", Name: f.Name})
	return nil, true
}

// opCycleN adds n new fragments on the parent type of a drawn set, spread in a ring; each
// forward spread sits, by chance, inside an inline fragment.
func (c *injector) opCycleN(n int) ([]string, bool) {
	set := c.pickSet("set", func(s *injSet) bool { return s.parent != "" })
	names := make([]string, n)
	for i := range names {
		names[i] = c.fresh("ZC")
	}
	for i, name := range names {
		next := &model.Sel{K: "spread", Name: names[(i+1)%n]}
		switch c.uni(3, "wrapSpread") {
		case 1:
			next = &model.Sel{K: "inline", Sel: []*model.Sel{next}}
		case 2:
			next = &model.Sel{K: "inline", TypeCond: set.parent, Sel: []*model.Sel{next}}
		}
		body := []*model.Sel{typenameSel(), next}
		if c.uni(2, "spreadFirst") == 1 {
			body[0], body[1] = body[1], body[0]
		}
		c.d.Defs = append(c.d.Defs, &model.Def{Kind: "fragment", Name: name, TypeCond: set.parent, Sel: body})
	}
	c.insert(set, &model.Sel{K: "spread", Name: names[0]})
	return nil, true
}

// impossible adds a spread of a fragment on cond (named or inline, by chance) to set.
func (c *injector) impossible(set *injSet, cond string) {
	if c.uni(2, "named") == 0 {
		c.insert(set, &model.Sel{K: "inline", TypeCond: cond, Sel: []*model.Sel{typenameSel()}})
		return
	}
	f := &model.Def{Kind: "fragment", Name: c.fresh("ZF"), TypeCond: cond, Sel: []*model.Sel{typenameSel()}}
	c.d.Defs = append(c.d.Defs, f)
	c.insert(set, &model.Sel{K: "spread", Name: f.Name})
}

func (c *injector) impossibleCands(okParent, okCond func(kind string) bool) (sets []*injSet, conds []string) {
	for _, s := range c.sets {
		if s.parent == "" || !okParent(c.s.Kind(s.parent)) {
			continue
		}
		for _, td := range c.s.Types {
			if c.s.IsComposite(td.Name) && okCond(td.Kind) && !c.overlap(s.parent, td.Name) {
				sets = append(sets, s)
				conds = append(conds, td.Name)
			}
		}
	}
	return
}

func (c *injector) opImpossibleObjectSpread() ([]string, bool) {
	isObj := func(k string) bool { return k == model.KObject }
	sets, conds := c.impossibleCands(isObj, isObj)
	if len(sets) == 0 {
		return nil, false
	}
	i := c.uni(len(sets), "cand")
	c.impossible(sets[i], conds[i])
	return nil, true
}

func (c *injector) opImpossibleAbstractCond() ([]string, bool) {
	sets, conds := c.impossibleCands(func(string) bool { return true }, func(k string) bool { return k != model.KObject })
	if len(sets) == 0 {
		return nil, false
	}
	i := c.uni(len(sets), "cand")
	c.impossible(sets[i], conds[i])
	return nil, true
}

func (c *injector) opImpossibleAbstractParent() ([]string, bool) {
	sets, conds := c.impossibleCands(func(k string) bool { return k != model.KObject }, func(string) bool { return true })
	if len(sets) == 0 {
		return nil, false
	}
	i := c.uni(len(sets), "cand")
	c.impossible(sets[i], conds[i])
	return nil, true
}

// ---------------------------------------------------------------------------------------------
// Values

func (c *injector) opWrongLiteralTop() ([]string, bool) {
	site := c.pickArgSite("site", func(*model.ArgDef) bool { return true }, false)
	if site == nil {
		return nil, false
	}
	site.put(c.wrongLiteral(site.ad.Type.Name))
	return nil, true
}

func (c *injector) opWrongLiteralInList() ([]string, bool) {
	site := c.pickArgSite("site", func(ad *model.ArgDef) bool { return ad.Type.Nullable().IsList() }, false)
	if site == nil {
		return nil, false
	}
	inner := site.ad.Type.Nullable().Inner()
	elems := []*model.Val{inType(inner, c.wrongLiteral(inner.Name))}
	if !inner.Nullable().IsList() && c.uni(2, "withValidElem") == 1 {
		good := c.minLiteral(inner)
		if c.uni(2, "validFirst") == 1 {
			elems = append([]*model.Val{good}, elems...)
		} else {
			elems = append(elems, good)
		}
	}
	site.put(model.List(elems...))
	return nil, true
}

func (c *injector) opWrongLiteralInObject() ([]string, bool) {
	site := c.pickArgSite("site", c.isInputObj, false)
	if site == nil {
		return nil, false
	}
	td := c.s.Type(site.ad.Type.Name)
	f := td.InputFields[c.uni(len(td.InputFields), "field")]
	site.put(inType(site.ad.Type, c.objWithField(td, f.Name, c.wrongLiteral(f.Type.Name))))
	return nil, true
}

func (c *injector) opMissingInputField() ([]string, bool) {
	hasReq := func(ad *model.ArgDef) bool {
		if c.namedKind(ad) != model.KInput {
			return false
		}
		for _, f := range c.s.Type(ad.Type.Name).InputFields {
			if f.Type.NonNull() {
				return true
			}
		}
		return false
	}
	site := c.pickArgSite("site", hasReq, false)
	if site == nil {
		return nil, false
	}
	o := c.minLiteral(model.TypeRef{Name: site.ad.Type.Name})
	i := c.uni(len(o.O), "drop")
	o.O = append(o.O[:i:i], o.O[i+1:]...)
	site.put(inType(site.ad.Type, o))
	return nil, true
}

func (c *injector) opUnknownInputField() ([]string, bool) {
	site := c.pickArgSite("site", func(ad *model.ArgDef) bool { return c.namedKind(ad) == model.KInput }, false)
	if site == nil {
		return nil, false
	}
	td := c.s.Type(site.ad.Type.Name)
	site.put(inType(site.ad.Type, c.objWithField(td, "zzNoSuchField", model.Int(1))))
	return nil, true
}

func (c *injector) opIntOutOfRange() ([]string, bool) {
	site := c.pickArgSite("site", func(ad *model.ArgDef) bool { return ad.Type.Name == "Int" }, false)
	if site == nil {
		return nil, false
	}
	vals := []int64{3000000000, -3000000000, 2147483648, -2147483649}
	site.put(inType(site.ad.Type, model.Int(vals[c.uni(len(vals), "big")])))
	return nil, true
}

func (c *injector) opUnknownEnumValue() ([]string, bool) {
	site := c.pickArgSite("site", func(ad *model.ArgDef) bool { return c.namedKind(ad) == model.KEnum }, false)
	if site == nil {
		return nil, false
	}
	site.put(inType(site.ad.Type, model.Enum("ZZ_UNKNOWN")))
	return nil, true
}

func (c *injector) opWrongDirectiveLiteral() ([]string, bool) {
	d := c.someCondDir()
	d.Arg("if").Val = c.wrongLiteral("Boolean")
	return nil, true
}

// dupObject builds a literal of an input object type in which one field occurs twice; by
// chance the object is nested inside a field of an enclosing literal of input type outer.
func (c *injector) dupObject(td *model.TypeDef) *model.Val {
	f := td.InputFields[c.uni(len(td.InputFields), "field")]
	o := c.objWithField(td, f.Name, c.minLiteral(f.Type))
	o.O = append(o.O, model.F(f.Name, c.minLiteral(f.Type)))
	if n := len(o.O); n > 2 && c.uni(2, "adjacent") == 0 {
		o.O[1], o.O[n-1] = o.O[n-1], o.O[1]
	}
	return o
}

func (c *injector) dupLiteral(ty model.TypeRef) *model.Val {
	td := c.s.Type(ty.Name)
	// nest one level down when the type has an input-object field (possibly itself)
	var nest []*model.ArgDef
	for _, f := range td.InputFields {
		if c.isInputObj(f) {
			nest = append(nest, f)
		}
	}
	if len(nest) > 0 && c.uni(2, "nested") == 1 {
		f := nest[c.uni(len(nest), "nestField")]
		inner := inType(f.Type, c.dupObject(c.s.Type(f.Type.Name)))
		return inType(ty, c.objWithField(td, f.Name, inner))
	}
	return inType(ty, c.dupObject(td))
}

func (c *injector) opDuplicateInputField() ([]string, bool) {
	site := c.pickArgSite("site", c.isInputObj, false)
	if site == nil {
		return nil, false
	}
	site.put(c.dupLiteral(site.ad.Type))
	return nil, true
}

func (c *injector) opDuplicateInputFieldInDefault() ([]string, bool) {
	site := c.pickArgSite("site", c.isInputObj, false)
	if site == nil {
		return nil, false
	}
	name := c.fresh("zv")
	site.put(model.Var(name))
	vt := site.ad.Type.Nullable() // with the default it counts as non-null again
	c.declare(site.def, name, vt, c.dupLiteral(vt))
	return nil, true
}

// ---------------------------------------------------------------------------------------------
// Variables

func (c *injector) opsWithVars() []*model.Def {
	var out []*model.Def
	for _, op := range c.d.Operations() {
		if len(op.Vars) > 0 {
			out = append(out, op)
		}
	}
	return out
}

func (c *injector) opRemoveVarDef() ([]string, bool) {
	ops := c.opsWithVars()
	if len(ops) == 0 {
		return nil, false
	}
	op := ops[c.uni(len(ops), "op")]
	i := c.uni(len(op.Vars), "var")
	op.Vars = append(op.Vars[:i:i], op.Vars[i+1:]...)
	return nil, true
}

func (c *injector) opUndefinedVarUse() ([]string, bool) {
	site := c.pickArgSite("site", func(*model.ArgDef) bool { return true }, true)
	site.put(model.Var("zzUndefined"))
	return nil, true
}

func (c *injector) opUnusedVariable() ([]string, bool) {
	ops := c.d.Operations()
	op := ops[c.uni(len(ops), "op")]
	types := []string{"Int", "String", "[Int!]", "Boolean!", "ID"}
	v := &model.VarDef{Name: c.fresh("zvUnused"), Type: model.T(types[c.uni(len(types), "type")])}
	i := c.uni(len(op.Vars)+1, "varAt")
	op.Vars = append(op.Vars, nil)
	copy(op.Vars[i+1:], op.Vars[i:])
	op.Vars[i] = v
	op.Shorthand = false
	return nil, true
}

func (c *injector) opDuplicateVariable() ([]string, bool) {
	if ops := c.opsWithVars(); len(ops) > 0 && c.uni(2, "existing") == 0 {
		op := ops[c.uni(len(ops), "op")]
		v := op.Vars[c.uni(len(op.Vars), "var")]
		cp := *v
		cp.Default = v.Default.Clone()
		op.Vars = append(op.Vars, &cp)
		return nil, true
	}
	name := c.fresh("zv")
	_, def := c.newDir(model.Var(name))
	c.declare(def, name, model.T("Boolean!"), nil)
	c.declare(def, name, model.T("Boolean!"), nil)
	return nil, true
}

// weaker returns a variable type that must NOT be accepted at a position of type ty although
// it has the same named type: one non-null dropped, one list level dropped, or one added.
func (c *injector) weaker(ty model.TypeRef) model.TypeRef {
	var opts []model.TypeRef
	for i, w := range ty.Wrap {
		if w == '!' {
			opts = append(opts, model.TypeRef{Name: ty.Name, Wrap: ty.Wrap[:i] + ty.Wrap[i+1:]})
		}
		if w == '[' {
			rest := ty.Wrap[i+1:]
			if len(rest) > 0 && rest[0] == '!' && i > 0 && ty.Wrap[i-1] == '!' {
				rest = rest[1:] // avoid `!!`
			}
			opts = append(opts, model.TypeRef{Name: ty.Name, Wrap: ty.Wrap[:i] + rest})
		}
	}
	opts = append(opts, model.TypeRef{Name: ty.Name, Wrap: "[" + ty.Wrap})
	return opts[c.uni(len(opts), "weaker")]
}

func (c *injector) opVarStricterTop() ([]string, bool) {
	site := c.pickArgSite("site", func(*model.ArgDef) bool { return true }, true)
	name := c.fresh("zv")
	site.put(model.Var(name))
	c.declare(site.def, name, c.weaker(site.ad.Type), nil)
	return nil, true
}

func (c *injector) opVarStricterInList() ([]string, bool) {
	site := c.pickArgSite("site", func(ad *model.ArgDef) bool { return ad.Type.Nullable().IsList() }, false)
	if site == nil {
		return nil, false
	}
	inner := site.ad.Type.Nullable().Inner()
	name := c.fresh("zv")
	elems := []*model.Val{model.Var(name)}
	if c.uni(2, "withLiteralElem") == 1 {
		elems = append(elems, c.minLiteral(inner))
	}
	site.put(model.List(elems...))
	c.declare(site.def, name, c.weaker(inner), nil)
	return nil, true
}

func (c *injector) opVarStricterInObject() ([]string, bool) {
	site := c.pickArgSite("site", c.isInputObj, false)
	if site == nil {
		return nil, false
	}
	td := c.s.Type(site.ad.Type.Name)
	f := td.InputFields[c.uni(len(td.InputFields), "field")]
	name := c.fresh("zv")
	site.put(inType(site.ad.Type, c.objWithField(td, f.Name, model.Var(name))))
	c.declare(site.def, name, c.weaker(f.Type), nil)
	return nil, true
}

func (c *injector) opVarOtherNamedType() ([]string, bool) {
	site := c.pickArgSite("site", func(*model.ArgDef) bool { return true }, true)
	names := append([]string{"Int", "Float", "String", "Boolean", "ID"}, c.typesOfKind(model.KScalar, model.KEnum, model.KInput)...)
	var others []string
	for _, n := range names {
		if n != site.ad.Type.Name {
			others = append(others, n)
		}
	}
	name := c.fresh("zv")
	site.put(model.Var(name))
	c.declare(site.def, name, model.TypeRef{Name: others[c.uni(len(others), "other")], Wrap: site.ad.Type.Wrap}, nil)
	return nil, true
}

func (c *injector) opVarNonInputType() ([]string, bool) {
	ts := c.typesOfKind(model.KObject, model.KIface, model.KUnion)
	wraps := []string{"", "!", "[", "[!"}
	ops := c.d.Operations()
	op := ops[c.uni(len(ops), "op")]
	op.Vars = append(op.Vars, &model.VarDef{Name: c.fresh("zv"), Type: model.TypeRef{Name: ts[c.uni(len(ts), "type")], Wrap: wraps[c.uni(len(wraps), "wrap")]}})
	op.Shorthand = false
	return []string{"NoUnusedVariables"}, true
}

func (c *injector) opDefaultOnNonNull() ([]string, bool) {
	var vars []*model.VarDef
	for _, op := range c.d.Operations() {
		for _, v := range op.Vars {
			if v.Type.NonNull() && c.s.IsInputType(v.Type.Name) {
				vars = append(vars, v)
			}
		}
	}
	if len(vars) > 0 && c.uni(2, "existing") == 0 {
		v := vars[c.uni(len(vars), "var")]
		v.Default = c.minLiteral(v.Type)
		return nil, true
	}
	name := c.fresh("zv")
	_, def := c.newDir(model.Var(name))
	c.declare(def, name, model.T("Boolean!"), model.Bool(true))
	return nil, true
}

func (c *injector) opWrongTypedDefault() ([]string, bool) {
	var vars []*model.VarDef
	for _, op := range c.d.Operations() {
		for _, v := range op.Vars {
			if !v.Type.NonNull() && c.s.IsInputType(v.Type.Name) {
				vars = append(vars, v)
			}
		}
	}
	if len(vars) > 0 && c.uni(2, "existing") == 0 {
		v := vars[c.uni(len(vars), "var")]
		bad := c.wrongLiteral(v.Type.Name)
		if v.Type.IsList() && c.uni(2, "inList") == 1 {
			bad = inType(v.Type, bad)
		}
		v.Default = bad
		return nil, true
	}
	name := c.fresh("zv")
	_, def := c.newDir(model.Var(name))
	c.declare(def, name, model.T("Boolean"), c.wrongLiteral("Boolean"))
	return nil, true
}

// opLegalDefaultAtNonNull: `$zv: Boolean = true` used where Boolean! is expected – legal in
// this edition.
func (c *injector) opLegalDefaultAtNonNull() ([]string, bool) {
	name := c.fresh("zv")
	_, def := c.newDir(model.Var(name))
	c.declare(def, name, model.T("Boolean"), model.Bool(c.uni(2, "dflt") == 1))
	return nil, true
}

// ---------------------------------------------------------------------------------------------
// Operations

func (c *injector) opDuplicateOperationName() ([]string, bool) {
	ops := c.d.Operations()
	op := ops[c.uni(len(ops), "op")]
	if op.Name == "" {
		op.Name = "ZOp"
		op.Shorthand = false
	}
	dup := &model.Def{Kind: op.Kind, Name: op.Name, Sel: []*model.Sel{typenameSel()}}
	if c.uni(2, "otherKind") == 1 {
		dup.Kind = "query"
	}
	if c.uni(2, "cloneBody") == 1 {
		dup = cloneDef(op)
	}
	i := c.uni(len(c.d.Defs)+1, "defAt")
	c.d.Defs = append(c.d.Defs, nil)
	copy(c.d.Defs[i+1:], c.d.Defs[i:])
	c.d.Defs[i] = dup
	return nil, true
}

func (c *injector) opAnonymousPlusAnother() ([]string, bool) {
	ops := c.d.Operations()
	anon := false
	for _, op := range ops {
		if op.Name == "" {
			anon = true
		}
	}
	extra := &model.Def{Kind: "query", Sel: []*model.Sel{typenameSel()}}
	if anon {
		if c.uni(2, "named") == 1 {
			extra.Name = "ZOther"
		} else {
			extra.Shorthand = c.uni(2, "shorthand") == 1
		}
	} else {
		extra.Shorthand = c.uni(2, "shorthand") == 1
	}
	i := c.uni(len(c.d.Defs)+1, "defAt")
	c.d.Defs = append(c.d.Defs, nil)
	copy(c.d.Defs[i+1:], c.d.Defs[i:])
	c.d.Defs[i] = extra
	return nil, true
}

// ---------------------------------------------------------------------------------------------
// Overlapping fields

// injPair is a pair of selections that, put into one selection set whose parent type is R,
// collide on a response key.
type injPair struct {
	x, y *model.Sel
	vars []*model.VarDef // variables the pair uses
}

func (c *injector) underCond(cond string, x *model.Sel) *model.Sel {
	return &model.Sel{K: "inline", TypeCond: cond, Sel: []*model.Sel{x}}
}

// objectPairs lists ordered pairs of distinct object types both possible for R.
func (c *injector) objectPairs(r string) [][2]string {
	ps := c.s.PossibleTypes(r)
	var out [][2]string
	for _, a := range ps {
		for _, b := range ps {
			if a != b {
				out = append(out, [2]string{a, b})
			}
		}
	}
	return out
}

// conflictPairs enumerates the ways to build a pair of the given kind inside a set on R: the
// builders that show exactly the intended difference, and fallbacks that differ in more.
func (c *injector) conflictPairs(kind, r string) (out, fallback []func() *injPair) {
	key := "zk"
	leaf := func(fd *model.FieldDef) bool { return c.s.IsLeaf(fd.Type.Name) }
	switch kind {
	case "differentFields":
		fs := c.fieldsOf(r)
		for i := range fs {
			for j := range fs {
				if i < j {
					f, g := fs[i], fs[j]
					out = append(out, func() *injPair { return &injPair{x: c.minField(f, key), y: c.minField(g, key)} })
				}
			}
		}
	case "differentArguments":
		for _, fd := range c.fieldsOf(r) {
			fd := fd
			for _, ad := range fd.Args {
				ad := ad
				with := func(v *model.Val) *model.Sel {
					x := c.minField(fd, key)
					for _, a := range x.Args {
						if a.Name == ad.Name {
							a.Val = v
							return x
						}
					}
					if v != nil {
						x.Args = append(x.Args, &model.Arg{Name: ad.Name, Val: v})
					}
					return x
				}
				// literal against variable of exactly the argument's type
				out = append(out, func() *injPair {
					name := c.fresh("zv")
					return &injPair{x: with(c.minLiteral(ad.Type)), y: with(model.Var(name)), vars: []*model.VarDef{{Name: name, Type: ad.Type}}}
				})
				if !ad.Type.NonNull() { // given against omitted
					out = append(out, func() *injPair { return &injPair{x: with(c.minLiteral(ad.Type)), y: with(nil)} })
				}
				switch {
				case ad.Type.Nullable().IsList() && !ad.Type.Nullable().Inner().Nullable().IsList(): // [] against [x]
					out = append(out, func() *injPair {
						return &injPair{x: with(c.minLiteral(ad.Type)), y: with(model.List(c.minLiteral(ad.Type.Nullable().Inner())))}
					})
				case ad.Type.Name == "Int" && !ad.Type.Nullable().IsList():
					out = append(out, func() *injPair { return &injPair{x: with(model.Int(1)), y: with(model.Int(2))} })
				case ad.Type.Name == "String" && !ad.Type.Nullable().IsList():
					out = append(out, func() *injPair { return &injPair{x: with(model.Str("a")), y: with(model.Str("b"))} })
				case ad.Type.Name == "Boolean" && !ad.Type.Nullable().IsList():
					out = append(out, func() *injPair { return &injPair{x: with(model.Bool(true)), y: with(model.Bool(false))} })
				}
			}
		}
	case "differentLeafTypes", "differentListShape", "typenameAgainstOtherShape", "legalDivergent":
		// the meta field is kept out of the two plain shape kinds and has a kind of its own
		meta := func(f *model.FieldDef) bool { return f.Name == "__typename" }
		differ := func(f, g *model.FieldDef) bool {
			switch kind {
			case "differentLeafTypes":
				return !meta(f) && !meta(g) && leaf(f) && leaf(g) && f.Type.Name != g.Type.Name
			case "differentListShape":
				return !meta(f) && !meta(g) && f.Type.Wrap != g.Type.Wrap
			case "typenameAgainstOtherShape":
				return meta(f) != meta(g) && (f.Type.Wrap != g.Type.Wrap || f.Type.Name != g.Type.Name)
			}
			// legal: identical leaf return type, but another field or other arguments
			return leaf(f) && f.Type == g.Type && (f.Name != g.Name || len(f.Args) > 0 || len(g.Args) > 0)
		}
		// exact: under two different object type conditions, so only the shapes matter
		for _, p := range c.objectPairs(r) {
			p := p
			for _, f := range c.fieldsOf(p[0]) {
				for _, g := range c.fieldsOf(p[1]) {
					f, g := f, g
					if !differ(f, g) {
						continue
					}
					if kind == "legalDivergent" && f.Name == g.Name {
						// same field name on both sides: make the arguments differ
						out = append(out, func() *injPair {
							x, y := c.minField(f, key), c.minField(g, key)
							if !c.forceArgDifference(f, x, g, y) {
								return nil
							}
							return &injPair{x: c.underCond(p[0], x), y: c.underCond(p[1], y)}
						})
						continue
					}
					out = append(out, func() *injPair {
						return &injPair{x: c.underCond(p[0], c.minField(f, key)), y: c.underCond(p[1], c.minField(g, key))}
					})
				}
			}
		}
		if kind == "legalDivergent" {
			break
		}
		// fallback: two fields of R itself (they then also differ in name)
		fs := c.fieldsOf(r)
		for i := range fs {
			for j := range fs {
				if i != j && differ(fs[i], fs[j]) {
					f, g := fs[i], fs[j]
					fallback = append(fallback, func() *injPair { return &injPair{x: c.minField(f, key), y: c.minField(g, key)} })
				}
			}
		}
	}
	return out, fallback
}

// forceArgDifference makes the argument lists of x and y differ (x selects f, y selects g,
// f.Name == g.Name); false when neither definition has an optional argument to play with.
func (c *injector) forceArgDifference(f *model.FieldDef, x *model.Sel, g *model.FieldDef, y *model.Sel) bool {
	for _, ad := range f.Args {
		if !ad.Type.NonNull() {
			x.Args = append(x.Args, &model.Arg{Name: ad.Name, Val: c.minLiteral(ad.Type)})
			if g.Arg(ad.Name) == nil || !g.Arg(ad.Name).Type.NonNull() {
				return true
			}
		}
	}
	for _, ad := range g.Args {
		if !ad.Type.NonNull() && f.Arg(ad.Name) == nil {
			y.Args = append(y.Args, &model.Arg{Name: ad.Name, Val: c.minLiteral(ad.Type)})
			return true
		}
	}
	return false
}

type injHost struct {
	set  *injSet
	path []*model.FieldDef // composite fields leading from the set's parent down to R
	r    string
}

// hosts enumerates (set, path) with paths of composite fields of length 0..2.
func (c *injector) hosts() []injHost {
	var out []injHost
	for _, s := range c.sets {
		if s.parent == "" {
			continue
		}
		out = append(out, injHost{set: s, r: s.parent})
		for _, h1 := range c.fieldsOf(s.parent) {
			if !c.s.IsComposite(h1.Type.Name) {
				continue
			}
			out = append(out, injHost{set: s, path: []*model.FieldDef{h1}, r: h1.Type.Name})
			for _, h2 := range c.fieldsOf(h1.Type.Name) {
				if c.s.IsComposite(h2.Type.Name) {
					out = append(out, injHost{set: s, path: []*model.FieldDef{h1, h2}, r: h2.Type.Name})
				}
			}
		}
	}
	return out
}

// viaFragments moves x into a chain of n new fragments on type r and returns the spread.
func (c *injector) viaFragments(x *model.Sel, r string, n int) *model.Sel {
	for i := 0; i < n; i++ {
		f := &model.Def{Kind: "fragment", Name: c.fresh("ZO"), TypeCond: r, Sel: []*model.Sel{x}}
		if c.uni(2, "padFragment") == 1 {
			pad := typenameSel()
			pad.Alias = c.fresh("zf")
			f.Sel = append(f.Sel, pad)
		}
		c.d.Defs = append(c.d.Defs, f)
		x = &model.Sel{K: "spread", Name: f.Name}
	}
	return x
}

func (c *injector) opOverlap(kind, place string) ([]string, bool) {
	// group the hosts by nesting depth, keep those on which the kind is feasible; fallback
	// builders are only used when no host offers an exact one
	hosts := c.hosts()
	exact, fallback := map[string][]func() *injPair{}, map[string][]func() *injPair{}
	anyExact := false
	for _, h := range hosts {
		if _, ok := exact[h.r]; !ok {
			exact[h.r], fallback[h.r] = c.conflictPairs(kind, h.r)
			anyExact = anyExact || len(exact[h.r]) > 0
		}
	}
	builders := exact
	if !anyExact {
		builders = fallback
	}
	byDepth := map[int][]injHost{}
	for _, h := range hosts {
		if len(builders[h.r]) > 0 {
			byDepth[len(h.path)] = append(byDepth[len(h.path)], h)
		}
	}
	var depths []int
	for d := range byDepth {
		depths = append(depths, d)
	}
	if len(depths) == 0 {
		return nil, false
	}
	sort.Ints(depths)
	hs := byDepth[depths[c.uni(len(depths), "depth")]]
	h := hs[c.uni(len(hs), "host")]
	bs := builders[h.r]
	var pair *injPair
	order := c.uni(len(bs), "pair")
	for i := 0; i < len(bs) && pair == nil; i++ {
		pair = bs[(order+i)%len(bs)]()
	}
	if pair == nil {
		return nil, false
	}
	x, y := pair.x, pair.y
	if c.uni(2, "swap") == 1 {
		x, y = y, x
	}
	switch place {
	case "fragmentOneSide":
		y = c.viaFragments(y, h.r, 1)
	case "fragmentChainOneSide":
		y = c.viaFragments(y, h.r, 2)
	case "fragmentsBothSides":
		x = c.viaFragments(x, h.r, 1+c.uni(2, "chainX"))
		y = c.viaFragments(y, h.r, 1+c.uni(2, "chainY"))
	}
	// nest both sides under the same chain of composite fields (same key, same arguments)
	for i := len(h.path) - 1; i >= 0; i-- {
		alias := c.fresh("zh")
		wx, wy := c.minField(h.path[i], alias), c.minField(h.path[i], alias)
		wx.Sel, wy.Sel = []*model.Sel{x}, []*model.Sel{y}
		x, y = wx, wy
	}
	c.insert(h.set, x, y)
	for _, v := range pair.vars {
		c.declare(h.set.def, v.Name, v.Type, nil)
	}
	return nil, true
}
