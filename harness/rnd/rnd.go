// Package rnd holds the drawing helpers shared by all generators. Every choice goes through
// rapid so that shrinking and replay work.
package rnd

import (
	"strings"

	"pgregory.net/rapid"
)

type T = rapid.T

// Intn keeps rapid's bias towards small values (sizes, counts).
func Intn(t *T, lo, hi int, label string) int { return rapid.IntRange(lo, hi).Draw(t, label) }

var bits8 = rapid.SliceOfN(rapid.Bool(), 8, 8)

// Uniform draws 0..n-1 (n <= 256) without rapid's small-value bias; all-false bits (what
// shrinking converges to) give 0.
func Uniform(t *T, n int, label string) int {
	v := 0
	for _, b := range bits8.Draw(t, label) {
		v <<= 1
		if b {
			v |= 1
		}
	}
	return v * n / 256
}

// Chance is true with probability pct%; shrinking drives it to false (feature off).
func Chance(t *T, pct int, label string) bool { return Uniform(t, 100, label) >= 100-pct }

func Pick(t *T, xs []string, label string) string { return xs[Uniform(t, len(xs), label)] }

// RuneClasses: the code points strings are composed from, by the way printers, lexers and
// escapers may treat them differently.
var RuneClasses = [][]rune{
	{'a', 'Z', '0', ' ', '_', 'n', 'u'},
	{'"', '\\', '/', '#', ',', ']', '}', '{', '$', '!', '\'', '%', '%', '@', '&', '|', ':', '=', '(', ')'},
	{'\t', '\n', '\r', '\b', '\f'},
	{0x00, 0x01, 0x07, 0x0B, 0x1B, 0x1F, 0x7F},
	{0x80, 0x85, 0x9F, 0xA0, 0xAD},
	{0x2028, 0x2029, 0x200B, 0x200E, 0x202E, 0xFEFF, 0x061C},
	{0xD7FF, 0xE000, 0xF8FF, 0xFFFD, 0xFFFE, 0xFFFF, 0xFDD0},
	{0x10000, 0x1F600, 0x1D11E, 0x2F800},
	{0xE0001, 0xE0020, 0xF0000, 0xFFFFD, 0x100000, 0x10FFFF, 0x3FFFD, 0x1FFFE},
	{0x0301, 0x3099, 0xFE0F},
	{0xFC, 0xDF, 0x4E16, 0x05D0},
}

// ComposeString draws a string of 1-6 code points, each from a drawn class.
func ComposeString(t *T) string {
	var sb strings.Builder
	for i, n := 0, Intn(t, 1, 6, "strLen"); i < n; i++ {
		cl := RuneClasses[Uniform(t, len(RuneClasses), "runeClass")]
		sb.WriteRune(cl[Uniform(t, len(cl), "rune")])
	}
	return sb.String()
}
