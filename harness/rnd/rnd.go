// Package rnd holds the drawing helpers shared by all generators. Every choice goes through
// rapid so that shrinking and replay work.
package rnd

import "pgregory.net/rapid"

type T = rapid.T

// Intn keeps rapid's bias towards small values (sizes, counts).
func Intn(t *T, lo, hi int, label string) int { return rapid.IntRange(lo, hi).Draw(t, label) }

var bits8 = rapid.SliceOfN(rapid.Bool(), 8, 8)

// Uniform draws 0..n-1 (n <= 256) without rapid's small-value bias; all-false bits (what
// shrinking converges to) give 0.
func Uniform(t *T, n int, label string) int {
	v := 0
	for _, b := range bits8.Draw(t, label) {
		v <<= 1
		if b {
			v |= 1
		}
	}
	return v * n / 256
}

// Chance is true with probability pct%; shrinking drives it to false (feature off).
func Chance(t *T, pct int, label string) bool { return Uniform(t, 100, label) >= 100-pct }

func Pick(t *T, xs []string, label string) string { return xs[Uniform(t, len(xs), label)] }
