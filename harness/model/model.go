// Package model holds plain-data models (JSON-serialisable, library-free) of schemas,
// values and executable documents. Generators produce them, reference implementations
// interpret them, build/ turns them into real library values, and replay files store them.
package model

import (
	"fmt"
	"sort"
	"strings"
)

// ---------------------------------------------------------------------------------------------
// Type references

// TypeRef is a named type under a chain of wrappers. Wrap lists the wrappers outermost first:
// '!' = NonNull, '[' = List. `[T!]!` is {Name:"T", Wrap:"![!"}.
type TypeRef struct {
	Name string `json:"n"`
	Wrap string `json:"w,omitempty"`
}

func T(s string) TypeRef { // parse "[T!]!" notation
	s = strings.TrimSpace(s)
	if strings.HasSuffix(s, "!") {
		in := T(s[:len(s)-1])
		return TypeRef{in.Name, "!" + in.Wrap}
	}
	if strings.HasPrefix(s, "[") && strings.HasSuffix(s, "]") {
		in := T(s[1 : len(s)-1])
		return TypeRef{in.Name, "[" + in.Wrap}
	}
	return TypeRef{Name: s}
}

func (t TypeRef) String() string {
	if t.Wrap == "" {
		return t.Name
	}
	in := TypeRef{t.Name, t.Wrap[1:]}
	if t.Wrap[0] == '!' {
		return in.String() + "!"
	}
	return "[" + in.String() + "]"
}

func (t TypeRef) NonNull() bool { return strings.HasPrefix(t.Wrap, "!") }
func (t TypeRef) IsList() bool  { return strings.HasPrefix(t.Wrap, "[") }
func (t TypeRef) Named() bool   { return t.Wrap == "" }

// Inner strips the outermost wrapper.
func (t TypeRef) Inner() TypeRef { return TypeRef{t.Name, t.Wrap[1:]} }

// Nullable strips an outer NonNull if present.
func (t TypeRef) Nullable() TypeRef {
	if t.NonNull() {
		return t.Inner()
	}
	return t
}

// ---------------------------------------------------------------------------------------------
// Values (literals in documents, JSON-like runtime values, configured defaults)

// Val kinds: "null" "int" "float" "str" "bool" "enum" "list" "obj" "var".
// "enum" and "var" only occur in literals (S = name). Floats are kept as text in Lit when the
// exact literal spelling matters (documents); F is the numeric value.
type Val struct {
	K string   `json:"k"`
	I int64    `json:"i,omitempty"`
	F float64  `json:"f,omitempty"`
	S string   `json:"s,omitempty"`
	B bool     `json:"b,omitempty"`
	L []*Val   `json:"l,omitempty"`
	O []ObjFld `json:"o,omitempty"`
}

type ObjFld struct {
	N string `json:"n"`
	V *Val   `json:"v"`
}

func Null() *Val                { return &Val{K: "null"} }
func Int(i int64) *Val          { return &Val{K: "int", I: i} }
func Float(f float64) *Val      { return &Val{K: "float", F: f} }
func Str(s string) *Val         { return &Val{K: "str", S: s} }
func Bool(b bool) *Val          { return &Val{K: "bool", B: b} }
func Enum(s string) *Val        { return &Val{K: "enum", S: s} }
func Var(s string) *Val         { return &Val{K: "var", S: s} }
func List(l ...*Val) *Val       { return &Val{K: "list", L: l} }
func Obj(o ...ObjFld) *Val      { return &Val{K: "obj", O: o} }
func F(n string, v *Val) ObjFld { return ObjFld{n, v} }

func (v *Val) Field(name string) *Val {
	for _, f := range v.O {
		if f.N == name {
			return f.V
		}
	}
	return nil
}

// ToGo converts a runtime value to the Go value a caller would put into a variables map
// (ints as int, objects as map[string]interface{}, lists as []interface{}).
func (v *Val) ToGo() interface{} {
	if v == nil {
		return nil
	}
	switch v.K {
	case "null":
		return nil
	case "int":
		return int(v.I)
	case "float":
		return v.F
	case "str", "enum":
		return v.S
	case "bool":
		return v.B
	case "list":
		out := make([]interface{}, len(v.L))
		for i, e := range v.L {
			out[i] = e.ToGo()
		}
		return out
	case "obj":
		out := map[string]interface{}{}
		for _, f := range v.O {
			out[f.N] = f.V.ToGo()
		}
		return out
	}
	panic("model: ToGo of " + v.K)
}

// ToGoTyped is ToGo with homogeneous lists handed over as slices of a static Go type ([]string, []int, []float64,
// []bool, []map[string]interface{}) the way a caller that builds variables in Go code, not from JSON, supplies them.
func (v *Val) ToGoTyped() interface{} {
	if v == nil {
		return nil
	}
	switch v.K {
	case "list":
		kind := ""
		for i, e := range v.L {
			k := "null"
			if e != nil {
				k = e.K
			}
			if k == "enum" {
				k = "str"
			}
			if i > 0 && k != kind {
				kind = "mixed"
				break
			}
			kind = k
		}
		switch kind {
		case "str":
			out := make([]string, len(v.L))
			for i, e := range v.L {
				out[i] = e.S
			}
			return out
		case "int":
			out := make([]int, len(v.L))
			for i, e := range v.L {
				out[i] = int(e.I)
			}
			return out
		case "float":
			out := make([]float64, len(v.L))
			for i, e := range v.L {
				out[i] = e.F
			}
			return out
		case "bool":
			out := make([]bool, len(v.L))
			for i, e := range v.L {
				out[i] = e.B
			}
			return out
		case "obj":
			out := make([]map[string]interface{}, len(v.L))
			for i, e := range v.L {
				out[i] = e.ToGoTyped().(map[string]interface{})
			}
			return out
		}
		out := make([]interface{}, len(v.L))
		for i, e := range v.L {
			out[i] = e.ToGoTyped()
		}
		return out
	case "obj":
		out := map[string]interface{}{}
		for _, f := range v.O {
			out[f.N] = f.V.ToGoTyped()
		}
		return out
	case "int":
		// integers as the sized Go types a caller may hold them in (which one depends on the value only)
		switch ((v.I % 4) + 4) % 4 {
		case 1:
			return v.I // int64
		case 2:
			if v.I >= -1<<31 && v.I < 1<<31 {
				return int32(v.I)
			}
		}
	}
	return v.ToGo()
}

// HasVar reports whether a literal contains a variable reference.
func (v *Val) HasVar() bool {
	if v == nil {
		return false
	}
	if v.K == "var" {
		return true
	}
	for _, e := range v.L {
		if e.HasVar() {
			return true
		}
	}
	for _, f := range v.O {
		if f.V.HasVar() {
			return true
		}
	}
	return false
}

func (v *Val) Clone() *Val {
	if v == nil {
		return nil
	}
	c := *v
	c.L = nil
	c.O = nil
	for _, e := range v.L {
		c.L = append(c.L, e.Clone())
	}
	for _, f := range v.O {
		c.O = append(c.O, ObjFld{f.N, f.V.Clone()})
	}
	return &c
}

// Canon renders any Go value built from nil/bool/ints/floats/string/[]interface{}/
// map[string]interface{} canonically (map keys sorted). Used to make resolver arguments
// visible in responses and to compare argument maps.
func Canon(x interface{}) string {
	var sb strings.Builder
	canon(&sb, x)
	return sb.String()
}

func canon(sb *strings.Builder, x interface{}) {
	switch v := x.(type) {
	case nil:
		sb.WriteString("null")
	case map[string]interface{}:
		keys := make([]string, 0, len(v))
		for k := range v {
			keys = append(keys, k)
		}
		sort.Strings(keys)
		sb.WriteString("{")
		for i, k := range keys {
			if i > 0 {
				sb.WriteString(",")
			}
			fmt.Fprintf(sb, "%s:", k)
			canon(sb, v[k])
		}
		sb.WriteString("}")
	case []interface{}:
		sb.WriteString("[")
		for i, e := range v {
			if i > 0 {
				sb.WriteString(",")
			}
			canon(sb, e)
		}
		sb.WriteString("]")
	case string:
		fmt.Fprintf(sb, "%q", v)
	case bool:
		fmt.Fprintf(sb, "%v", v)
	case int:
		fmt.Fprintf(sb, "i%d", v)
	case int64:
		fmt.Fprintf(sb, "i%d", v)
	case int32:
		fmt.Fprintf(sb, "i%d", v)
	case float64:
		fmt.Fprintf(sb, "f%g", v)
	case float32:
		fmt.Fprintf(sb, "f%g", v)
	default:
		fmt.Fprintf(sb, "<%T:%v>", x, x)
	}
}

// ---------------------------------------------------------------------------------------------
// Schema model

const (
	KScalar = "SCALAR"
	KObject = "OBJECT"
	KIface  = "INTERFACE"
	KUnion  = "UNION"
	KEnum   = "ENUM"
	KInput  = "INPUT_OBJECT"
)

type Schema struct {
	Types        []*TypeDef      `json:"types"`
	Query        string          `json:"query"`
	Mutation     string          `json:"mutation,omitempty"`
	Subscription string          `json:"subscription,omitempty"`
	Directives   []*DirectiveDef `json:"directives,omitempty"`
	// ExtraTypes are names passed through SchemaConfig.Types (not necessarily reachable).
	ExtraTypes []string `json:"extra,omitempty"`
}

type TypeDef struct {
	Kind        string      `json:"kind"`
	Name        string      `json:"name"`
	Desc        string      `json:"desc,omitempty"`
	Fields      []*FieldDef `json:"fields,omitempty"`      // OBJECT, INTERFACE
	Interfaces  []string    `json:"ifaces,omitempty"`      // OBJECT
	Members     []string    `json:"members,omitempty"`     // UNION
	Values      []*EnumVal  `json:"values,omitempty"`      // ENUM
	InputFields []*ArgDef   `json:"inputFields,omitempty"` // INPUT_OBJECT
	// HasIsTypeOf: object types get an IsTypeOf callback. HasResolveType: abstract types get a
	// ResolveType callback (otherwise runtime types are found through IsTypeOf).
	HasIsTypeOf    bool `json:"isTypeOf,omitempty"`
	HasResolveType bool `json:"resolveType,omitempty"`
	// Thunked: fields / interfaces / members are supplied through a thunk.
	Thunked bool `json:"thunked,omitempty"`
}

type FieldDef struct {
	Name        string    `json:"name"`
	Desc        string    `json:"desc,omitempty"`
	Type        TypeRef   `json:"type"`
	Args        []*ArgDef `json:"args,omitempty"`
	Deprecation string    `json:"deprecation,omitempty"`
}

// ArgDef is an argument or an input field.
type ArgDef struct {
	Name    string  `json:"name"`
	Desc    string  `json:"desc,omitempty"`
	Type    TypeRef `json:"type"`
	Default *Val    `json:"default,omitempty"` // nil = none. A runtime value (enum defaults: K "enum", S name).
}

type EnumVal struct {
	Name        string `json:"name"`
	Desc        string `json:"desc,omitempty"`
	Deprecation string `json:"deprecation,omitempty"`
	// Internal is the Go value the enum value stands for: nil → the name itself.
	Internal *Val `json:"internal,omitempty"`
}

type DirectiveDef struct {
	Name      string    `json:"name"`
	Desc      string    `json:"desc,omitempty"`
	Locations []string  `json:"locations"`
	Args      []*ArgDef `json:"args,omitempty"`
}

var BuiltinScalars = map[string]bool{"Int": true, "Float": true, "String": true, "Boolean": true, "ID": true}

func (s *Schema) Type(name string) *TypeDef {
	for _, t := range s.Types {
		if t.Name == name {
			return t
		}
	}
	if BuiltinScalars[name] {
		return &TypeDef{Kind: KScalar, Name: name}
	}
	return nil
}

func (s *Schema) Kind(name string) string {
	if t := s.Type(name); t != nil {
		return t.Kind
	}
	return ""
}

func (t *TypeDef) Field(name string) *FieldDef {
	for _, f := range t.Fields {
		if f.Name == name {
			return f
		}
	}
	return nil
}

func (t *TypeDef) InputField(name string) *ArgDef {
	for _, f := range t.InputFields {
		if f.Name == name {
			return f
		}
	}
	return nil
}

func (t *TypeDef) Value(name string) *EnumVal {
	for _, v := range t.Values {
		if v.Name == name {
			return v
		}
	}
	return nil
}

func (f *FieldDef) Arg(name string) *ArgDef {
	for _, a := range f.Args {
		if a.Name == name {
			return a
		}
	}
	return nil
}

func (d *DirectiveDef) Arg(name string) *ArgDef {
	for _, a := range d.Args {
		if a.Name == name {
			return a
		}
	}
	return nil
}

// InternalGo is the Go value an enum value maps to.
func (e *EnumVal) InternalGo() interface{} {
	if e.Internal == nil {
		return e.Name
	}
	return e.Internal.ToGo()
}

// PossibleTypes lists the object types of an abstract type, in schema order (each once).
func (s *Schema) PossibleTypes(name string) []string {
	t := s.Type(name)
	if t == nil {
		return nil
	}
	switch t.Kind {
	case KUnion:
		return append([]string(nil), t.Members...)
	case KIface:
		var out []string
		for _, o := range s.Types {
			if o.Kind != KObject {
				continue
			}
			for _, i := range o.Interfaces {
				if i == name {
					out = append(out, o.Name)
					break
				}
			}
		}
		return out
	case KObject:
		return []string{name}
	}
	return nil
}

func (s *Schema) IsPossible(abstract, obj string) bool {
	for _, p := range s.PossibleTypes(abstract) {
		if p == obj {
			return true
		}
	}
	return false
}

// IsComposite / IsLeaf / IsInput classify named types.
func (s *Schema) IsComposite(name string) bool {
	k := s.Kind(name)
	return k == KObject || k == KIface || k == KUnion
}
func (s *Schema) IsLeaf(name string) bool {
	k := s.Kind(name)
	return k == KScalar || k == KEnum
}
func (s *Schema) IsInputType(name string) bool {
	k := s.Kind(name)
	return k == KScalar || k == KEnum || k == KInput
}
func (s *Schema) IsOutputType(name string) bool {
	k := s.Kind(name)
	return k != "" && k != KInput
}

// Directive returns the definition of a directive incl. the built-in ones.
func (s *Schema) Directive(name string) *DirectiveDef {
	for _, d := range s.Directives {
		if d.Name == name {
			return d
		}
	}
	switch name {
	case "skip", "include":
		return &DirectiveDef{Name: name, Locations: []string{"FIELD", "FRAGMENT_SPREAD", "INLINE_FRAGMENT"},
			Args: []*ArgDef{{Name: "if", Type: T("Boolean!")}}}
	case "deprecated":
		return &DirectiveDef{Name: name, Locations: []string{"FIELD_DEFINITION", "ENUM_VALUE"},
			Args: []*ArgDef{{Name: "reason", Type: T("String"), Default: Str("No longer supported")}}}
	}
	return nil
}

// ---------------------------------------------------------------------------------------------
// Executable document model

type Doc struct {
	Defs []*Def `json:"defs"`
}

// Def is an operation (Kind "query"/"mutation"/"subscription") or a fragment (Kind "fragment").
type Def struct {
	Kind      string    `json:"kind"`
	Shorthand bool      `json:"shorthand,omitempty"` // `{ ... }` form of an anonymous query
	Name      string    `json:"name,omitempty"`
	TypeCond  string    `json:"on,omitempty"` // fragments
	Vars      []*VarDef `json:"vars,omitempty"`
	Dirs      []*Dir    `json:"dirs,omitempty"`
	Sel       []*Sel    `json:"sel"`
}

type VarDef struct {
	Name    string  `json:"name"`
	Type    TypeRef `json:"type"`
	Default *Val    `json:"default,omitempty"`
}

type Dir struct {
	Name string `json:"name"`
	Args []*Arg `json:"args,omitempty"`
}

type Arg struct {
	Name string `json:"name"`
	Val  *Val   `json:"val"`
}

// Sel kinds: "field", "spread", "inline".
type Sel struct {
	K        string `json:"k"`
	Alias    string `json:"alias,omitempty"`
	Name     string `json:"name,omitempty"` // field name / fragment name
	TypeCond string `json:"on,omitempty"`   // inline fragment ("" = none)
	Args     []*Arg `json:"args,omitempty"`
	Dirs     []*Dir `json:"dirs,omitempty"`
	Sel      []*Sel `json:"sel,omitempty"`
	// HasSel distinguishes `f` from `f {}` (the latter is not grammatical; used only by
	// generators of invalid documents that print an empty selection through a trick).
}

func (s *Sel) Key() string {
	if s.Alias != "" {
		return s.Alias
	}
	return s.Name
}

func (d *Doc) Fragment(name string) *Def {
	for _, f := range d.Defs {
		if f.Kind == "fragment" && f.Name == name {
			return f
		}
	}
	return nil
}

func (d *Doc) Operations() []*Def {
	var out []*Def
	for _, f := range d.Defs {
		if f.Kind != "fragment" {
			out = append(out, f)
		}
	}
	return out
}

func (d *Doc) Fragments() []*Def {
	var out []*Def
	for _, f := range d.Defs {
		if f.Kind == "fragment" {
			out = append(out, f)
		}
	}
	return out
}

// Operation selects the operation the execution algorithm would pick ("" = the only one).
func (d *Doc) Operation(name string) *Def {
	ops := d.Operations()
	if name == "" {
		if len(ops) == 1 {
			return ops[0]
		}
		return nil
	}
	for _, o := range ops {
		if o.Name == name {
			return o
		}
	}
	return nil
}

func (d *Dir) Arg(name string) *Arg {
	for _, a := range d.Args {
		if a.Name == name {
			return a
		}
	}
	return nil
}

func FindDir(dirs []*Dir, name string) *Dir {
	for _, d := range dirs {
		if d.Name == name {
			return d
		}
	}
	return nil
}
