package model

import (
	"fmt"
	"strconv"
	"strings"
	"unicode/utf8"
)

// Layout decides what is written in the gaps between tokens. Seps is consumed cyclically;
// each entry indexes Separators. A nil/empty layout writes single spaces.
type Layout struct {
	Seps []int `json:"seps,omitempty"`
}

// Separators that may fill a gap where at least one ignored character is required.
var Separators = []string{" ", "\n", "\r\n", "\r", "\t", ",", " # c\n", "  ", "\n\n", " ,\n ", " #\r  ", "\ufeff ", " #\u00e9\n"}

// NumASCIISeparators: Separators[:NumASCIISeparators] contain no multi-byte character (inputs
// on which the known lexer offset finding KF-C03-offsets cannot act).
const NumASCIISeparators = 11

// Printed is the rendering of a document with a position table.
type Printed struct {
	Text string
	// Pos maps a node key to the byte offset where that node's source text starts. Keys:
	// *Def, *Sel, *Dir, *Arg, *VarDef, *Val (literal start), PosKey{ptr,"name"|"type"|"on"|"value"}.
	Pos map[interface{}]int
}

type PosKey struct {
	Ptr  interface{}
	What string
}

type printer struct {
	sb  strings.Builder
	lay *Layout
	n   int
	pos map[interface{}]int
}

func (p *printer) gap() {
	if p.lay == nil || len(p.lay.Seps) == 0 {
		p.sb.WriteString(" ")
		return
	}
	s := Separators[p.lay.Seps[p.n%len(p.lay.Seps)]%len(Separators)]
	p.n++
	p.sb.WriteString(s)
}

func (p *printer) tok(s string)       { p.sb.WriteString(s) }
func (p *printer) mark(k interface{}) { p.pos[k] = p.sb.Len() }

// Print renders the document. Every token is followed by a gap, so any layout is lexically safe.
func Print(d *Doc, lay *Layout) *Printed {
	p := &printer{lay: lay, pos: map[interface{}]int{}}
	for _, def := range d.Defs {
		p.def(def)
	}
	return &Printed{Text: p.sb.String(), Pos: p.pos}
}

func (p *printer) def(d *Def) {
	p.mark(d)
	if d.Kind == "fragment" {
		p.tok("fragment")
		p.gap()
		p.mark(PosKey{d, "name"})
		p.tok(d.Name)
		p.gap()
		p.tok("on")
		p.gap()
		p.mark(PosKey{d, "on"})
		p.tok(d.TypeCond)
		p.gap()
	} else if !d.Shorthand || d.Name != "" || len(d.Vars) > 0 || len(d.Dirs) > 0 || d.Kind != "query" {
		p.tok(d.Kind)
		p.gap()
		if d.Name != "" {
			p.mark(PosKey{d, "name"})
			p.tok(d.Name)
			p.gap()
		}
		if len(d.Vars) > 0 {
			p.tok("(")
			p.gap()
			for _, v := range d.Vars {
				p.mark(v)
				p.pos[PosKey{v, "name"}] = p.sb.Len() + 1 // the Name after `$`
				p.tok("$" + v.Name)
				p.gap()
				p.tok(":")
				p.gap()
				p.mark(PosKey{v, "type"})
				p.typeRefMark(v.Type, PosKey{v, "typename"})
				if v.Default != nil {
					p.tok("=")
					p.gap()
					p.value(v.Default)
				}
			}
			p.tok(")")
			p.gap()
		}
	}
	p.dirs(d.Dirs)
	p.selset(d.Sel)
}

func (p *printer) typeRef(t TypeRef) { p.typeRefMark(t, nil) }

// typeRefMark prints a type reference and marks the start of the named type under nameKey.
func (p *printer) typeRefMark(t TypeRef, nameKey interface{}) {
	// tokens: [ T ! ] !
	var rec func(t TypeRef)
	rec = func(t TypeRef) {
		switch {
		case t.Wrap == "":
			if nameKey != nil {
				p.mark(nameKey)
			}
			p.tok(t.Name)
			p.gap()
		case t.Wrap[0] == '!':
			rec(t.Inner())
			p.tok("!")
			p.gap()
		default:
			p.tok("[")
			p.gap()
			rec(t.Inner())
			p.tok("]")
			p.gap()
		}
	}
	rec(t)
}

func (p *printer) dirs(ds []*Dir) {
	for _, d := range ds {
		p.mark(d)
		p.tok("@" + d.Name)
		p.gap()
		p.args(d.Args)
	}
}

func (p *printer) args(as []*Arg) {
	if len(as) == 0 {
		return
	}
	p.tok("(")
	p.gap()
	for _, a := range as {
		p.mark(a)
		p.tok(a.Name)
		p.gap()
		p.tok(":")
		p.gap()
		p.value(a.Val)
	}
	p.tok(")")
	p.gap()
}

func (p *printer) selset(ss []*Sel) {
	p.tok("{")
	p.gap()
	for _, s := range ss {
		p.mark(s)
		switch s.K {
		case "field":
			if s.Alias != "" {
				p.tok(s.Alias)
				p.gap()
				p.tok(":")
				p.gap()
			}
			p.mark(PosKey{s, "name"})
			p.tok(s.Name)
			p.gap()
			p.args(s.Args)
			p.dirs(s.Dirs)
			if len(s.Sel) > 0 {
				p.mark(PosKey{s, "selset"})
				p.selset(s.Sel)
			}
		case "spread":
			p.tok("...")
			p.gap()
			p.mark(PosKey{s, "name"})
			p.tok(s.Name)
			p.gap()
			p.dirs(s.Dirs)
		case "inline":
			p.tok("...")
			p.gap()
			if s.TypeCond != "" {
				p.tok("on")
				p.gap()
				p.mark(PosKey{s, "on"})
				p.tok(s.TypeCond)
				p.gap()
			}
			p.dirs(s.Dirs)
			p.selset(s.Sel)
		}
	}
	p.tok("}")
	p.gap()
}

func (p *printer) value(v *Val) {
	p.mark(v)
	switch v.K {
	case "null":
		p.tok("null") // not grammatical in this edition; only invalid-document generators use it
	case "int":
		p.tok(strconv.FormatInt(v.I, 10))
	case "float":
		p.tok(FloatLit(v.F))
	case "str":
		p.tok(Quote(v.S))
	case "bool":
		p.tok(strconv.FormatBool(v.B))
	case "enum":
		p.tok(v.S)
	case "var":
		p.tok("$" + v.S)
	case "list":
		p.tok("[")
		p.gap()
		for _, e := range v.L {
			p.value(e)
		}
		p.tok("]")
	case "obj":
		p.tok("{")
		p.gap()
		for i := range v.O {
			f := &v.O[i]
			p.mark(PosKey{f.V, "field"})
			p.tok(f.N)
			p.gap()
			p.tok(":")
			p.gap()
			p.value(f.V)
		}
		p.tok("}")
	}
	p.gap()
}

// FloatLit spells a float so that it lexes as a FloatValue.
func FloatLit(f float64) string {
	s := strconv.FormatFloat(f, 'g', -1, 64)
	if !strings.ContainsAny(s, ".eE") {
		s += ".0"
	}
	// "1e+06" is fine for the grammar (exponent sign allowed)
	return s
}

// Quote spells a GraphQL string literal (own implementation, only grammar escapes).
func Quote(s string) string {
	var sb strings.Builder
	sb.WriteByte('"')
	for _, r := range s {
		switch {
		case r == '"':
			sb.WriteString(`\"`)
		case r == '\\':
			sb.WriteString(`\\`)
		case r == '\n':
			sb.WriteString(`\n`)
		case r == '\r':
			sb.WriteString(`\r`)
		case r == '\t':
			sb.WriteString(`\t`)
		case r == '\b':
			sb.WriteString(`\b`)
		case r == '\f':
			sb.WriteString(`\f`)
		case r < 0x20 || r == utf8.RuneError:
			fmt.Fprintf(&sb, `\u%04X`, r)
		default:
			sb.WriteRune(r)
		}
	}
	sb.WriteByte('"')
	return sb.String()
}

// LineCol converts a byte offset into a 1-based (line, column) pair, lines ending at LF, CR
// or CRLF, columns counted in characters (runes). Independent of the library.
func LineCol(text string, off int) (int, int) {
	line, col := 1, 1
	i := 0
	for i < off && i < len(text) {
		c := text[i]
		switch {
		case c == '\r':
			if i+1 < len(text) && text[i+1] == '\n' && i+1 < off {
				i++
			}
			line++
			col = 1
			i++
		case c == '\n':
			line++
			col = 1
			i++
		default:
			_, sz := utf8.DecodeRuneInString(text[i:])
			i += sz
			col++
		}
	}
	return line, col
}

// ValString renders a literal compactly (for samples and messages).
func ValString(v *Val) string {
	p := &printer{pos: map[interface{}]int{}}
	p.value(v)
	return strings.TrimSpace(p.sb.String())
}
