// Package stats is the evidence recorder: every property function reports each case it
// executed; the recorder counts evaluations, keeps the set of hashes of non-trivial cases,
// a class histogram, exclusion counters and the first few non-trivial cases verbatim.
// The per-process result is written (TestMain) to $VERIF_STATS_OUT and merged by the driver.
package stats

import (
	"encoding/json"
	"fmt"
	"hash/fnv"
	"os"
	"sort"
	"sync"
)

type Rec struct {
	mu          sync.Mutex
	Evaluations int64
	nontrivial  map[uint64]struct{}
	Classes     map[string]int64
	Excluded    map[string]int64
	Samples     []interface{}
	maxSamples  int
	Known       map[string]int64 // failures matched by an active known-finding classifier
	Notes       []string
	Exhaustive  map[string]bool
	Failures    []Failure
}

type Failure struct {
	Property string `json:"property"`
	Replay   string `json:"replay"`
	Msg      string `json:"msg"`
}

var R = New()

func New() *Rec {
	return &Rec{nontrivial: map[uint64]struct{}{}, Classes: map[string]int64{}, Excluded: map[string]int64{},
		Known: map[string]int64{}, maxSamples: 6, Exhaustive: map[string]bool{}}
}

func Hash(parts ...string) uint64 {
	h := fnv.New64a()
	for _, p := range parts {
		h.Write([]byte(p))
		h.Write([]byte{0})
	}
	return h.Sum64()
}

// Case records one executed case. key identifies the case (for distinctness); nontrivial
// says whether it meets the property's stated rule; sample (may be nil) is a printable
// rendering kept for the first few non-trivial cases.
func (r *Rec) Case(key string, nontrivial bool, sample func() interface{}) {
	r.mu.Lock()
	defer r.mu.Unlock()
	r.Evaluations++
	if !nontrivial {
		return
	}
	h := Hash(key)
	if _, ok := r.nontrivial[h]; ok {
		return
	}
	r.nontrivial[h] = struct{}{}
	if sample != nil && len(r.Samples) < r.maxSamples {
		r.Samples = append(r.Samples, sample())
	}
}

func (r *Rec) Class(name string) { r.ClassN(name, 1) }
func (r *Rec) ClassN(name string, n int64) {
	r.mu.Lock()
	r.Classes[name] += n
	r.mu.Unlock()
}
func (r *Rec) Exclude(name string) {
	r.mu.Lock()
	r.Excluded[name]++
	r.mu.Unlock()
}
func (r *Rec) KnownHit(id string) {
	r.mu.Lock()
	r.Known[id]++
	r.mu.Unlock()
}
func (r *Rec) Note(format string, a ...interface{}) {
	r.mu.Lock()
	if len(r.Notes) < 50 {
		r.Notes = append(r.Notes, fmt.Sprintf(format, a...))
	}
	r.mu.Unlock()
}
func (r *Rec) SetExhaustive(space string, v bool) {
	r.mu.Lock()
	r.Exhaustive[space] = v
	r.mu.Unlock()
}
func (r *Rec) Fail(prop, replay, msg string) {
	r.mu.Lock()
	if len(r.Failures) < 20 {
		r.Failures = append(r.Failures, Failure{prop, replay, msg})
	}
	r.mu.Unlock()
}

type dump struct {
	Evaluations int64            `json:"evaluations"`
	Hashes      []uint64         `json:"hashes"`
	Classes     map[string]int64 `json:"classes"`
	Excluded    map[string]int64 `json:"excluded"`
	Known       map[string]int64 `json:"known"`
	Samples     []interface{}    `json:"samples"`
	Notes       []string         `json:"notes"`
	Exhaustive  map[string]bool  `json:"exhaustive"`
	Failures    []Failure        `json:"failures"`
}

// Flush writes the recorder to $VERIF_STATS_OUT (no-op when unset).
func (r *Rec) Flush() {
	path := os.Getenv("VERIF_STATS_OUT")
	if path == "" {
		return
	}
	r.mu.Lock()
	defer r.mu.Unlock()
	d := dump{Evaluations: r.Evaluations, Classes: r.Classes, Excluded: r.Excluded, Known: r.Known,
		Samples: r.Samples, Notes: r.Notes, Exhaustive: r.Exhaustive, Failures: r.Failures}
	for h := range r.nontrivial {
		d.Hashes = append(d.Hashes, h)
	}
	sort.Slice(d.Hashes, func(i, j int) bool { return d.Hashes[i] < d.Hashes[j] })
	b, err := json.Marshal(d)
	if err != nil {
		fmt.Fprintln(os.Stderr, "stats: marshal:", err)
		return
	}
	tmp := path + ".tmp"
	if err := os.WriteFile(tmp, b, 0o644); err == nil {
		os.Rename(tmp, path)
	}
}
