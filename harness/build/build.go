// Package build turns a schema model into a real graphql.Schema whose callbacks are driven by a
// ref.World (what to return) and record everything they are told (Session). It is the only
// place where model values and library values meet.
package build

import (
	"context"
	"errors"
	"fmt"
	"math"
	"reflect"
	"sync"

	"github.com/graphql-go/graphql"
	"github.com/graphql-go/graphql/gqlerrors"
	"github.com/graphql-go/graphql/language/ast"
	"github.com/graphql-go/graphql/language/location"

	"verif/model"
	"verif/ref"
)

// CallRec is one recorded callback invocation.
type CallRec struct {
	Kind       string // "resolve", "resolveType", "isTypeOf", "thunk"
	Path       []interface{}
	DefType    string // the type the callback was defined on
	Field      string
	Args       map[string]interface{} // the map as handed to the resolver (copied)
	Source     interface{}
	Value      interface{} // resolveType / isTypeOf
	Info       graphql.ResolveInfo
	CtxSession bool // the caller's context reached the callback
}

// Session is the per-request state carried in the context.
type Session struct {
	W      *ref.World
	Marker string
	mu     sync.Mutex
	Calls  []CallRec
	// Hook, when set, is called at the start of every callback and when a thunk is forced
	// (kind "thunk"); C13/C16 use it for event logs and gates.
	Hook func(kind string, defType, field string, path []interface{}, p *graphql.ResolveParams)
	// Mutate makes resolvers scribble on the Args / VariableValues maps they were handed (C20).
	Mutate bool
}

type ctxKey struct{}

func WithSession(ctx context.Context, s *Session) context.Context {
	if ctx == nil {
		ctx = context.Background()
	}
	return context.WithValue(ctx, ctxKey{}, s)
}

func SessionFrom(ctx context.Context) *Session {
	if ctx == nil {
		return nil
	}
	s, _ := ctx.Value(ctxKey{}).(*Session)
	return s
}

func (s *Session) record(c CallRec) {
	s.mu.Lock()
	s.Calls = append(s.Calls, c)
	s.mu.Unlock()
}

func (s *Session) Snapshot() []CallRec {
	s.mu.Lock()
	defer s.mu.Unlock()
	return append([]CallRec(nil), s.Calls...)
}

// Built is a schema built from a model.
type Built struct {
	Model   *model.Schema
	Schema  graphql.Schema
	Types   map[string]graphql.Type
	Objects map[string]*graphql.Object
	// Default is used by callbacks when the context carries no session.
	Default *Session
	// Config is the SchemaConfig handed to NewSchema (C10/C11 re-use pieces of it).
	Config graphql.SchemaConfig
}

type Options struct {
	// Subscribe, when non-nil, becomes the Subscribe function of every field of the
	// subscription root.
	Subscribe func(defType, field string) graphql.FieldResolveFn
	// OmitExtra hands no Types to NewSchema; Omit lists model types that are built but not
	// handed to NewSchema (to be appended later).
	OmitExtra bool
	Omit      []string
	// NoResolvers leaves Resolve nil (DefaultResolveFn), for introspection-only schemas.
	NoResolvers bool
	// Resolve overrides the resolver of "Type.field".
	Resolve    map[string]graphql.FieldResolveFn
	Extensions []graphql.Extension
}

func copyMap(m map[string]interface{}) map[string]interface{} {
	if m == nil {
		return nil
	}
	out := make(map[string]interface{}, len(m))
	for k, v := range m {
		out[k] = deepCopy(v)
	}
	return out
}

func deepCopy(v interface{}) interface{} {
	switch x := v.(type) {
	case map[string]interface{}:
		return copyMap(x)
	case []interface{}:
		out := make([]interface{}, len(x))
		for i, e := range x {
			out[i] = deepCopy(e)
		}
		return out
	}
	return v
}

// New builds the schema. The error is NewSchema's.
func New(m *model.Schema, w *ref.World, opt Options) (*Built, error) {
	b := &Built{Model: m, Types: map[string]graphql.Type{}, Objects: map[string]*graphql.Object{}, Default: &Session{W: w}}
	b.Types["Int"], b.Types["Float"], b.Types["String"], b.Types["Boolean"], b.Types["ID"] =
		graphql.Int, graphql.Float, graphql.String, graphql.Boolean, graphql.ID
	// Pass 1: leaf and input types; interfaces; objects; unions. Fields always come from thunks
	// reading b.Types, so reference cycles need no ordering.
	for _, td := range m.Types {
		td := td
		switch td.Kind {
		case model.KScalar:
			b.Types[td.Name] = graphql.NewScalar(graphql.ScalarConfig{
				Name: td.Name, Description: td.Desc,
				Serialize: func(v interface{}) interface{} {
					if ref.LeafRaises(v) {
						panic("E:serialize")
					}
					switch v {
					case "SER:NaN":
						return math.NaN()
					case "SER:nilptr":
						return (*string)(nil)
					}
					if s, ok := v.(string); ok && len(s) >= 2 && s[:2] == "P:" {
						return s[2:]
					}
					return nil
				},
				ParseValue: func(v interface{}) interface{} {
					if s, ok := v.(string); ok {
						return ref.CustomParse(s)
					}
					return nil
				},
				ParseLiteral: func(v ast.Value) interface{} {
					if s, ok := v.(*ast.StringValue); ok {
						return ref.CustomParse(s.Value)
					}
					return nil
				},
			})
		case model.KEnum:
			vals := graphql.EnumValueConfigMap{}
			for _, v := range td.Values {
				vals[v.Name] = &graphql.EnumValueConfig{Value: v.InternalGo(), DeprecationReason: v.Deprecation, Description: v.Desc}
			}
			b.Types[td.Name] = graphql.NewEnum(graphql.EnumConfig{Name: td.Name, Description: td.Desc, Values: vals})
		}
	}
	for _, td := range m.Types {
		td := td
		if td.Kind != model.KInput {
			continue
		}
		mk := func() graphql.InputObjectConfigFieldMap {
			fm := graphql.InputObjectConfigFieldMap{}
			for _, f := range td.InputFields {
				fm[f.Name] = &graphql.InputObjectFieldConfig{Type: b.InType(f.Type), DefaultValue: ref.DefaultGo(m, f.Type, f.Default), Description: f.Desc}
			}
			return fm
		}
		b.Types[td.Name] = graphql.NewInputObject(graphql.InputObjectConfig{Name: td.Name, Description: td.Desc,
			Fields: graphql.InputObjectConfigFieldMapThunk(mk)})
	}
	for _, td := range m.Types {
		td := td
		if td.Kind != model.KIface {
			continue
		}
		cfg := graphql.InterfaceConfig{Name: td.Name, Description: td.Desc,
			Fields: graphql.FieldsThunk(func() graphql.Fields { return b.fields(td, opt, false) })}
		if td.HasResolveType {
			cfg.ResolveType = b.resolveType(td.Name)
		}
		b.Types[td.Name] = graphql.NewInterface(cfg)
	}
	for _, td := range m.Types {
		td := td
		if td.Kind != model.KObject {
			continue
		}
		cfg := graphql.ObjectConfig{Name: td.Name, Description: td.Desc,
			Fields: graphql.FieldsThunk(func() graphql.Fields { return b.fields(td, opt, td.Name == m.Subscription) })}
		ifaces := func() []*graphql.Interface {
			var out []*graphql.Interface
			for _, i := range td.Interfaces {
				if it, ok := b.Types[i].(*graphql.Interface); ok {
					out = append(out, it)
				}
			}
			return out
		}
		if td.Thunked {
			cfg.Interfaces = graphql.InterfacesThunk(ifaces)
		} else {
			cfg.Interfaces = ifaces()
		}
		if td.HasIsTypeOf {
			cfg.IsTypeOf = b.isTypeOf(td.Name)
		}
		o := graphql.NewObject(cfg)
		b.Types[td.Name] = o
		b.Objects[td.Name] = o
	}
	for _, td := range m.Types {
		td := td
		if td.Kind != model.KUnion {
			continue
		}
		members := func() []*graphql.Object {
			var out []*graphql.Object
			for _, n := range td.Members {
				if o := b.Objects[n]; o != nil {
					out = append(out, o)
				}
			}
			return out
		}
		cfg := graphql.UnionConfig{Name: td.Name, Description: td.Desc}
		if td.Thunked {
			cfg.Types = graphql.UnionTypesThunk(members)
		} else {
			cfg.Types = members()
		}
		if td.HasResolveType {
			cfg.ResolveType = b.resolveType(td.Name)
		}
		b.Types[td.Name] = graphql.NewUnion(cfg)
	}
	cfg := graphql.SchemaConfig{Extensions: opt.Extensions}
	if m.Query != "" {
		cfg.Query = b.Objects[m.Query]
	}
	if m.Mutation != "" {
		cfg.Mutation = b.Objects[m.Mutation]
	}
	if m.Subscription != "" {
		cfg.Subscription = b.Objects[m.Subscription]
	}
	// Every model type is handed over explicitly so that types not reachable from the roots
	// (implementers of interfaces, unused unions, ...) are part of the schema.
	if !opt.OmitExtra {
		for _, td := range m.Types {
			if !contains(opt.Omit, td.Name) {
				cfg.Types = append(cfg.Types, b.Types[td.Name])
			}
		}
	}
	for _, d := range m.Directives {
		args := graphql.FieldConfigArgument{}
		for _, a := range d.Args {
			args[a.Name] = &graphql.ArgumentConfig{Type: b.InType(a.Type), DefaultValue: ref.DefaultGo(m, a.Type, a.Default), Description: a.Desc}
		}
		cfg.Directives = append(cfg.Directives, graphql.NewDirective(graphql.DirectiveConfig{Name: d.Name, Description: d.Desc, Locations: d.Locations, Args: args}))
	}
	if len(cfg.Directives) > 0 {
		cfg.Directives = append(cfg.Directives, graphql.SpecifiedDirectives...)
	}
	b.Config = cfg
	s, err := graphql.NewSchema(cfg)
	b.Schema = s
	return b, err
}

func contains(l []string, s string) bool {
	for _, x := range l {
		if x == s {
			return true
		}
	}
	return false
}

func (b *Built) wrap(t model.TypeRef, named graphql.Type) graphql.Type {
	out := named
	for i := len(t.Wrap) - 1; i >= 0; i-- {
		if t.Wrap[i] == '!' {
			out = graphql.NewNonNull(out)
		} else {
			out = graphql.NewList(out)
		}
	}
	return out
}

func (b *Built) OutType(t model.TypeRef) graphql.Output {
	named := b.Types[t.Name]
	if named == nil {
		return nil
	}
	return b.wrap(t, named)
}

func (b *Built) InType(t model.TypeRef) graphql.Input {
	named := b.Types[t.Name]
	if named == nil {
		return nil
	}
	return b.wrap(t, named)
}

func (b *Built) fields(td *model.TypeDef, opt Options, subRoot bool) graphql.Fields {
	out := graphql.Fields{}
	for _, fd := range td.Fields {
		fd := fd
		args := graphql.FieldConfigArgument{}
		for _, a := range fd.Args {
			args[a.Name] = &graphql.ArgumentConfig{Type: b.InType(a.Type), DefaultValue: ref.DefaultGo(b.Model, a.Type, a.Default), Description: a.Desc}
		}
		f := &graphql.Field{Type: b.OutType(fd.Type), Args: args, Description: fd.Desc, DeprecationReason: fd.Deprecation}
		if td.Kind == model.KObject && !opt.NoResolvers {
			f.Resolve = b.resolver(td.Name, fd)
			if r, ok := opt.Resolve[td.Name+"."+fd.Name]; ok {
				f.Resolve = r
			}
			if subRoot && opt.Subscribe != nil {
				f.Subscribe = opt.Subscribe(td.Name, fd.Name)
			}
		}
		out[fd.Name] = f
	}
	return out
}

func (b *Built) session(ctx context.Context) (*Session, bool) {
	if s := SessionFrom(ctx); s != nil {
		return s, true
	}
	return b.Default, false
}

func (b *Built) resolver(defType string, fd *model.FieldDef) graphql.FieldResolveFn {
	return func(p graphql.ResolveParams) (interface{}, error) {
		sess, fromCtx := b.session(p.Context)
		path := p.Info.Path.AsArray()
		if sess.Hook != nil {
			sess.Hook("resolve", defType, fd.Name, path, &p)
		}
		sess.record(CallRec{Kind: "resolve", Path: path, DefType: defType, Field: fd.Name, Args: copyMap(p.Args),
			Source: p.Source, Info: p.Info, CtxSession: fromCtx})
		r := sess.W.Resolve(defType, fd, path, p.Args)
		if sess.Mutate {
			if p.Args != nil {
				p.Args["__scribble"] = "x"
				for k := range p.Args {
					if k != "__scribble" {
						p.Args[k] = "scribbled"
					}
				}
			}
		}
		switch r.Kind {
		case "nil":
			return nil, nil
		case "err":
			return nil, errors.New(r.ErrMsg)
		case "err_ctx":
			// the error of a context of the resolver's own (a backend call that timed out): an
			// ordinary field error, whatever the state of the request's context
			return nil, fmt.Errorf("%s: %w", r.ErrMsg, context.DeadlineExceeded)
		case "err_foreign":
			// an error that was already located and formatted for some other request (what a
			// delegating resolver returns): its path and location are not this field's
			inner := gqlerrors.NewErrorWithPath(r.ErrMsg, nil, "", nil, nil, []interface{}{"deep", 7, "boom"}, errors.New(r.ErrMsg))
			inner.Locations = []location.SourceLocation{{Line: 977, Column: 11}}
			return nil, gqlerrors.FormatError(inner)
		case "err_located":
			// an error the resolver located itself with the exported constructor, without nodes: it says nothing about
			// where this field sits in this response
			return nil, graphql.NewLocatedError(errors.New(r.ErrMsg), nil)
		case "err_shared":
			// one located error value returned for every failing field and every request (a sentinel)
			return nil, sharedSentinel
		case "valerr":
			return typedList(materialize(r.Val), sess.W), errors.New(r.ErrMsg)
		case "panic_err":
			panic(errors.New(r.ErrMsg))
		case "panic_shared":
			panic(sharedSentinel) // raised, not returned
		case "panic_str":
			panic(r.ErrMsg)
		case "panic_int":
			panic(42)
		case "thunk", "thunk_err", "thunk_nil":
			return func() (interface{}, error) {
				if sess.Hook != nil {
					sess.Hook("thunk", defType, fd.Name, path, &p)
				}
				switch r.Kind {
				case "thunk_err":
					return nil, errors.New(r.ErrMsg)
				case "thunk_nil":
					return nil, nil
				}
				return typedList(materialize(r.Val), sess.W), nil
			}, nil
		}
		return typedList(materialize(r.Val), sess.W), nil
	}
}

// typedList hands a list whose elements all have the same Go type over as a slice of that type ([]int, []string,
// []*ref.Tok, [][]int ...) when the world asks for it: resolvers return typed slices more often than []interface{}.
func typedList(v interface{}, w *ref.World) interface{} {
	if w == nil || !w.TypedLists {
		return v
	}
	l, ok := v.([]interface{})
	if !ok || len(l) == 0 {
		return v
	}
	elems := make([]interface{}, len(l))
	for i, e := range l {
		elems[i] = typedList(e, w)
	}
	var et reflect.Type
	for i, e := range elems {
		if e == nil {
			return sliceOfIface(elems)
		}
		t := reflect.TypeOf(e)
		if i > 0 && t != et {
			return sliceOfIface(elems)
		}
		et = t
	}
	switch et.Kind() {
	case reflect.Func, reflect.Struct, reflect.Map:
		return sliceOfIface(elems) // deferred values and hostile leaves stay as they are
	}
	out := reflect.MakeSlice(reflect.SliceOf(et), len(elems), len(elems))
	for i, e := range elems {
		out.Index(i).Set(reflect.ValueOf(e))
	}
	return out.Interface()
}

func sliceOfIface(x []interface{}) interface{} { return x }

// materialize turns the deferred list elements of a World value into real deferred values.
func materialize(v interface{}) interface{} {
	switch x := v.(type) {
	case ref.ElemThunk:
		inner := materialize(x.V)
		return func() (interface{}, error) { return inner, nil }
	case []interface{}:
		has := false
		for _, e := range x {
			switch e.(type) {
			case ref.ElemThunk, []interface{}:
				has = true
			}
		}
		if !has {
			return v
		}
		out := make([]interface{}, len(x))
		for i, e := range x {
			out[i] = materialize(e)
		}
		return out
	}
	return v
}

func (b *Built) resolveType(abstract string) graphql.ResolveTypeFn {
	return func(p graphql.ResolveTypeParams) *graphql.Object {
		sess, fromCtx := b.session(p.Context)
		path := p.Info.Path.AsArray()
		sess.record(CallRec{Kind: "resolveType", Path: path, DefType: abstract, Value: p.Value, Info: p.Info, CtxSession: fromCtx})
		name := sess.W.RuntimeType(abstract, p.Value, path)
		if name == "" {
			return nil
		}
		return b.Objects[name]
	}
}

func (b *Built) isTypeOf(obj string) graphql.IsTypeOfFn {
	return func(p graphql.IsTypeOfParams) bool {
		sess, fromCtx := b.session(p.Context)
		path := p.Info.Path.AsArray()
		sess.record(CallRec{Kind: "isTypeOf", Path: path, DefType: obj, Value: p.Value, Info: p.Info, CtxSession: fromCtx})
		return sess.W.IsTypeOf(obj, p.Value, path)
	}
}

// ErrClass maps a library error message to the reference's error classes.
// sharedSentinel is one located error value shared by all schemas, sessions and requests of the process.
var sharedSentinel = gqlerrors.NewError("E:shared", nil, "", nil, nil, errors.New("E:shared"))

func ErrClass(msg string) string {
	switch {
	case msg == "E:serialize" || msg == "runtime error: hash of unhashable type ref.LeafPanic":
		return "leafpanic" // a leaf serializer raised (custom scalar / enum lookup)
	case len(msg) >= 2 && msg[:2] == "E:":
		return "resolver"
	case msg == "An unknown error occurred.": // non-error, non-string panic value
		return "resolver"
	case hasPrefix(msg, "Cannot return null for non-nullable"):
		return "nonnull"
	case hasPrefix(msg, "User Error: expected iterable"):
		return "notlist"
	case hasPrefix(msg, "Runtime Object type") || hasPrefix(msg, "Abstract type"):
		return "runtimetype"
	case hasPrefix(msg, "Expected value of type"):
		return "istypeof"
	}
	return "other(" + msg + ")"
}

func hasPrefix(s, p string) bool { return len(s) >= len(p) && s[:len(p)] == p }

var _ = fmt.Sprintf
