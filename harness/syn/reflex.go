package syn

// Reference lexer and recursive-descent parser, written from the grammar the library
// documents (production comments in language/parser, lexical comments in
// language/lexer, June-2018 spec text for everything those leave open). It does not
// import the library. All offsets are byte offsets.

import (
	"fmt"
	"strconv"
	"strings"
	"unicode/utf8"
)

// Options selects between readings of the grammar where the library's production
// comments, its own fixtures and the June-2018 spec text disagree. The zero value is
// the dialect used as the oracle.
type Options struct {
	// NonEmptyTypeBodies requires at least one item inside the braces of type /
	// interface / enum / input definitions (what the production comments and the spec
	// say: `{ FieldDefinition+ }`). Off by default because the library's own
	// schema-kitchen-sink.graphql and parser tests contain `type NoFields {}`.
	NonEmptyTypeBodies bool
	// LeadingPipe accepts an optional leading '|' in union members and directive
	// locations (June-2018 spec). Off by default: the production comments do not have it.
	LeadingPipe bool
	// StrictEnumValueNames rejects true/false/null as names in EnumValueDefinition
	// (spec). Off by default: the production comment there says `EnumValue : Name`.
	StrictEnumValueNames bool
}

// Opt is the dialect in force. Only tests that explore other readings change it.
var Opt Options

type TokKind int

const (
	EOF TokKind = iota
	Bang
	Dollar
	ParenL
	ParenR
	Spread
	Colon
	Equals
	At
	BracketL
	BracketR
	BraceL
	Pipe
	BraceR
	Amp
	Name
	Int
	Float
	String
	BlockString
	bad // parser-internal sentinel standing for a lexical error
)

var tokNames = [...]string{"<EOF>", "!", "$", "(", ")", "...", ":", "=", "@", "[", "]", "{", "|", "}", "&",
	"Name", "Int", "Float", "String", "BlockString", "<bad>"}

func (k TokKind) String() string { return tokNames[k] }

var leafKinds = map[TokKind]string{Int: "IntValue", Float: "FloatValue", String: "StringValue", BlockString: "StringValue"}

// Token is one lexical token. Value is the name text, the number text, or the decoded
// string value (for block strings: after BlockStringValue()); "" for punctuators/EOF.
type Token struct {
	Kind       TokKind
	Start, End int
	Value      string
}

// SyntaxError describes why src is not in the language.
type SyntaxError struct {
	// Pos is the byte offset of the start of the first token (or malformed lexeme) at
	// which the input stops being a prefix of any valid document; End is one past that
	// token / the offending character of the lexeme. For EOF both are len(src).
	Pos, End int
	// At is the exact byte where a lexical error was detected (Pos <= At <= End);
	// equal to Pos for grammatical errors.
	At  int
	Msg string
	// InTypeRef: the parser was inside the Type production (a type name or '[' was
	// required, or the ']' closing a list type) when it failed.
	InTypeRef bool
	// TokenIndex is the index of the offending token in Lex's output, -1 for lexical errors.
	TokenIndex int
}

func (e *SyntaxError) Error() string { return fmt.Sprintf("syntax error at %d: %s", e.Pos, e.Msg) }

// ---------------------------------------------------------------- lexer

func isNameStart(c byte) bool {
	return c == '_' || c >= 'A' && c <= 'Z' || c >= 'a' && c <= 'z'
}
func isDigit(c byte) bool { return c >= '0' && c <= '9' }

func hexVal(c byte) int {
	switch {
	case isDigit(c):
		return int(c - '0')
	case c >= 'a' && c <= 'f':
		return int(c-'a') + 10
	case c >= 'A' && c <= 'F':
		return int(c-'A') + 10
	}
	return -1
}

// sourceChar reports whether byte c may appear inside a comment or string: TAB or
// anything >= U+0020 (bytes >= 0x80 are opaque, so invalid UTF-8 is tolerated there).
// Line terminators and quotes are the callers' business.
func sourceChar(c byte) bool { return c == '\t' || c >= 0x20 }

var punct = map[byte]TokKind{'!': Bang, '$': Dollar, '(': ParenL, ')': ParenR, ':': Colon, '=': Equals,
	'@': At, '[': BracketL, ']': BracketR, '{': BraceL, '|': Pipe, '}': BraceR, '&': Amp}

// Lex splits src into tokens, ending with an EOF token. On a lexical error it returns
// the tokens before the malformed lexeme (no EOF) and the error.
func Lex(src []byte) ([]Token, *SyntaxError) {
	var toks []Token
	n := len(src)
	lexErr := func(pos, at int, format string, a ...interface{}) ([]Token, *SyntaxError) {
		end := n
		if at < n {
			_, w := utf8.DecodeRune(src[at:])
			end = at + w
		}
		return toks, &SyntaxError{Pos: pos, At: at, End: end, Msg: fmt.Sprintf(format, a...), TokenIndex: -1}
	}
	ch := func(i int) string { // the character at src[i], quoted, for messages
		_, w := utf8.DecodeRune(src[i:])
		return strconv.Quote(string(src[i : i+w]))
	}
	i := 0
	for {
		// Ignored: BOM, white space, line terminators, commas, comments.
		for i < n {
			c := src[i]
			if c == '\t' || c == ' ' || c == '\n' || c == '\r' || c == ',' {
				i++
			} else if c == 0xEF && i+2 < n && src[i+1] == 0xBB && src[i+2] == 0xBF {
				i += 3
			} else if c == '#' {
				for i++; i < n && src[i] != '\n' && src[i] != '\r' && sourceChar(src[i]); i++ {
				}
			} else {
				break
			}
		}
		if i >= n {
			return append(toks, Token{Kind: EOF, Start: n, End: n}), nil
		}
		start, c := i, src[i]
		switch {
		case punct[c] != 0:
			i++
			toks = append(toks, Token{Kind: punct[c], Start: start, End: i})
		case c == '.':
			if !(i+2 < n && src[i+1] == '.' && src[i+2] == '.') {
				return lexErr(i, i, "unexpected character %s", ch(i))
			}
			i += 3
			toks = append(toks, Token{Kind: Spread, Start: start, End: i})
		case isNameStart(c):
			for i++; i < n && (isNameStart(src[i]) || isDigit(src[i])); i++ {
			}
			toks = append(toks, Token{Kind: Name, Start: start, End: i, Value: string(src[start:i])})
		case c == '-' || isDigit(c):
			kind := Int
			if c == '-' {
				i++
			}
			digits := func() bool { // [0-9]+
				if i >= n || !isDigit(src[i]) {
					return false
				}
				for ; i < n && isDigit(src[i]); i++ {
				}
				return true
			}
			if i < n && src[i] == '0' {
				if i++; i < n && isDigit(src[i]) {
					return lexErr(start, i, "invalid number: digit after leading 0")
				}
			} else if !digits() {
				return lexErr(start, i, "invalid number: digit expected")
			}
			if i < n && src[i] == '.' {
				kind = Float
				if i++; !digits() {
					return lexErr(start, i, "invalid number: digit expected after '.'")
				}
			}
			if i < n && (src[i] == 'e' || src[i] == 'E') {
				kind = Float
				if i++; i < n && (src[i] == '+' || src[i] == '-') {
					i++
				}
				if !digits() {
					return lexErr(start, i, "invalid number: digit expected in exponent")
				}
			}
			toks = append(toks, Token{Kind: kind, Start: start, End: i, Value: string(src[start:i])})
		case c == '"' && i+2 < n && src[i+1] == '"' && src[i+2] == '"':
			var raw []byte
			for i += 3; ; {
				if i >= n {
					return lexErr(start, n, "unterminated block string")
				}
				if src[i] == '"' && i+2 < n && src[i+1] == '"' && src[i+2] == '"' {
					i += 3
					break
				}
				if src[i] == '\\' && i+3 < n && src[i+1] == '"' && src[i+2] == '"' && src[i+3] == '"' {
					raw = append(raw, '"', '"', '"')
					i += 4
					continue
				}
				if c := src[i]; !sourceChar(c) && c != '\n' && c != '\r' {
					return lexErr(start, i, "invalid character %s in block string", ch(i))
				}
				raw = append(raw, src[i])
				i++
			}
			toks = append(toks, Token{Kind: BlockString, Start: start, End: i, Value: BlockStringValue(string(raw))})
		case c == '"':
			var val []byte
			for i++; ; {
				if i >= n {
					return lexErr(start, n, "unterminated string")
				}
				c := src[i]
				if c == '"' {
					i++
					break
				}
				if c == '\n' || c == '\r' {
					return lexErr(start, i, "unterminated string")
				}
				if !sourceChar(c) {
					return lexErr(start, i, "invalid character %s in string", ch(i))
				}
				if c != '\\' {
					val = append(val, c)
					i++
					continue
				}
				if i++; i >= n {
					return lexErr(start, n, "unterminated string")
				}
				esc := strings.IndexByte(`"\/bfnrt`, src[i])
				switch {
				case esc >= 0:
					val = append(val, "\"\\/\b\f\n\r\t"[esc])
					i++
				case src[i] == 'u':
					r := rune(0)
					for k := 1; k <= 4; k++ {
						if i+k >= n {
							return lexErr(start, n, "unterminated string")
						}
						h := hexVal(src[i+k])
						if h < 0 {
							return lexErr(start, i+k, "invalid \\u escape")
						}
						r = r<<4 | rune(h)
					}
					// one BMP code unit; a lone surrogate has no UTF-8 form and becomes U+FFFD
					val = utf8.AppendRune(val, r)
					i += 5
				default:
					return lexErr(start, i, "invalid escape \\%s", ch(i))
				}
			}
			toks = append(toks, Token{Kind: String, Start: start, End: i, Value: string(val)})
		default:
			return lexErr(i, i, "unexpected character %s", ch(i))
		}
	}
}

// BlockStringValue is the spec's BlockStringValue(rawValue) algorithm.
func BlockStringValue(raw string) string {
	lines := strings.Split(strings.NewReplacer("\r\n", "\n", "\r", "\n").Replace(raw), "\n")
	indent := func(s string) int { return len(s) - len(strings.TrimLeft(s, " \t")) }
	common := -1
	for _, l := range lines[1:] {
		if in := indent(l); in < len(l) && (common < 0 || in < common) {
			common = in
		}
	}
	for k := 1; k < len(lines) && common > 0; k++ {
		lines[k] = lines[k][min(common, len(lines[k])):]
	}
	for len(lines) > 0 && indent(lines[0]) == len(lines[0]) {
		lines = lines[1:]
	}
	for len(lines) > 0 && indent(lines[len(lines)-1]) == len(lines[len(lines)-1]) {
		lines = lines[:len(lines)-1]
	}
	return strings.Join(lines, "\n")
}

// ---------------------------------------------------------------- parser

type parser struct {
	toks   []Token
	lexErr *SyntaxError
	i      int // index of the current token
	inType int // nesting depth of the Type production
}

func newParser(src []byte) *parser {
	toks, err := Lex(src)
	if err != nil {
		toks = append(toks, Token{Kind: bad, Start: err.Pos, End: err.End})
	}
	return &parser{toks: toks, lexErr: err}
}

// run executes f, converting the panic raised by fail into the returned error.
func (p *parser) run(f func() *Node) (n *Node, err *SyntaxError) {
	defer func() {
		if r := recover(); r != nil {
			se, ok := r.(*SyntaxError)
			if !ok {
				panic(r)
			}
			n, err = nil, se
		}
	}()
	return f(), nil
}

// ParseDocument parses `Document : Definition+`.
func ParseDocument(src []byte) (*Node, *SyntaxError) {
	p := newParser(src)
	return p.run(func() *Node {
		start := p.tok().Start
		defs := []*Node{p.definition()}
		for !p.at(EOF) {
			defs = append(defs, p.definition())
		}
		p.next() // the EOF token closes the document: its span runs to len(src)
		return p.node("Document", start, "", many("Definitions", defs))
	})
}

// ParseValueText parses `Value[~Const]` followed by end of input.
func ParseValueText(src []byte) (*Node, *SyntaxError) {
	p := newParser(src)
	return p.run(func() *Node {
		v := p.value(false)
		p.expect(EOF)
		return v
	})
}

func (p *parser) tok() Token         { return p.toks[p.i] }
func (p *parser) at(k TokKind) bool  { return p.toks[p.i].Kind == k }
func (p *parser) atKw(v string) bool { return p.at(Name) && p.tok().Value == v }
func (p *parser) atString() bool     { return p.at(String) || p.at(BlockString) }
func (p *parser) next() Token        { t := p.toks[p.i]; p.i++; return t }
func (p *parser) prevEnd() int       { return p.toks[p.i-1].End }
func (p *parser) skip(k TokKind) bool {
	ok := p.at(k)
	if ok {
		p.i++
	}
	return ok
}

// fail reports the current token as the first one that cannot continue any document.
func (p *parser) fail(expected string) {
	t := p.tok()
	if t.Kind == bad {
		e := *p.lexErr
		e.InTypeRef = p.inType > 0
		panic(&e)
	}
	found := t.Kind.String()
	if t.Value != "" && t.Kind != String && t.Kind != BlockString {
		found += " " + t.Value
	}
	panic(&SyntaxError{Pos: t.Start, End: t.End, At: t.Start, TokenIndex: p.i, InTypeRef: p.inType > 0,
		Msg: "expected " + expected + ", found " + found})
}

func (p *parser) expect(k TokKind) Token {
	if !p.at(k) {
		p.fail(k.String())
	}
	return p.next()
}

func (p *parser) keyword(v string) Token {
	if !p.atKw(v) {
		p.fail(`"` + v + `"`)
	}
	return p.next()
}

// node builds a node spanning from start to the end of the last consumed token.
func (p *parser) node(kind string, start int, value string, ch ...Child) *Node {
	return &Node{Kind: kind, Start: start, End: p.prevEnd(), Value: value, Children: ch}
}

func one(key string, n *Node) Child {
	if n == nil {
		return Child{Key: key}
	}
	return Child{Key: key, Nodes: []*Node{n}}
}

func many(key string, ns []*Node) Child { return Child{Key: key, List: true, Nodes: ns} }

// block parses `open item* close`; with nonEmpty, `open item+ close`.
func (p *parser) block(open TokKind, item func() *Node, close TokKind, nonEmpty bool) []*Node {
	p.expect(open)
	var ns []*Node
	for len(ns) == 0 && nonEmpty || !p.at(close) {
		ns = append(ns, item())
	}
	p.next()
	return ns
}

// optBlock is block when the opening token is present, else nothing.
func (p *parser) optBlock(open TokKind, item func() *Node, close TokKind) []*Node {
	if !p.at(open) {
		return nil
	}
	return p.block(open, item, close, true)
}

func (p *parser) name() *Node {
	t := p.expect(Name)
	return p.node("Name", t.Start, t.Value)
}

// Definition : OperationDefinition | FragmentDefinition | TypeSystemDefinition
func (p *parser) definition() *Node {
	t := p.tok()
	if t.Kind == BraceL || p.atKw("query") || p.atKw("mutation") || p.atKw("subscription") {
		return p.operationDefinition()
	}
	if p.atKw("fragment") {
		return p.fragmentDefinition()
	}
	if p.atKw("schema") {
		return p.schemaDefinition()
	}
	if p.atKw("extend") { // TypeExtensionDefinition : extend ObjectTypeDefinition
		p.next()
		obj := p.describedDefinition(true)
		return p.node("TypeExtensionDefinition", t.Start, "", one("Definition", obj))
	}
	if t.Kind == Name || p.atString() {
		return p.describedDefinition(false)
	}
	p.fail("definition")
	return nil
}

// describedDefinition parses the definitions that start with `Description?`:
// Scalar/Object/Interface/Union/Enum/InputObject type definitions and DirectiveDefinition.
func (p *parser) describedDefinition(onlyObject bool) *Node {
	start := p.tok().Start
	desc := one("Description", p.description())
	kw := ""
	if p.at(Name) {
		kw = p.tok().Value
	}
	if onlyObject && kw != "type" {
		p.fail(`"type"`)
	}
	switch kw {
	case "scalar": // ScalarTypeDefinition : Description? scalar Name Directives?
		p.next()
		return p.node("ScalarDefinition", start, "", desc, one("Name", p.name()), p.directives())
	case "type": // ObjectTypeDefinition : Description? type Name ImplementsInterfaces? Directives? { FieldDefinition* }
		p.next()
		nm := one("Name", p.name())
		var ifaces []*Node
		if p.atKw("implements") { // implements &? NamedType ( & NamedType )*
			p.next()
			p.skip(Amp)
			ifaces = append(ifaces, p.namedType())
			for p.skip(Amp) {
				ifaces = append(ifaces, p.namedType())
			}
		}
		dirs := p.directives()
		fields := p.block(BraceL, p.fieldDefinition, BraceR, Opt.NonEmptyTypeBodies)
		return p.node("ObjectDefinition", start, "", desc, nm, many("Interfaces", ifaces), dirs, many("Fields", fields))
	case "interface": // InterfaceTypeDefinition : Description? interface Name Directives? { FieldDefinition* }
		p.next()
		nm, dirs := one("Name", p.name()), p.directives()
		fields := p.block(BraceL, p.fieldDefinition, BraceR, Opt.NonEmptyTypeBodies)
		return p.node("InterfaceDefinition", start, "", desc, nm, dirs, many("Fields", fields))
	case "union": // UnionTypeDefinition : Description? union Name Directives? = NamedType ( | NamedType )*
		p.next()
		nm, dirs := one("Name", p.name()), p.directives()
		p.expect(Equals)
		types := p.pipeList(p.namedType)
		return p.node("UnionDefinition", start, "", desc, nm, dirs, many("Types", types))
	case "enum": // EnumTypeDefinition : Description? enum Name Directives? { EnumValueDefinition* }
		p.next()
		nm, dirs := one("Name", p.name()), p.directives()
		values := p.block(BraceL, p.enumValueDefinition, BraceR, Opt.NonEmptyTypeBodies)
		return p.node("EnumDefinition", start, "", desc, nm, dirs, many("Values", values))
	case "input": // InputObjectTypeDefinition : Description? input Name Directives? { InputValueDefinition* }
		p.next()
		nm, dirs := one("Name", p.name()), p.directives()
		fields := p.block(BraceL, p.inputValueDefinition, BraceR, Opt.NonEmptyTypeBodies)
		return p.node("InputObjectDefinition", start, "", desc, nm, dirs, many("Fields", fields))
	case "directive": // DirectiveDefinition : Description? directive @ Name ArgumentsDefinition? on Name ( | Name )*
		p.next()
		p.expect(At)
		nm := one("Name", p.name())
		args := p.optBlock(ParenL, p.inputValueDefinition, ParenR)
		p.keyword("on")
		locs := p.pipeList(p.name)
		return p.node("DirectiveDefinition", start, "", desc, nm, many("Arguments", args), many("Locations", locs))
	}
	p.fail("definition")
	return nil
}

// pipeList : item ( | item )*
func (p *parser) pipeList(item func() *Node) []*Node {
	if Opt.LeadingPipe {
		p.skip(Pipe)
	}
	ns := []*Node{item()}
	for p.skip(Pipe) {
		ns = append(ns, item())
	}
	return ns
}

// Description : StringValue
func (p *parser) description() *Node {
	if p.atString() {
		return p.value(true)
	}
	return nil
}

// OperationDefinition : SelectionSet | OperationType Name? VariableDefinitions? Directives? SelectionSet
func (p *parser) operationDefinition() *Node {
	t := p.tok()
	if t.Kind == BraceL {
		sel := p.selectionSet()
		return p.node("OperationDefinition", t.Start, "query", one("Name", nil),
			many("VariableDefinitions", nil), many("Directives", nil), one("SelectionSet", sel))
	}
	p.next()
	var nm *Node
	if p.at(Name) {
		nm = p.name()
	}
	vars := p.optBlock(ParenL, p.variableDefinition, ParenR)
	dirs := p.directives()
	sel := p.selectionSet()
	return p.node("OperationDefinition", t.Start, t.Value, one("Name", nm),
		many("VariableDefinitions", vars), dirs, one("SelectionSet", sel))
}

// VariableDefinition : Variable : Type DefaultValue?      DefaultValue : = Value[Const]
func (p *parser) variableDefinition() *Node {
	start := p.tok().Start
	v := p.variable()
	p.expect(Colon)
	ty := p.typeRef()
	var def *Node
	if p.skip(Equals) {
		def = p.value(true)
	}
	return p.node("VariableDefinition", start, "", one("Variable", v), one("Type", ty), one("DefaultValue", def))
}

// Variable : $ Name
func (p *parser) variable() *Node {
	t := p.expect(Dollar)
	return p.node("Variable", t.Start, "", one("Name", p.name()))
}

// SelectionSet : { Selection+ }
func (p *parser) selectionSet() *Node {
	start := p.tok().Start
	sels := p.block(BraceL, p.selection, BraceR, true)
	return p.node("SelectionSet", start, "", many("Selections", sels))
}

func (p *parser) optSelectionSet() *Node {
	if p.at(BraceL) {
		return p.selectionSet()
	}
	return nil
}

// Selection : Field | FragmentSpread | InlineFragment
func (p *parser) selection() *Node {
	t := p.tok()
	if !p.skip(Spread) {
		// Field : Alias? Name Arguments? Directives? SelectionSet?      Alias : Name :
		var alias *Node
		nm := p.name()
		if p.skip(Colon) {
			alias, nm = nm, p.name()
		}
		args := p.arguments()
		dirs := p.directives()
		return p.node("Field", t.Start, "", one("Alias", alias), one("Name", nm), args, dirs,
			one("SelectionSet", p.optSelectionSet()))
	}
	if p.at(Name) && !p.atKw("on") { // FragmentSpread : ... FragmentName Directives?
		return p.node("FragmentSpread", t.Start, "", one("Name", p.name()), p.directives())
	}
	// InlineFragment : ... TypeCondition? Directives? SelectionSet      TypeCondition : on NamedType
	var cond *Node
	if p.atKw("on") {
		p.next()
		cond = p.namedType()
	}
	dirs := p.directives()
	return p.node("InlineFragment", t.Start, "", one("TypeCondition", cond), dirs, one("SelectionSet", p.selectionSet()))
}

// FragmentDefinition : fragment FragmentName TypeCondition Directives? SelectionSet
// FragmentName : Name but not `on`
func (p *parser) fragmentDefinition() *Node {
	t := p.keyword("fragment")
	if p.atKw("on") {
		p.fail("fragment name")
	}
	nm := p.name()
	p.keyword("on")
	cond := p.namedType()
	dirs := p.directives()
	return p.node("FragmentDefinition", t.Start, "", one("Name", nm), one("TypeCondition", cond), dirs,
		one("SelectionSet", p.selectionSet()))
}

// Arguments : ( Argument+ )      Argument : Name : Value
func (p *parser) arguments() Child {
	return many("Arguments", p.optBlock(ParenL, func() *Node {
		nm := p.name()
		p.expect(Colon)
		return p.node("Argument", nm.Start, "", one("Name", nm), one("Value", p.value(false)))
	}, ParenR))
}

// Directives : Directive+      Directive : @ Name Arguments?
func (p *parser) directives() Child {
	var ds []*Node
	for p.at(At) {
		t := p.next()
		ds = append(ds, p.node("Directive", t.Start, "", one("Name", p.name()), p.arguments()))
	}
	return many("Directives", ds)
}

// Value[Const] : [~Const] Variable | IntValue | FloatValue | StringValue | BooleanValue | EnumValue
//
//	| ListValue[?Const] | ObjectValue[?Const]
func (p *parser) value(isConst bool) *Node {
	t := p.tok()
	item := func() *Node { return p.value(isConst) }
	switch t.Kind {
	case Int, Float, String, BlockString:
		p.next()
		return p.node(leafKinds[t.Kind], t.Start, t.Value)
	case Name: // BooleanValue : true | false      EnumValue : Name but not true, false or null
		if t.Value == "null" {
			break
		}
		p.next()
		if t.Value == "true" || t.Value == "false" {
			return p.node("BooleanValue", t.Start, t.Value)
		}
		return p.node("EnumValue", t.Start, t.Value)
	case Dollar:
		if !isConst {
			return p.variable()
		}
	case BracketL: // ListValue : [ Value* ]
		vals := p.block(BracketL, item, BracketR, false)
		return p.node("ListValue", t.Start, "", many("Values", vals))
	case BraceL: // ObjectValue : { ObjectField* }      ObjectField : Name : Value
		fields := p.block(BraceL, func() *Node {
			nm := p.name()
			p.expect(Colon)
			return p.node("ObjectField", nm.Start, "", one("Name", nm), one("Value", item()))
		}, BraceR, false)
		return p.node("ObjectValue", t.Start, "", many("Fields", fields))
	}
	p.fail("value")
	return nil
}

// Type : NamedType | ListType | NonNullType
// ListType : [ Type ]      NonNullType : NamedType ! | ListType !
func (p *parser) typeRef() *Node {
	p.inType++
	t := p.tok()
	var ty *Node
	switch t.Kind {
	case Name:
		ty = p.namedType()
	case BracketL:
		p.next()
		inner := p.typeRef()
		p.expect(BracketR)
		ty = p.node("List", t.Start, "", one("Type", inner))
	default:
		p.fail("type")
	}
	p.inType--
	if p.skip(Bang) {
		ty = p.node("NonNull", t.Start, "", one("Type", ty))
	}
	return ty
}

// NamedType : Name
func (p *parser) namedType() *Node {
	nm := p.name()
	return p.node("Named", nm.Start, "", one("Name", nm))
}

// SchemaDefinition : schema Directives? { OperationTypeDefinition+ }
// OperationTypeDefinition : OperationType : NamedType
func (p *parser) schemaDefinition() *Node {
	t := p.keyword("schema")
	dirs := p.directives()
	ops := p.block(BraceL, func() *Node {
		if !p.atKw("query") && !p.atKw("mutation") && !p.atKw("subscription") {
			p.fail("operation type")
		}
		op := p.next()
		p.expect(Colon)
		return p.node("OperationTypeDefinition", op.Start, op.Value, one("Type", p.namedType()))
	}, BraceR, true)
	return p.node("SchemaDefinition", t.Start, "", dirs, many("OperationTypes", ops))
}

// FieldDefinition : Description? Name ArgumentsDefinition? : Type Directives?
// ArgumentsDefinition : ( InputValueDefinition+ )
func (p *parser) fieldDefinition() *Node {
	start := p.tok().Start
	desc := one("Description", p.description())
	nm := one("Name", p.name())
	args := p.optBlock(ParenL, p.inputValueDefinition, ParenR)
	p.expect(Colon)
	ty := one("Type", p.typeRef())
	return p.node("FieldDefinition", start, "", desc, nm, many("Arguments", args), ty, p.directives())
}

// InputValueDefinition : Description? Name : Type DefaultValue? Directives?
func (p *parser) inputValueDefinition() *Node {
	start := p.tok().Start
	desc := one("Description", p.description())
	nm := one("Name", p.name())
	p.expect(Colon)
	ty := one("Type", p.typeRef())
	var def *Node
	if p.skip(Equals) {
		def = p.value(true)
	}
	return p.node("InputValueDefinition", start, "", desc, nm, ty, one("DefaultValue", def), p.directives())
}

// EnumValueDefinition : Description? EnumValue Directives?      EnumValue : Name
func (p *parser) enumValueDefinition() *Node {
	start := p.tok().Start
	desc := one("Description", p.description())
	if v := p.tok().Value; Opt.StrictEnumValueNames && p.at(Name) && (v == "true" || v == "false" || v == "null") {
		p.fail("enum value name")
	}
	return p.node("EnumValueDefinition", start, "", desc, one("Name", p.name()), p.directives())
}
