package syn

import (
	"strconv"

	"github.com/graphql-go/graphql/language/ast"
)

// lib builds a Node from a (non-nil) library node.
func lib(n ast.Node, kind, value string, ch ...Child) *Node {
	out := &Node{Kind: kind, Value: value, Children: ch, Ref: n}
	if l := n.GetLoc(); l != nil {
		out.Start, out.End = l.Start, l.End
	}
	return out
}

// libList converts a typed slice of library nodes into a list slot (ast.Selection
// does not embed ast.Node, hence the assertion).
func libList[T any](key string, xs []T) Child {
	var ns []*Node
	for _, x := range xs {
		if n, ok := any(x).(ast.Node); ok || any(x) == nil {
			ns = append(ns, FromLib(n))
		} else {
			ns = append(ns, &Node{Kind: "?", Ref: x})
		}
	}
	return many(key, ns)
}

func libOne(key string, n ast.Node) Child { return one(key, FromLib(n)) }

// FromLibValue converts a library value (nil-safe).
func FromLibValue(v ast.Value) *Node {
	if v == nil {
		return nil
	}
	return FromLib(v)
}

// FromLib converts a library AST into the Node shape the reference parser produces.
// nil interfaces and typed nil pointers give nil; a node type the parser never
// produces (e.g. a struct value instead of a pointer) gives a node of kind
// "?<GetKind()>" so that Diff reports it.
func FromLib(n ast.Node) *Node {
	switch v := n.(type) {
	case nil:
		return nil
	case *ast.Name:
		if v != nil {
			return lib(v, "Name", v.Value)
		}
	case *ast.Document:
		if v != nil {
			return lib(v, "Document", "", libList("Definitions", v.Definitions))
		}
	case *ast.OperationDefinition:
		if v != nil {
			return lib(v, "OperationDefinition", v.Operation, libOne("Name", v.Name),
				libList("VariableDefinitions", v.VariableDefinitions), libList("Directives", v.Directives),
				libOne("SelectionSet", v.SelectionSet))
		}
	case *ast.VariableDefinition:
		if v != nil {
			return lib(v, "VariableDefinition", "", libOne("Variable", v.Variable), libOne("Type", v.Type),
				libOne("DefaultValue", v.DefaultValue))
		}
	case *ast.Variable:
		if v != nil {
			return lib(v, "Variable", "", libOne("Name", v.Name))
		}
	case *ast.SelectionSet:
		if v != nil {
			return lib(v, "SelectionSet", "", libList("Selections", v.Selections))
		}
	case *ast.Field:
		if v != nil {
			return lib(v, "Field", "", libOne("Alias", v.Alias), libOne("Name", v.Name),
				libList("Arguments", v.Arguments), libList("Directives", v.Directives),
				libOne("SelectionSet", v.SelectionSet))
		}
	case *ast.Argument:
		if v != nil {
			return lib(v, "Argument", "", libOne("Name", v.Name), libOne("Value", v.Value))
		}
	case *ast.FragmentSpread:
		if v != nil {
			return lib(v, "FragmentSpread", "", libOne("Name", v.Name), libList("Directives", v.Directives))
		}
	case *ast.InlineFragment:
		if v != nil {
			return lib(v, "InlineFragment", "", libOne("TypeCondition", v.TypeCondition),
				libList("Directives", v.Directives), libOne("SelectionSet", v.SelectionSet))
		}
	case *ast.FragmentDefinition:
		if v != nil {
			return lib(v, "FragmentDefinition", "", libOne("Name", v.Name), libOne("TypeCondition", v.TypeCondition),
				libList("Directives", v.Directives), libOne("SelectionSet", v.SelectionSet))
		}
	case *ast.IntValue:
		if v != nil {
			return lib(v, "IntValue", v.Value)
		}
	case *ast.FloatValue:
		if v != nil {
			return lib(v, "FloatValue", v.Value)
		}
	case *ast.StringValue:
		if v != nil {
			return lib(v, "StringValue", v.Value)
		}
	case *ast.BooleanValue:
		if v != nil {
			return lib(v, "BooleanValue", strconv.FormatBool(v.Value))
		}
	case *ast.EnumValue:
		if v != nil {
			return lib(v, "EnumValue", v.Value)
		}
	case *ast.ListValue:
		if v != nil {
			return lib(v, "ListValue", "", libList("Values", v.Values))
		}
	case *ast.ObjectValue:
		if v != nil {
			return lib(v, "ObjectValue", "", libList("Fields", v.Fields))
		}
	case *ast.ObjectField:
		if v != nil {
			return lib(v, "ObjectField", "", libOne("Name", v.Name), libOne("Value", v.Value))
		}
	case *ast.Directive:
		if v != nil {
			return lib(v, "Directive", "", libOne("Name", v.Name), libList("Arguments", v.Arguments))
		}
	case *ast.Named:
		if v != nil {
			return lib(v, "Named", "", libOne("Name", v.Name))
		}
	case *ast.List:
		if v != nil {
			return lib(v, "List", "", libOne("Type", v.Type))
		}
	case *ast.NonNull:
		if v != nil {
			return lib(v, "NonNull", "", libOne("Type", v.Type))
		}
	case *ast.SchemaDefinition:
		if v != nil {
			return lib(v, "SchemaDefinition", "", libList("Directives", v.Directives),
				libList("OperationTypes", v.OperationTypes))
		}
	case *ast.OperationTypeDefinition:
		if v != nil {
			return lib(v, "OperationTypeDefinition", v.Operation, libOne("Type", v.Type))
		}
	case *ast.ScalarDefinition:
		if v != nil {
			return lib(v, "ScalarDefinition", "", libOne("Description", v.Description), libOne("Name", v.Name),
				libList("Directives", v.Directives))
		}
	case *ast.ObjectDefinition:
		if v != nil {
			return lib(v, "ObjectDefinition", "", libOne("Description", v.Description), libOne("Name", v.Name),
				libList("Interfaces", v.Interfaces), libList("Directives", v.Directives), libList("Fields", v.Fields))
		}
	case *ast.FieldDefinition:
		if v != nil {
			return lib(v, "FieldDefinition", "", libOne("Description", v.Description), libOne("Name", v.Name),
				libList("Arguments", v.Arguments), libOne("Type", v.Type), libList("Directives", v.Directives))
		}
	case *ast.InputValueDefinition:
		if v != nil {
			return lib(v, "InputValueDefinition", "", libOne("Description", v.Description), libOne("Name", v.Name),
				libOne("Type", v.Type), libOne("DefaultValue", v.DefaultValue), libList("Directives", v.Directives))
		}
	case *ast.InterfaceDefinition:
		if v != nil {
			return lib(v, "InterfaceDefinition", "", libOne("Description", v.Description), libOne("Name", v.Name),
				libList("Directives", v.Directives), libList("Fields", v.Fields))
		}
	case *ast.UnionDefinition:
		if v != nil {
			return lib(v, "UnionDefinition", "", libOne("Description", v.Description), libOne("Name", v.Name),
				libList("Directives", v.Directives), libList("Types", v.Types))
		}
	case *ast.EnumDefinition:
		if v != nil {
			return lib(v, "EnumDefinition", "", libOne("Description", v.Description), libOne("Name", v.Name),
				libList("Directives", v.Directives), libList("Values", v.Values))
		}
	case *ast.EnumValueDefinition:
		if v != nil {
			return lib(v, "EnumValueDefinition", "", libOne("Description", v.Description), libOne("Name", v.Name),
				libList("Directives", v.Directives))
		}
	case *ast.InputObjectDefinition:
		if v != nil {
			return lib(v, "InputObjectDefinition", "", libOne("Description", v.Description), libOne("Name", v.Name),
				libList("Directives", v.Directives), libList("Fields", v.Fields))
		}
	case *ast.TypeExtensionDefinition:
		if v != nil {
			return lib(v, "TypeExtensionDefinition", "", libOne("Definition", v.Definition))
		}
	case *ast.DirectiveDefinition:
		if v != nil {
			return lib(v, "DirectiveDefinition", "", libOne("Description", v.Description), libOne("Name", v.Name),
				libList("Arguments", v.Arguments), libList("Locations", v.Locations))
		}
	default:
		return &Node{Kind: "?" + n.GetKind(), Ref: n}
	}
	return nil // typed nil pointer
}
