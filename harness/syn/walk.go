package syn

// Reference AST traversal (DESIGN §3.5): a plain recursive walk producing the event list a
// visitor must observe under a given policy. Independent of the library's visitor.

// WalkEvent is one enter/leave notification.
type WalkEvent struct {
	Phase     string // "enter" / "leave"
	Node      *Node
	Key       interface{}   // struct field name (string), slice index (int), nil for the root
	Parent    *Node         // the node that directly holds Node; nil when Node sits in a slice or is the root
	Ancestors []*Node       // containers above Parent, outermost first; slices and "above the root" appear as nil
	Path      []interface{} // keys from the root (only meaningful on enter)
	Index     int           // pre-order index of Node in the whole tree
}

// Policy decides what a callback returns for (pre-order index, phase): "", "SKIP" or "BREAK".
type Policy func(index int, phase string, n *Node) string

// Preorder numbers the nodes reachable through non-Description slots in document order.
func Preorder(root *Node) map[*Node]int {
	idx := map[*Node]int{}
	var rec func(n *Node)
	rec = func(n *Node) {
		idx[n] = len(idx)
		for _, c := range n.Children {
			if c.Key == "Description" {
				continue
			}
			for _, ch := range c.Nodes {
				if ch != nil {
					rec(ch)
				}
			}
		}
	}
	if root != nil {
		rec(root)
	}
	return idx
}

// RefWalk returns the events of a traversal of root under policy. observe(kind, phase) says
// whether the visitor has a callback for that kind and phase at all (nil = all).
func RefWalk(root *Node, policy Policy, observe func(kind, phase string) bool) []WalkEvent {
	return RefWalkKeys(root, policy, observe, nil)
}

// RefWalkKeys is RefWalk under a custom key map: allowed[kind][key] says which child slots of a node of that kind
// are visited (a kind without an entry has no children); nil = every slot.
func RefWalkKeys(root *Node, policy Policy, observe func(kind, phase string) bool, allowed map[string]map[string]bool) []WalkEvent {
	var events []WalkEvent
	idx := Preorder(root)
	stopped := false
	var rec func(n *Node, key interface{}, parent *Node, ancestors []*Node, path []interface{})
	rec = func(n *Node, key interface{}, parent *Node, ancestors []*Node, path []interface{}) {
		if stopped {
			return
		}
		action := ""
		if observe == nil || observe(n.Kind, "enter") {
			events = append(events, WalkEvent{Phase: "enter", Node: n, Key: key, Parent: parent,
				Ancestors: append([]*Node(nil), ancestors...), Path: append([]interface{}(nil), path...), Index: idx[n]})
			action = policy(idx[n], "enter", n)
		}
		if action == "BREAK" {
			stopped = true
			return
		}
		if action == "SKIP" {
			return
		}
		for _, c := range n.Children {
			if c.Key == "Description" || stopped {
				continue
			}
			if allowed != nil && !allowed[n.Kind][c.Key] {
				continue
			}
			if !c.List {
				if len(c.Nodes) == 1 && c.Nodes[0] != nil {
					rec(c.Nodes[0], c.Key, n, append(append([]*Node(nil), ancestors...), parent), append(append([]interface{}(nil), path...), c.Key))
				}
				continue
			}
			for i, ch := range c.Nodes {
				if ch == nil || stopped {
					continue
				}
				rec(ch, i, nil, append(append([]*Node(nil), ancestors...), parent, n), append(append([]interface{}(nil), path...), c.Key, i))
			}
		}
		if stopped {
			return
		}
		if observe == nil || observe(n.Kind, "leave") {
			events = append(events, WalkEvent{Phase: "leave", Node: n, Key: key, Parent: parent,
				Ancestors: append([]*Node(nil), ancestors...), Index: idx[n]})
			if policy(idx[n], "leave", n) == "BREAK" {
				stopped = true
			}
		}
	}
	if root != nil {
		rec(root, nil, nil, nil, nil)
	}
	return events
}
