// Package syn holds the syntax-level machinery that is independent of the library:
// a generic syntax tree (Node), a reference lexer and parser for the grammar the
// library documents (DESIGN.md §3.1), a renderer with layout knobs, and generators.
// Only conv.go imports the library (to convert its AST into Node for comparison).
package syn

import (
	"fmt"
	"strings"
)

// Node is a generic syntax-tree node. Kind uses the library's kind names
// ("Document", "OperationDefinition", "Field", "Name", "IntValue", ...), children are
// held in the order of the grammar under the key names of the library's struct fields
// (the same names visitor.QueryDocumentKeys uses), so the tree can be compared with the
// library's AST and walked by the reference visitor.
type Node struct {
	Kind  string
	Start int // byte offset of the first byte of the node's source text
	End   int // byte offset one past the last byte
	// Value: Name → the name; IntValue/FloatValue → literal text; StringValue → decoded
	// value; BooleanValue → "true"/"false"; EnumValue → the name;
	// OperationDefinition → "query"/"mutation"/"subscription";
	// OperationTypeDefinition → operation; everything else "".
	Value string
	// Children in grammar order. A missing optional single child is present with
	// Nodes == nil (so keys line up); List children have List == true.
	Children []Child
	// Ref is the library node this Node was converted from (nil for reference trees).
	Ref interface{}
}

type Child struct {
	Key   string
	List  bool
	Nodes []*Node
}

// Get returns the child slot with the given key (nil if the kind has no such key).
func (n *Node) Get(key string) *Child {
	for i := range n.Children {
		if n.Children[i].Key == key {
			return &n.Children[i]
		}
	}
	return nil
}

// One returns the single node under key, or nil.
func (n *Node) One(key string) *Node {
	c := n.Get(key)
	if c == nil || len(c.Nodes) == 0 {
		return nil
	}
	return c.Nodes[0]
}

// Many returns the node list under key.
func (n *Node) Many(key string) []*Node {
	c := n.Get(key)
	if c == nil {
		return nil
	}
	return c.Nodes
}

// Dump renders the tree as an S-expression; withLoc adds byte spans.
func (n *Node) Dump(withLoc bool) string {
	var sb strings.Builder
	n.dump(&sb, withLoc)
	return sb.String()
}

func (n *Node) dump(sb *strings.Builder, withLoc bool) {
	if n == nil {
		sb.WriteString("nil")
		return
	}
	sb.WriteString("(")
	sb.WriteString(n.Kind)
	if withLoc {
		fmt.Fprintf(sb, "@%d-%d", n.Start, n.End)
	}
	if n.Value != "" || n.Kind == "StringValue" {
		fmt.Fprintf(sb, " %q", n.Value)
	}
	for _, c := range n.Children {
		if len(c.Nodes) == 0 {
			continue
		}
		sb.WriteString(" ")
		sb.WriteString(c.Key)
		sb.WriteString(":")
		if c.List {
			sb.WriteString("[")
		}
		for i, ch := range c.Nodes {
			if i > 0 {
				sb.WriteString(" ")
			}
			ch.dump(sb, withLoc)
		}
		if c.List {
			sb.WriteString("]")
		}
	}
	sb.WriteString(")")
}

// Diff returns "" when a and b are structurally equal (kinds, values, child keys and
// order; spans too when withLoc), else a description of the first difference.
func Diff(a, b *Node, withLoc bool) string {
	return diff(a, b, withLoc, "$")
}

func diff(a, b *Node, withLoc bool, path string) string {
	if a == nil || b == nil {
		if a == nil && b == nil {
			return ""
		}
		return fmt.Sprintf("%s: one side nil: %s vs %s", path, a.Dump(false), b.Dump(false))
	}
	if a.Kind != b.Kind {
		return fmt.Sprintf("%s: kind %s vs %s", path, a.Kind, b.Kind)
	}
	if a.Value != b.Value {
		return fmt.Sprintf("%s(%s): value %q vs %q", path, a.Kind, a.Value, b.Value)
	}
	if withLoc && (a.Start != b.Start || a.End != b.End) {
		return fmt.Sprintf("%s(%s): span %d-%d vs %d-%d", path, a.Kind, a.Start, a.End, b.Start, b.End)
	}
	if len(a.Children) != len(b.Children) {
		return fmt.Sprintf("%s(%s): %d child slots vs %d", path, a.Kind, len(a.Children), len(b.Children))
	}
	for i := range a.Children {
		ca, cb := a.Children[i], b.Children[i]
		if ca.Key != cb.Key {
			return fmt.Sprintf("%s(%s): slot %d key %s vs %s", path, a.Kind, i, ca.Key, cb.Key)
		}
		if len(ca.Nodes) != len(cb.Nodes) {
			return fmt.Sprintf("%s.%s: %d nodes vs %d", path, ca.Key, len(ca.Nodes), len(cb.Nodes))
		}
		for j := range ca.Nodes {
			if d := diff(ca.Nodes[j], cb.Nodes[j], withLoc, fmt.Sprintf("%s.%s[%d]", path, ca.Key, j)); d != "" {
				return d
			}
		}
	}
	return ""
}

// Walk calls f for n and every descendant in document order (pre-order).
func Walk(n *Node, f func(*Node)) {
	if n == nil {
		return
	}
	f(n)
	for _, c := range n.Children {
		for _, ch := range c.Nodes {
			Walk(ch, f)
		}
	}
}
