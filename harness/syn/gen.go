package syn

import (
	"fmt"
	"strings"

	"pgregory.net/rapid"

	"verif/rnd"
)

// Sentence generator: derives token sequences from the grammar of DESIGN §3.1 (every
// production, unbounded nesting with decaying probability) and renders them under a
// hostile layout. The reference parser is the oracle for what the tokens mean.

type sgen struct {
	t     *rapid.T
	toks  []string
	depth int
	names []string // optional vocabulary override (all Name positions)
}

func (g *sgen) emit(s ...string)        { g.toks = append(g.toks, s...) }
func (g *sgen) chance(p int) bool       { return rnd.Chance(g.t, p, "c") }
func (g *sgen) n(lo, hi int) int        { return rnd.Intn(g.t, lo, hi, "n") }
func (g *sgen) pick(xs []string) string { return xs[rnd.Uniform(g.t, len(xs), "p")] }
func (g *sgen) deeper(p int) bool       { return g.depth < 6 && g.chance(p) }

var names = []string{"a", "b", "foo", "_x", "A1", "on", "query", "mutation", "subscription", "fragment", "true", "false", "null",
	"type", "extend", "implements", "enum", "input", "interface", "union", "scalar", "schema", "directive", "__typename", "Int", "String", "T"}

var plainNames = []string{"a", "b", "foo", "_x", "A1", "T", "Int", "String", "__typename", "query", "type", "input", "schema", "extend"}

// HostileStrings are string contents that stress escapes, quoting and Unicode handling.
var HostileStrings = []string{"", "s", "hello world", `q"uote`, `back\slash`, "tab\there", "line\nbreak", "cr\rhere", "\b\f", "\u0007bell", "\u007fdel",
	"\u0000nul", "\u001fus", "ünï", "世界", "\U0001F600", " ls", "\ufeffbom", "\ufffd", "/slash", `"""`, `trailing"`, `\"""`, "  lead", "trail  ", "#nocomment", "a,b]c}", `A`, "\u0085nel", "100%", "%s %d %v", "100%% sure", "%!v(MISSING)", "50%x"}

func (g *sgen) name() string { return g.anyName() }
func (g *sgen) anyName() string {
	if len(g.names) > 0 {
		return g.pick(g.names)
	}
	return g.pick(names)
}
func (g *sgen) fragName() string { // Name but not on
	for {
		n := g.anyName()
		if n != "on" {
			return n
		}
	}
}
func (g *sgen) enumName() string {
	for {
		n := g.anyName()
		if n != "true" && n != "false" && n != "null" {
			return n
		}
	}
}

// StringToken spells a quoted string literal for the value s, choosing among the escape
// forms the grammar offers for each character.
func (g *sgen) stringToken(s string) string {
	var sb strings.Builder
	sb.WriteByte('"')
	for _, r := range s {
		switch {
		case r == '"':
			sb.WriteString(`\"`)
		case r == '\\':
			sb.WriteString(`\\`)
		case r == '\n':
			sb.WriteString(`\n`)
		case r == '\r':
			sb.WriteString(`\r`)
		case r == '\t':
			if g.chance(50) {
				sb.WriteString("\t")
			} else {
				sb.WriteString(`\t`)
			}
		case r == '\b':
			sb.WriteString(`\b`)
		case r == '\f':
			sb.WriteString(`\f`)
		case r == '/':
			if g.chance(50) {
				sb.WriteString(`\/`)
			} else {
				sb.WriteString("/")
			}
		case r < 0x20:
			fmt.Fprintf(&sb, `\u%04x`, r)
		case r < 0x10000 && g.chance(15):
			if g.chance(50) {
				fmt.Fprintf(&sb, `\u%04X`, r)
			} else {
				fmt.Fprintf(&sb, `\u%04x`, r)
			}
		default:
			sb.WriteRune(r)
		}
	}
	sb.WriteByte('"')
	return sb.String()
}

var blockBodies = []string{"", "x", "simple text", "\n  indented\n    more\n  back\n", "first\n  second\n  third", "  first indented\n  second", "a\n\n\n  b\n \n  c",
	"with \\\"\"\" escaped", "quote\" inside", "two\"\" inside", "\r\n  crlf\r\n  lines\r\n", "\r  cr\r  only", "tab\n\tindent\n\t\ttwo", "ünï\n  世界",
	"back\\slash \\n not escape", "   \n   \n  only blank start\n   ", "trailing space  \n  x", "ab\n  c", "\n   a\n \n   b", "#not a comment\n  ,", "\\\"\"\"\\\"\"\""}

func (g *sgen) blockToken() string {
	if g.chance(50) {
		return `"""` + g.composeBlock() + `"""`
	}
	return `"""` + g.pick(blockBodies) + `"""`
}

func (g *sgen) stringLit() string {
	if g.chance(25) {
		return g.blockToken()
	}
	if g.chance(50) {
		return g.stringToken(g.composeString())
	}
	return g.stringToken(g.pick(HostileStrings))
}

func (g *sgen) composeString() string { return rnd.ComposeString(g.t) }

var blockPieces = []string{"x", "text here", `\"""`, `"`, `""`, `\`, `\n`, "\u00fcn\u00ef", "#c", "trailing  ", ",", "\U0001F600", "\U000F0000", "\u2028", "\ufeff", "a\tb", "\u007f", "\u0085"}

// composeBlock builds the raw body of a block string from lines with drawn indentation,
// content and line terminators (LF, CRLF, CR), including blank and whitespace-only lines.
func (g *sgen) composeBlock() string {
	var sb strings.Builder
	for i, n := 0, g.n(1, 5); i < n; i++ {
		if i > 0 {
			sb.WriteString(g.pick([]string{"\n", "\n", "\r\n", "\r"}))
		}
		for j, k := 0, g.n(0, 4); j < k; j++ {
			sb.WriteString(g.pick([]string{" ", " ", " ", "\t"}))
		}
		if g.chance(75) {
			sb.WriteString(g.pick(blockPieces))
			if g.chance(30) {
				sb.WriteString(" ")
				sb.WriteString(g.pick(blockPieces))
			}
		}
	}
	body := sb.String()
	// a body ending in a quote or a backslash would run into the closing delimiter
	for strings.HasSuffix(body, `"`) || strings.HasSuffix(body, `\`) {
		body += " z"
	}
	return body
}

var intLits = []string{"0", "-0", "1", "-1", "42", "2147483647", "-2147483648", "2147483648", "9007199254740993", "123456789012345678901234567890"}
var floatLits = []string{"0.0", "-0.0", "1.5", "-1.5e3", "1e10", "1E10", "1e+9", "1E-9", "0.0e-0", "6.02e23", "1.7976931348623157e309", "0e0", "12.000"}

// composeNumber spells a grammatical IntValue (frac = false) or FloatValue from its parts.
func (g *sgen) composeNumber(float bool) string {
	var sb strings.Builder
	if g.chance(35) {
		sb.WriteByte('-')
	}
	digits := func(lo, hi int) {
		for i, n := 0, g.n(lo, hi); i < n; i++ {
			sb.WriteByte(byte('0' + rnd.Uniform(g.t, 10, "digit")))
		}
	}
	if g.chance(25) {
		sb.WriteByte('0')
	} else {
		sb.WriteByte(byte('1' + rnd.Uniform(g.t, 9, "lead")))
		digits(0, []int{0, 2, 9, 11, 20, 40}[rnd.Uniform(g.t, 6, "intLen")])
	}
	if !float {
		return sb.String()
	}
	form := rnd.Uniform(g.t, 3, "floatForm") // fraction, exponent, both
	if form != 1 {
		sb.WriteByte('.')
		digits(1, 6)
	}
	if form != 0 {
		sb.WriteString(g.pick([]string{"e", "E"}))
		sb.WriteString(g.pick([]string{"", "+", "-"}))
		digits(1, 3)
	}
	return sb.String()
}

// almostNumbers are lexemes one step away from a number: most are not tokens at all (the
// reference lexer decides), a few are.
var almostNumbers = []string{"-01", "-00", "-007", "-01.5", "-00e3", "00", "007", "01.5", "1.e3", "-", "-.5", "+1", "1e", "1e-", "1e+", "0x10", "1__0", "-0", "-0.0", "0.0.0",
	"1.5.", "1..5", "--1", "-e1", "0e", "0.", ".0", "1E+-1", "9e999", "-9e999", "1e-999", "0123456789", "-0e0", "0e-0", "00.0", "-00.0"}

func (g *sgen) intLit() string {
	if g.chance(6) {
		return g.pick(almostNumbers)
	}
	if g.chance(50) {
		return g.composeNumber(false)
	}
	return g.pick(intLits)
}

func (g *sgen) floatLit() string {
	if g.chance(50) {
		return g.composeNumber(true)
	}
	return g.pick(floatLits)
}

func (g *sgen) value(isConst bool) {
	g.depth++
	defer func() { g.depth-- }()
	r := rnd.Uniform(g.t, 100, "valueKind")
	switch {
	case r < 12 && !isConst:
		g.emit("$", g.anyName())
	case r < 27:
		g.emit(g.intLit())
	case r < 40:
		g.emit(g.floatLit())
	case r < 58:
		g.emit(g.stringLit())
	case r < 66:
		g.emit(g.pick([]string{"true", "false"}))
	case r < 76:
		g.emit(g.enumName())
	case r < 88 && g.depth < 6:
		g.emit("[")
		for i, n := 0, g.n(0, 3); i < n; i++ {
			g.value(isConst)
		}
		g.emit("]")
	case g.depth < 6:
		g.emit("{")
		for i, n := 0, g.n(0, 3); i < n; i++ {
			g.emit(g.anyName(), ":")
			g.value(isConst)
		}
		g.emit("}")
	default:
		g.emit(g.intLit())
	}
}

func (g *sgen) typeRef() {
	g.depth++
	defer func() { g.depth-- }()
	if g.deeper(30) {
		g.emit("[")
		g.typeRef()
		g.emit("]")
	} else {
		g.emit(g.anyName())
	}
	if g.chance(35) {
		g.emit("!")
	}
}

func (g *sgen) arguments(isConst bool) {
	if !g.chance(35) {
		return
	}
	g.emit("(")
	for i, n := 0, g.n(1, 3); i < n; i++ {
		g.emit(g.anyName(), ":")
		g.value(isConst)
	}
	g.emit(")")
}

func (g *sgen) directives() {
	for i, n := 0, g.n(0, 2); i < n && g.chance(40); i++ {
		g.emit("@", g.anyName())
		g.arguments(false)
	}
}

func (g *sgen) selectionSet() {
	g.depth++
	defer func() { g.depth-- }()
	g.emit("{")
	for i, n := 0, g.n(1, 4); i < n; i++ {
		r := rnd.Uniform(g.t, 100, "selKind")
		switch {
		case r < 65 || g.depth >= 6:
			if g.chance(25) {
				g.emit(g.anyName(), ":")
			}
			g.emit(g.anyName())
			g.arguments(false)
			g.directives()
			if g.deeper(35) {
				g.selectionSet()
			}
		case r < 80:
			g.emit("...", g.fragName())
			g.directives()
		default:
			g.emit("...")
			if g.chance(60) {
				g.emit("on", g.anyName())
			}
			g.directives()
			g.selectionSet()
		}
	}
	g.emit("}")
}

func (g *sgen) operation() {
	if g.chance(25) {
		g.selectionSet()
		return
	}
	g.emit(g.pick([]string{"query", "mutation", "subscription"}))
	if g.chance(60) {
		g.emit(g.anyName())
	}
	if g.chance(40) {
		g.emit("(")
		for i, n := 0, g.n(1, 3); i < n; i++ {
			g.emit("$", g.anyName(), ":")
			g.typeRef()
			if g.chance(35) {
				g.emit("=")
				g.value(true)
			}
		}
		g.emit(")")
	}
	g.directives()
	g.selectionSet()
}

func (g *sgen) fragment() {
	g.emit("fragment", g.fragName(), "on", g.anyName())
	g.directives()
	g.selectionSet()
}

func (g *sgen) description() {
	if g.chance(40) {
		g.emit(g.stringLit())
	}
}

func (g *sgen) argumentDefs() {
	if !g.chance(40) {
		return
	}
	g.emit("(")
	for i, n := 0, g.n(1, 3); i < n; i++ {
		g.inputValueDef()
	}
	g.emit(")")
}

func (g *sgen) inputValueDef() {
	g.description()
	g.emit(g.anyName(), ":")
	g.typeRef()
	if g.chance(35) {
		g.emit("=")
		g.value(true)
	}
	g.directives()
}

func (g *sgen) fieldDefs() {
	g.emit("{")
	for i, n := 0, g.n(0, 3); i < n; i++ {
		g.description()
		g.emit(g.anyName())
		g.argumentDefs()
		g.emit(":")
		g.typeRef()
		g.directives()
	}
	g.emit("}")
}

func (g *sgen) objectDef() {
	g.emit("type", g.anyName())
	if g.chance(40) {
		g.emit("implements")
		if g.chance(30) {
			g.emit("&")
		}
		for i, n := 0, g.n(1, 3); i < n; i++ {
			if i > 0 {
				g.emit("&")
			}
			g.emit(g.anyName())
		}
	}
	g.directives()
	g.fieldDefs()
}

func (g *sgen) typeSystemDef() {
	r := rnd.Uniform(g.t, 100, "tsKind")
	switch {
	case r < 10:
		g.emit("schema")
		g.directives()
		g.emit("{")
		for i, n := 0, g.n(1, 3); i < n; i++ {
			g.emit(g.pick([]string{"query", "mutation", "subscription"}), ":", g.anyName())
		}
		g.emit("}")
	case r < 20:
		g.description()
		g.emit("scalar", g.anyName())
		g.directives()
	case r < 40:
		g.description()
		g.objectDef()
	case r < 50:
		g.description()
		g.emit("interface", g.anyName())
		g.directives()
		g.fieldDefs()
	case r < 60:
		g.description()
		g.emit("union", g.anyName())
		g.directives()
		g.emit("=")
		for i, n := 0, g.n(1, 3); i < n; i++ {
			if i > 0 {
				g.emit("|")
			}
			g.emit(g.anyName())
		}
	case r < 70:
		g.description()
		g.emit("enum", g.anyName())
		g.directives()
		g.emit("{")
		for i, n := 0, g.n(0, 3); i < n; i++ {
			g.description()
			g.emit(g.anyName())
			g.directives()
		}
		g.emit("}")
	case r < 80:
		g.description()
		g.emit("input", g.anyName())
		g.directives()
		g.emit("{")
		for i, n := 0, g.n(0, 3); i < n; i++ {
			g.inputValueDef()
		}
		g.emit("}")
	case r < 88:
		g.emit("extend")
		g.description()
		g.objectDef()
	default:
		g.description()
		g.emit("directive", "@", g.anyName())
		g.argumentDefs()
		g.emit("on")
		for i, n := 0, g.n(1, 3); i < n; i++ {
			if i > 0 {
				g.emit("|")
			}
			g.emit(g.pick([]string{"QUERY", "FIELD", "FRAGMENT_SPREAD", "OBJECT", "a", "on"}))
		}
	}
}

// GenDocumentTokens draws a grammatical token sequence. kind: "exec", "schema" or "mixed".
func GenDocumentTokens(t *rapid.T, kind string) []string { return GenDocumentTokensWith(t, kind, nil) }

// GenDocumentTokensWith is GenDocumentTokens with every Name drawn from vocabulary.
func GenDocumentTokensWith(t *rapid.T, kind string, vocabulary []string) []string {
	g := &sgen{t: t, names: vocabulary}
	for i, n := 0, g.n(1, 4); i < n; i++ {
		ts := kind == "schema" || (kind == "mixed" && g.chance(50))
		switch {
		case ts:
			g.typeSystemDef()
		case g.chance(30):
			g.fragment()
		default:
			g.operation()
		}
	}
	return g.toks
}

// GenValueTokens draws a grammatical value literal (variables allowed).
func GenValueTokens(t *rapid.T) []string {
	g := &sgen{t: t}
	g.value(false)
	return g.toks
}

// Gaps that may be written between two tokens. The first group is always safe; the
// non-ASCII group triggers the known lexer-offset finding when it precedes a Name.
var asciiGaps = []string{" ", "\n", "\r\n", "\r", "\t", ",", "  ", " # comment\n", "#\n", " #c\r", " ,\n ,", "\t\t\n", "# \" not a string\n", "#{}[]()$@!\n"}
var unicodeGaps = []string{"\ufeff", " \ufeff ", "# ünï\n", "# 世界 \U0001F600\n", "\ufeff#\ufeff\n"}

func isPunct(tok string) bool {
	switch tok {
	case "!", "$", "(", ")", "...", ":", "=", "@", "[", "]", "{", "|", "}", "&":
		return true
	}
	return false
}

// Render joins tokens under a drawn layout. unicode=true also draws gaps containing
// multi-byte characters; tight lets adjacent tokens touch where that is lexically safe.
func Render(t *rapid.T, toks []string, unicode bool) string {
	var sb strings.Builder
	mode := rnd.Uniform(t, 4, "layoutMode") // 0: single spaces, 1: mixed gaps, 2: tight, 3: mixed+tight
	gap := func() string {
		if mode == 0 || mode == 2 {
			return " "
		}
		if unicode && rnd.Chance(t, 15, "ug") {
			return unicodeGaps[rnd.Uniform(t, len(unicodeGaps), "ugi")]
		}
		return asciiGaps[rnd.Uniform(t, len(asciiGaps), "gi")]
	}
	if mode != 0 && rnd.Chance(t, 20, "leadGap") {
		sb.WriteString(gap())
	}
	for i, tok := range toks {
		if i > 0 {
			prev := toks[i-1]
			canTouch := (isPunct(prev) || isPunct(tok)) && !(strings.HasPrefix(prev, `"`) && strings.HasPrefix(tok, `"`)) &&
				!(prev == "..." && strings.HasPrefix(tok, ".")) && !(strings.HasSuffix(prev, ".") && tok == "...")
			if !(canTouch && mode >= 2 && rnd.Chance(t, 60, "touch")) {
				sb.WriteString(gap())
			}
		}
		sb.WriteString(tok)
	}
	if mode != 0 && rnd.Chance(t, 30, "trailGap") {
		sb.WriteString(gap())
	}
	return sb.String()
}

// Mutate applies one syntactic mutation to a token sequence / rendered text.
func Mutate(t *rapid.T, toks []string) []string {
	out := append([]string{}, toks...)
	if len(out) == 0 {
		return out
	}
	i := rnd.Uniform(t, len(out), "mutAt")
	alphabet := []string{"!", "$", "(", ")", "...", ":", "=", "@", "[", "]", "{", "|", "}", "&", "a", "on", "1", "1.5", `"s"`, `"""b"""`, "query", "fragment", "type", "true", "null",
		// lexemes that are not tokens, or almost tokens
		"01", "-01", "-007", "-00.5", "1.", ".5", "1e", "1e+", "-", "1.e5", "0x1F", "1_0", "-a", "1a", "1.5.5", "1e5e5", "\u0661", `"unterminated`, `"bad \q escape"`, `"\u12"`, `"\uZZZZ"`, `"\uD83D\uDE00"`, `"""unterminated`, `"""a\"""`,
		"\ufeff", "?", "~", "%", "^", "*", "\u0000", "\u00a0", "\u2026", "..", "....", "\u2028", "$$", "@@", "__", "_", "é"}
	switch rnd.Uniform(t, 5, "mutKind") {
	case 0: // delete
		out = append(out[:i], out[i+1:]...)
	case 1: // insert
		tok := alphabet[rnd.Uniform(t, len(alphabet), "mutTok")]
		out = append(out[:i], append([]string{tok}, out[i:]...)...)
	case 2: // replace
		out[i] = alphabet[rnd.Uniform(t, len(alphabet), "mutTok")]
	case 3: // swap with neighbour
		if i+1 < len(out) {
			out[i], out[i+1] = out[i+1], out[i]
		}
	default: // duplicate
		out = append(out[:i], append([]string{out[i]}, out[i:]...)...)
	}
	return out
}
