package syn

import (
	"fmt"
	"math/rand"
	"os"
	"regexp"
	"sort"
	"strings"
	"testing"

	"github.com/graphql-go/graphql/gqlerrors"
	"github.com/graphql-go/graphql/language/ast"
	libparser "github.com/graphql-go/graphql/language/parser"
	"github.com/graphql-go/graphql/language/source"
)

// libParse runs the library parser on a private copy of src (the library's block
// string lexer writes into the source buffer). pos is the error position, -1 if none.
func libParse(src string) (doc *ast.Document, pos int, msg string) {
	defer func() {
		if r := recover(); r != nil {
			doc, pos, msg = nil, -2, fmt.Sprint("PANIC: ", r)
		}
	}()
	d, err := libparser.Parse(libparser.ParseParams{Source: &source.Source{Body: []byte(src)}})
	return d, errPos(err), errMsg(err)
}

func libParseValue(src string) (v ast.Value, pos int, msg string) {
	defer func() {
		if r := recover(); r != nil {
			v, pos, msg = nil, -2, fmt.Sprint("PANIC: ", r)
		}
	}()
	v, err := libparser.ParseValue(libparser.ParseParams{Source: &source.Source{Body: []byte(src)}})
	return v, errPos(err), errMsg(err)
}

func errPos(err error) int {
	if ge, ok := err.(*gqlerrors.Error); ok && len(ge.Positions) > 0 {
		return ge.Positions[0]
	}
	return -1
}

var reLibMsg = regexp.MustCompile(`^Syntax Error \S* \(\d+:\d+\) ([^\n]*)`)

func errMsg(err error) string {
	if err == nil {
		return ""
	}
	if m := reLibMsg.FindStringSubmatch(err.Error()); m != nil {
		return m[1]
	}
	return err.Error()
}

// (a) the library's own fixtures: identical trees and spans.
func TestKitchenSinks(t *testing.T) {
	for _, f := range []string{"kitchen-sink.graphql", "schema-kitchen-sink.graphql", "schema-all-descriptions.graphql"} {
		b, err := os.ReadFile("/repo/" + f)
		if err != nil {
			t.Fatal(err)
		}
		doc, _, msg := libParse(string(b))
		if doc == nil {
			t.Errorf("%s: library rejects: %s", f, msg)
			continue
		}
		ref, se := ParseDocument(b)
		if se != nil {
			t.Errorf("%s: reference rejects: %v", f, se)
			continue
		}
		if d := Diff(ref, FromLib(doc), true); d != "" {
			t.Errorf("%s: %s", f, d)
		}
		n := 0
		Walk(ref, func(*Node) { n++ })
		t.Logf("%s: %d nodes equal", f, n)
	}
}

// (b) accept / reject table. pos is the expected SyntaxError.Pos (-1: accept).
var table = []struct {
	src string
	pos int
}{
	// documents, operations
	{"{a}", -1}, {"query{a}", -1}, {"query Q{a}", -1}, {"mutation M{a}", -1}, {"subscription{a}", -1},
	{"query Q($a:Int,$b:[Int!]!=[1],$c:T!=E)@d(x:$a)@e{a}", -1}, {"{a}{b}query{c}", -1},
	{"", 0}, {" ,\n#c\n\ufeff", 9}, {"query", 5}, {"query Q", 7}, {"foo{a}", 0}, {"{}", 1}, {"{a", 2}, {"}", 0},
	{"query(){a}", 6}, {"query($a){a}", 8}, {"query($a:){a}", 9}, {"query($a:Int=$b){a}", 13},
	{"query($a:Int @d){a}", 13}, {"query a b{c}", 8},
	// type references
	{"query($a:[[T!]]!){a}", -1}, {"query($a:[Int}){f}", 13}, {"query($a: ]){f}", 10}, {"query($a: ){f}", 10},
	{"query($a:[]){f}", 10}, {"query($a:[Int){f}", 13}, {"query($a:Int!!){f}", 13}, {"query($a:!){f}", 9},
	// selections, fields, arguments, directives
	{"{a:b(x:1,y:$v)@d@e(z:2){c}}", -1}, {"{a,b,,c}", -1}, {"{a(x:1 y:2)}", -1}, {"{query mutation on fragment null true}", -1},
	{"{a:}", 3}, {"{a()}", 3}, {"{a(x)}", 4}, {"{a(x:)}", 5}, {"{a@}", 3}, {"{a@d()}", 5}, {"{a{}}", 3}, {"{:a}", 1}, {"{a:b:c}", 4},
	// fragments
	{"{...f}", -1}, {"{...f@d}", -1}, {"{...on T{a}}", -1}, {"{...@d{a}}", -1}, {"{...{a}}", -1}, {"{...on T@d{a}}", -1},
	{"fragment f on T{a}", -1}, {"fragment f on T@d(a:1){a}", -1}, {"{...}", 4}, {"{...on}", 6}, {"{...on T}", 8},
	{"{...f{a}}", 5}, {"fragment on on T{a}", 9}, {"fragment f T{a}", 11}, {"fragment f on{a}", 13}, {"fragment f($a:Int) on T{a}", 10},
	// values
	{"{a(i:0 j:-0 k:-12 f:1.5 g:1e3 h:-1.5E-3 s:\"x\" b:\"\"\"y\"\"\" t:true u:false e:E l:[] m:[1 [2]] o:{} p:{a:{b:$v}})}", -1},
	{"{a(x:null)}", 5}, {"{a(x:[1)}", 7}, {"{a(x:{a})}", 7}, {"{a(x:{a:})}", 8}, {"{a(x:{1:2})}", 6}, {"{a(x:$)}", 6}, {"{a(x:[$v])}", -1},
	{"query($a:T=[$v]){a}", 12}, {"query($a:T={k:$v}){a}", 14}, {"query($a:T=null){a}", 11},
	// type system
	{"schema{query:Q}", -1}, {"schema@d{query:Q mutation:M subscription:S}", -1}, {"schema{}", 7}, {"schema{foo:Q}", 7},
	{"schema{query:[Q]}", 13}, {"\"d\" schema{query:Q}", 4}, {"scalar S", -1}, {"\"d\" scalar S@d", -1}, {"scalar", 6},
	{"type T{a:Int}", -1}, {"type T{}", -1}, {"type T", 6}, {"\"\"\"d\"\"\"type T implements A&B@d{\"d\"a(\"d\"x:[Int!]=[1]@d,y:T):T!@d b:T}", -1},
	{"type T implements &A{a:T}", -1}, {"type T implements A B{a:T}", 20}, {"type T implements{a:T}", 17}, {"type T implements A&{a:T}", 20},
	{"type T{a()}", 9}, {"type T{a:}", 9}, {"type T{a(x:T=$v):T}", 13}, {"type T{a:[T}", 11}, {"type T{a T}", 9},
	{"interface I{a:T}", -1}, {"\"d\"interface I@d{}", -1}, {"interface I implements J{a:T}", 12},
	{"union U=A", -1}, {"\"d\"union U@d=A|B|C", -1}, {"union U", 7}, {"union U=", 8}, {"union U=|A", 8}, {"union U=A|", 10}, {"union U=[A]", 8},
	{"enum E{A}", -1}, {"enum E{true null}", -1}, {"\"d\"enum E@d{\"d\"A@d B}", -1}, {"enum E{}", -1}, {"enum E", 6}, {"enum E{1}", 7}, {"enum E{A:B}", 8},
	{"input I{a:T}", -1}, {"\"d\"input I@d{\"d\"a:T=1@d b:[T]}", -1}, {"input I{a(x:T):T}", 9}, {"input I{a:T=$v}", 12},
	{"extend type T{a:T}", -1}, {"extend type T@d{}", -1}, {"extend \"d\" type T{a:T}", -1}, {"extend interface I{a:T}", 7},
	{"\"d\"extend type T{a:T}", 3}, {"extend", 6},
	{"directive@d on A", -1}, {"\"d\"directive@d(\"d\"a:T=1@e b:T)on A|B", -1}, {"directive@d on|A", 14}, {"directive@d", 11},
	{"directive@d()on A", 12}, {"directive d on A", 10}, {"directive@d on A|", 17}, {"directive@d on 1", 15},
	{"\"d\"", 3}, {"\"d\"{a}", 3}, {"\"d\"query{a}", 3}, {"\"d\"fragment f on T{a}", 3}, {"\"d\"\"e\"scalar S", 3},
	// lexical
	{"\ufeff{\ufeffa\ufeff}\ufeff", -1}, {"{a#c\u00e9\U0001F600\t\x7f\xff\n}", -1}, {"{a#c\r}#d", -1}, {"{a#\x01\n}", 3}, {"{a\x00}", 2}, {"{a\x7f}", 2},
	{"{a\u00e9}", 2}, {"{a\xff}", 2}, {"{a?}", 2}, {"{a.}", 2}, {"{a..b}", 2}, {"{a....b}", 5}, {"{a%}", 2}, {"{a;b}", 2}, {"{a\\}", 2}, {"{a-}", 2}, {"{a+1}", 2},
	{"{a(x:01)}", 5}, {"{a(x:-)}", 5}, {"{a(x:1.)}", 5}, {"{a(x:.5)}", 5}, {"{a(x:1.e3)}", 5}, {"{a(x:1e)}", 5}, {"{a(x:1e+)}", 5}, {"{a(x:1.2.3)}", 8},
	{"{a(x:00)}", 5}, {"{a(x:-01)}", 5}, {"{a(x:0x1)}", 8}, {"{a(x:1y:2)}", -1}, {"{a(x:1e3_:2)}", -1}, {"{a(x:0e0 y:0.0)}", -1},
	{"{a(x:\"\\\" \\\\ \\/ \\b \\f \\n \\r \\t \\u00e9 \\uD83D \t\u00e9\xff\")}", -1}, {"{a(x:\"\\x\")}", 5}, {"{a(x:\"\\u12G4\")}", 5}, {"{a(x:\"\\u123\")}", 5},
	{"{a(x:\"a\nb\")}", 5}, {"{a(x:\"a\rb\")}", 5}, {"{a(x:\"a\x01b\")}", 5}, {"{a(x:\"abc)}", 5}, {"{a(x:\"\\", 5}, {"{a(x:\"\"\"a\n\r\t\"b\"\"c\\\"\"\"\\n\"\"\")}", -1},
	{"{a(x:\"\"\"\"\"\")}", -1}, {"{a(x:\"\"\"\"a\"\"\")}", -1}, {"{a(x:\"\"\"a\"\"\"\")}", 12}, {"{a(x:\"\"\"a\x01\"\"\")}", 5}, {"{a(x:\"\"\"a\"\")}", 5}, {"{a(x:\"\" \"\")}", 8},
}

func TestTable(t *testing.T) {
	for _, c := range table {
		n, se := ParseDocument([]byte(c.src))
		switch {
		case c.pos < 0 && se != nil:
			t.Errorf("%q: want accept, got %v", c.src, se)
		case c.pos >= 0 && se == nil:
			t.Errorf("%q: want reject at %d, got %s", c.src, c.pos, n.Dump(false))
		case c.pos >= 0 && se.Pos != c.pos:
			t.Errorf("%q: want reject at %d, got %v", c.src, c.pos, se)
		}
		if se != nil && (se.Pos > se.At || se.At > se.End || se.End > len(c.src) || (se.TokenIndex < 0) == strings.HasPrefix(se.Msg, "expected ")) {
			t.Errorf("%q: inconsistent error %+v", c.src, *se)
		}
		if n != nil { // spans nest, are ordered, and lie inside the source
			Walk(n, func(m *Node) {
				prev := m.Start
				for _, ch := range m.Children {
					for _, k := range ch.Nodes {
						if k.Start < prev || k.End > m.End || k.Start >= k.End {
							t.Errorf("%q: bad span %s@%d-%d in %s@%d-%d", c.src, k.Kind, k.Start, k.End, m.Kind, m.Start, m.End)
						}
						prev = k.End
					}
				}
			})
		}
	}
	for _, c := range []struct { // the other readings of the grammar (see Options)
		opt Options
		src string
		pos int
	}{{Options{NonEmptyTypeBodies: true}, "type T{}", 7}, {Options{NonEmptyTypeBodies: true}, "enum E@d{}", 9}, {Options{NonEmptyTypeBodies: true}, "input I{a:T}", -1},
		{Options{LeadingPipe: true}, "union U=|A|B", -1}, {Options{LeadingPipe: true}, "directive@d on|A", -1}, {Options{LeadingPipe: true}, "union U=||A", 9},
		{Options{StrictEnumValueNames: true}, "enum E{A null}", 9}, {Options{StrictEnumValueNames: true}, "enum E{\"d\"true}", 10}} {
		Opt = c.opt
		if _, se := ParseDocument([]byte(c.src)); (se == nil) != (c.pos < 0) || se != nil && se.Pos != c.pos {
			t.Errorf("%+v %q: want %d, got %v", c.opt, c.src, c.pos, se)
		}
		Opt = Options{}
	}
	for _, c := range []struct {
		src    string
		inType bool
	}{{"query($a:[Int}){f}", true}, {"query($a: ]){f}", true}, {"query($a: ){f}", true}, {"type T{a:[T ?", true},
		{"query($a:Int}{f}", false}, {"query($a:Int!!){f}", false}, {"{a(x:[1}", false}, {"union U=[A]", false}} {
		if _, se := ParseDocument([]byte(c.src)); se == nil || se.InTypeRef != c.inType {
			t.Errorf("%q: InTypeRef want %v, got %+v", c.src, c.inType, se)
		}
	}
}

func TestLexValues(t *testing.T) {
	toks, se := Lex([]byte("\ufeffa1 -0 1.5e+3 \"\\u00e9\\uD800\\n\" \"\"\"\n    a\n   \n      b\\\"\"\"\n    \"\"\"...&é"))
	want := []Token{{Name, 3, 5, "a1"}, {Int, 6, 8, "-0"}, {Float, 9, 15, "1.5e+3"}, {String, 16, 32, "\u00e9\ufffd\n"},
		{BlockString, 33, 66, "a\n\n  b\"\"\""}, {Spread, 66, 69, ""}, {Amp, 69, 70, ""}}
	if se == nil || se.Pos != 70 || se.End != 72 || se.TokenIndex != -1 || fmt.Sprint(toks) != fmt.Sprint(want) {
		t.Errorf("Lex: %v %+v", toks, se)
	}
	for raw, want := range map[string]string{
		"": "", "a": "a", "  a  ": "  a  ", "  a\n  b": "  a\nb", "\n  a\n   b\n \n": "a\n b", "a\r\n  b\r  c\n\td": "a\n b\n c\nd",
		"\n\n  a\n\n  b\n  \n\n": "a\n\nb", " \t\n\ta\n": "a", "x\n    a\n  \n    b": "x\na\n\nb"} {
		if got := BlockStringValue(raw); got != want {
			t.Errorf("BlockStringValue(%q) = %q, want %q", raw, got, want)
		}
	}
}

func TestParseValueText(t *testing.T) {
	for _, c := range []struct {
		src, dump string
		pos       int
	}{
		{" [1, $v {a: E}] ", `(ListValue@1-15 Values:[(IntValue@2-3 "1") (Variable@5-7 Name:(Name@6-7 "v")) (ObjectValue@8-14 Fields:[(ObjectField@9-13 Name:(Name@9-10 "a") Value:(EnumValue@12-13 "E"))])])`, -1},
		{`""`, `(StringValue@0-2 "")`, -1}, {"true", `(BooleanValue@0-4 "true")`, -1}, {"$v", `(Variable@0-2 Name:(Name@1-2 "v"))`, -1},
		{"1 2", "", 2}, {"", "", 0}, {"null", "", 0}, {"[1", "", 2}, {"$", "", 1}, {"1 ?", "", 2}, {"{a}", "", 2},
	} {
		n, se := ParseValueText([]byte(c.src))
		if c.pos < 0 && (se != nil || n.Dump(true) != c.dump) || c.pos >= 0 && (se == nil || se.Pos != c.pos) {
			t.Errorf("ParseValueText(%q) = %s, %v", c.src, n.Dump(true), se)
		}
	}
}

func TestFromLibNil(t *testing.T) {
	var nm *ast.Name
	var ty ast.Type
	if FromLib(nil) != nil || FromLib(nm) != nil || FromLibValue(nil) != nil || FromLib(ty) != nil {
		t.Error("nil inputs must give nil")
	}
	n := FromLib(&ast.Field{Name: &ast.Name{Value: "a"}, Directives: []*ast.Directive{nil}})
	if n.Dump(true) != `(Field@0-0 Name:(Name@0-0 "a") Directives:[nil])` || len(n.Children) != 5 {
		t.Error(n.Dump(true))
	}
}

// (c) differential run over random token strings. Disagreements are logged by
// category (run with -v), never failed on.
var (
	alphabet = append(strings.Fields(`! $ ( ) ... : = @ [ ] { | } & a b T Int on query mutation subscription fragment schema scalar
		type interface union enum input extend directive implements true false null 0 1 -1 1.5 1e3 "s" "" """b""" """ 01 1. . ?
		"x "\q" "\u00e9" x\"""`), "\"\"\"\n    x\\\"\"\"\n  \n     y\n  \"\"\"", "\"\"\"  a\n    b\"\"\"", "\"\u00e9\"", "\"a b\"")
	plainSeps = []string{"\n", ",", "\t", "", "", "#c\n", "\r\n", "#c\r"}
	wideSeps  = []string{"#\u00e9\n", "\ufeff", "#\xff\r", "#\U0001F600\n"}                                       // multi-byte, legal
	nastySeps = []string{"\x00", "#\x01\n", "\x7f", "\xff", "\u00e9", "\v", "\f", "\u2028", "\u00a0", "\xef\xbb"} // illegal
	reNum     = regexp.MustCompile(`\d+`)
	reStr     = regexp.MustCompile(`"(\\.|[^"\\])*"|Name \S+`)
)

func sep(r *rand.Rand) string {
	switch k := r.Intn(1000); {
	case k < 600:
		return " "
	case k < 970:
		return plainSeps[r.Intn(len(plainSeps))]
	case k < 995:
		return wideSeps[r.Intn(len(wideSeps))]
	}
	return nastySeps[r.Intn(len(nastySeps))]
}

func lexemes(src string) []string {
	toks, _ := Lex([]byte(src))
	var out []string
	for _, tk := range toks {
		if tk.Kind != EOF {
			out = append(out, src[tk.Start:tk.End])
		}
	}
	return out
}

func randomInput(r *rand.Rand, corpus [][]string) string {
	var toks []string
	if r.Intn(3) == 0 { // pure random token string
		for n := 1 + r.Intn(10); n > 0; n-- {
			toks = append(toks, alphabet[r.Intn(len(alphabet))])
		}
	} else { // a corpus entry with 0-2 token-level mutations
		toks = append(toks, corpus[r.Intn(len(corpus))]...)
		for m := r.Intn(3); m > 0 && len(toks) > 0; m-- {
			i, a := r.Intn(len(toks)), alphabet[r.Intn(len(alphabet))]
			switch r.Intn(4) {
			case 0:
				toks = append(toks[:i], toks[i+1:]...)
			case 1:
				toks[i] = a
			case 2:
				toks = append(toks[:i], append([]string{a}, toks[i:]...)...)
			case 3:
				j := r.Intn(len(toks))
				toks[i], toks[j] = toks[j], toks[i]
			}
		}
	}
	var sb strings.Builder
	for _, tk := range toks {
		sb.WriteString(sep(r))
		sb.WriteString(tk)
	}
	if r.Intn(2) == 0 {
		sb.WriteString(sep(r))
	}
	return sb.String()
}

type tally map[string]*struct {
	n  int
	ex string
}

func (c tally) add(cat, ex string) {
	e := c[cat]
	if e == nil {
		e = &struct {
			n  int
			ex string
		}{ex: ex}
		c[cat] = e
	}
	if e.n++; len(ex) < len(e.ex) {
		e.ex = ex
	}
}

func (c tally) log(t *testing.T) {
	var keys []string
	for k := range c {
		keys = append(keys, k)
	}
	sort.Strings(keys)
	for _, k := range keys {
		t.Logf("%6d  %-90s e.g. %q", c[k].n, k, c[k].ex)
	}
}

var (
	reFound   = regexp.MustCompile(`, found .*|: "?.$|: "\\\\u[0-9A-F]{4}"\.$| IN .*`)
	reLexical = regexp.MustCompile(`^(Unexpected character|Invalid|Unterminated)`)
	rePath    = regexp.MustCompile(`^\$(\.\w+\[\d+\])*`)
)

// generalize strips the input-specific parts of a message or Diff result.
func generalize(s string) string {
	return reNum.ReplaceAllString(reStr.ReplaceAllString(reFound.ReplaceAllString(rePath.ReplaceAllString(s, "$…"), ""), "S"), "N")
}

func wide(s string) bool { return strings.IndexFunc(s, func(r rune) bool { return r >= 0x80 }) >= 0 }

// runeOffsetDefect reports whether src has a multi-byte character in the ignored run
// directly before a Name token: the library then reports that token's offsets in runes
// and resumes lexing at the wrong byte, so anything can follow.
func runeOffsetDefect(src string) bool {
	toks, _ := Lex([]byte(src))
	end := 0
	for _, tk := range toks {
		if tk.Kind == Name && wide(src[end:tk.Start]) {
			return true
		}
		end = tk.End
	}
	return false
}

// classify compares the two verdicts on one input and names the category.
func classify(src string, ref *Node, se *SyntaxError, libNode *Node, libPos int, libMsg string) string {
	pre, known := "", runeOffsetDefect(src)
	if known {
		pre = "[multi-byte char before a Name] "
	}
	switch {
	case libPos == -2:
		return pre + "LIB PANIC: " + generalize(libMsg)
	case se == nil && libNode != nil:
		d := Diff(ref, libNode, false)
		if d == "" {
			if d = Diff(ref, libNode, true); d == "" {
				return pre + "agree: accept"
			}
		}
		if known {
			return pre + "both accept, trees or spans differ"
		}
		return "both accept, differ at " + generalize(d)
	case se != nil && libNode != nil:
		switch {
		case known:
			return pre + "ref rejects, lib ACCEPTS"
		case se.InTypeRef:
			return "ref rejects, lib ACCEPTS: malformed type reference"
		case se.Pos == len(src) && se.TokenIndex == 0:
			return "ref rejects, lib ACCEPTS: empty document"
		}
		return "ref rejects, lib ACCEPTS: ref " + generalize(se.Msg)
	case se == nil:
		return pre + "ref accepts, lib REJECTS: lib " + generalize(libMsg)
	case libPos == se.At || libPos == se.Pos:
		return pre + "agree: reject, same position"
	case known:
		return pre + "both reject, position differs"
	case strings.HasPrefix(libMsg, "Unexpected empty IN"):
		return "agree: reject, lib points at the opener of an empty list, ref at the closer"
	case libPos > se.Pos && se.InTypeRef:
		return "both reject, lib later: it first accepts a malformed type reference"
	case libPos > se.Pos && se.TokenIndex >= 0 && reLexical.MatchString(libMsg):
		return "both reject, lib later: lib lexes the next token before it checks the current one (empty list, operation type) and the next lexeme is malformed"
	case libPos < se.Pos && se.TokenIndex < 0 && strings.HasSuffix(libMsg, "found &"):
		return "both reject, lib earlier: lexical error after `implements &` is swallowed (skip() result ignored), lib blames the '&'"
	case libPos < se.Pos && strings.Contains(libMsg, "String") && strings.HasPrefix(se.Msg, "expected definition"):
		return "both reject, lib earlier: description before schema/extend/operation/fragment, lib blames the string, ref the keyword"
	case wide(src[:min(len(src), max(se.End, libPos))]):
		return "both reject, position differs: multi-byte char before the error, lib reports rune offsets"
	}
	return fmt.Sprintf("both reject, position differs (lib %+d): ref %s / lib %s", libPos-se.Pos, generalize(se.Msg), generalize(libMsg))
}

func TestDifferentialRandom(t *testing.T) {
	r := rand.New(rand.NewSource(20260923))
	var corpus [][]string
	for _, c := range table {
		if l := lexemes(c.src); len(l) > 0 {
			corpus = append(corpus, l)
		}
	}
	for _, f := range []string{"kitchen-sink.graphql", "schema-kitchen-sink.graphql", "schema-all-descriptions.graphql"} {
		b, _ := os.ReadFile("/repo/" + f)
		for _, def := range regexp.MustCompile(`\n\n+`).Split(string(b), -1) { // one corpus entry per paragraph
			if l := lexemes(def); len(l) > 0 {
				corpus = append(corpus, l)
			}
		}
	}
	docs, vals := tally{}, tally{}
	for i := 0; i < 50000; i++ {
		src := randomInput(r, corpus)
		ref, se := ParseDocument([]byte(src))
		doc, pos, msg := libParse(src)
		var ln *Node
		if doc != nil {
			ln = FromLib(doc)
		}
		docs.add(classify(src, ref, se, ln, pos, msg), src)
		if ref2, se2 := ParseDocument([]byte(src)); Diff(ref, ref2, true) != "" || (se == nil) != (se2 == nil) || se != nil && *se != *se2 {
			t.Fatalf("reference not deterministic on %q", src)
		}
	}
	for i := 0; i < 10000; i++ {
		var toks []string
		for n := 1 + r.Intn(6); n > 0; n-- {
			toks = append(toks, alphabet[r.Intn(len(alphabet))])
		}
		src := strings.Join(toks, sep(r))
		ref, se := ParseValueText([]byte(src))
		v, pos, msg := libParseValue(src)
		var ln *Node
		if pos == -1 {
			ln = FromLibValue(v)
		}
		vals.add(classify(src, ref, se, ln, pos, msg), src)
	}
	t.Log("---- ParseDocument vs parser.Parse")
	docs.log(t)
	t.Log("---- ParseValueText vs parser.ParseValue")
	vals.log(t)
}
