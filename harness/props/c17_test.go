package props

import (
	"context"
	"errors"
	"fmt"
	"strings"
	"sync"
	"testing"

	"github.com/graphql-go/graphql"
	"github.com/graphql-go/graphql/gqlerrors"
	"pgregory.net/rapid"

	"verif/build"
	"verif/gen"
	"verif/ref"
	"verif/stats"
)

// C17 — extension hooks are balanced, ordered and fault-isolated.

var c17Hooks = []string{"Init", "ParseDidStart", "ParseFinish", "ValidationDidStart", "ValidationFinish", "ExecutionDidStart", "ExecutionFinish",
	"ResolveFieldDidStart", "ResolveFieldFinish", "HasResult", "GetResult"}

type ExtSpec struct {
	Name string `json:"name"`
	// Policy: hook → "" (ok) | panic_err | panic_str | panic_int | panic_struct, optionally "@<path>":
	// the resolve hooks then panic only for the field at that response path
	Policy    map[string]string `json:"policy,omitempty"`
	HasResult bool              `json:"hasResult"`
}

type ExtCase struct {
	Exts    []ExtSpec `json:"exts"`
	Request string    `json:"request"`
	Vars    string    `json:"vars,omitempty"`
	Class   string    `json:"class"` // syntax | validation | variables | field_errors | success
	// Entry: "" = Do. "plan" / "cache": the request is planned (PlanQuery / a PlanCache miss) while only the first
	// len(Exts)-Late extensions are registered, the others are added with Schema.AddExtensions afterwards, and then the
	// stored plan is executed (ExecutePlan / after a cache hit). Only the execution phases exist on that path.
	Entry string `json:"entry,omitempty"`
	Late  int    `json:"late,omitempty"`
}

type extEvent struct {
	Ext, Hook string
	Detail    string
}

type extLog struct {
	mu     sync.Mutex
	events []extEvent
}

func (l *extLog) add(ext, hook, detail string) {
	l.mu.Lock()
	l.events = append(l.events, extEvent{ext, hook, detail})
	l.mu.Unlock()
}

type probeExt struct {
	spec *ExtSpec
	log  *extLog
}

type weird struct{ A, B int }

// panicKind is the kind of panic the policy prescribes for this call of the hook ("" = none).
func (x *ExtSpec) panicKind(hook, detail string) string {
	pol := x.Policy[hook]
	if i := strings.Index(pol, "@"); i >= 0 {
		path := detail
		if j := strings.Index(path, " "); j >= 0 {
			path = path[:j]
		}
		if path != pol[i+1:] {
			return ""
		}
		return pol[:i]
	}
	return pol
}

func (e *probeExt) hook(name, detail string) {
	e.log.add(e.spec.Name, name, detail)
	switch e.spec.panicKind(name, detail) {
	case "panic_err":
		panic(errors.New("boom-" + e.spec.Name + "-" + name))
	case "panic_str":
		panic("boom-" + e.spec.Name + "-" + name)
	case "panic_int":
		panic(42)
	case "panic_struct":
		panic(weird{1, 2})
	}
}

func (e *probeExt) Init(ctx context.Context, p *graphql.Params) context.Context {
	e.hook("Init", "")
	return ctx
}
func (e *probeExt) Name() string { return e.spec.Name }
func (e *probeExt) ParseDidStart(ctx context.Context) (context.Context, graphql.ParseFinishFunc) {
	e.hook("ParseDidStart", "")
	return ctx, func(err error) { e.hook("ParseFinish", fmt.Sprint(err != nil)) }
}
func (e *probeExt) ValidationDidStart(ctx context.Context) (context.Context, graphql.ValidationFinishFunc) {
	e.hook("ValidationDidStart", "")
	return ctx, func(errs []gqlerrors.FormattedError) { e.hook("ValidationFinish", fmt.Sprint(len(errs) > 0)) }
}
func (e *probeExt) ExecutionDidStart(ctx context.Context) (context.Context, graphql.ExecutionFinishFunc) {
	e.hook("ExecutionDidStart", "")
	return ctx, func(r *graphql.Result) {
		d := "nil"
		if r != nil {
			d = fmt.Sprintf("data=%v errors=%d", r.Data != nil, len(r.Errors))
		}
		e.hook("ExecutionFinish", d)
	}
}
func (e *probeExt) ResolveFieldDidStart(ctx context.Context, i *graphql.ResolveInfo) (context.Context, graphql.ResolveFieldFinishFunc) {
	path := ref.PathKey(i.Path.AsArray())
	e.hook("ResolveFieldDidStart", path)
	return ctx, func(v interface{}, err error) {
		e.hook("ResolveFieldFinish", fmt.Sprintf("%s err=%v", path, err != nil))
	}
}
func (e *probeExt) HasResult() bool {
	e.hook("HasResult", "")
	return e.spec.HasResult
}
func (e *probeExt) GetResult(ctx context.Context) interface{} {
	e.hook("GetResult", "")
	return map[string]interface{}{"ext": e.spec.Name}
}

var c17Requests = map[string][]string{
	"syntax":       {`{ a `, `query {`, `{ a(x: ) }`},
	"validation":   {`{ nope }`, `{ o }`, `{ a @skip }`},
	"variables":    {`query($v: Int!){ req(r: $v) }`, `query($v: N!){ n(x: $v) }`},
	"field_errors": {`{ a nn }`, `{ o { a nn } f }`, `{ l { nn } a }`},
	"success":      {`{ a }`, `{ a b int id f }`, `{ o { a x(y: 1) } e }`, `{ self { self { a } } }`, `{ __typename }`},
}

func c17Oracle(c *ExtCase) string {
	log := &extLog{}
	var exts []graphql.Extension
	for i := range c.Exts {
		exts = append(exts, &probeExt{spec: &c.Exts[i], log: log})
	}
	m := kitchenModel()
	w := &ref.World{S: m, Salt: 7, Outcomes: map[string]ref.Outcome{"nn": {Kind: "err"}, "o/nn": {Kind: "panic_err"}, "l/0/nn": {Kind: "err"}, "f": {Kind: "valerr"}}}
	early := exts
	if c.Entry != "" {
		early = exts[:len(exts)-c.Late]
	}
	b, err := build.New(m, w, build.Options{Extensions: early})
	if err != nil {
		return "HARNESS: " + err.Error()
	}
	sess := &build.Session{W: w}
	ctx := build.WithSession(context.Background(), sess)
	var res *graphql.Result
	escaped := ""
	func() {
		defer func() {
			if r := recover(); r != nil {
				escaped = fmt.Sprint(r)
			}
		}()
		switch c.Entry {
		case "":
			res = graphql.Do(graphql.Params{Schema: b.Schema, RequestString: c.Request, Context: ctx})
		case "plan":
			doc, perr := parseText(c.Request)
			if perr != nil {
				res = &graphql.Result{Errors: gqlerrors.FormatErrors(perr)}
				return
			}
			if vr := graphql.ValidateDocument(&b.Schema, doc, nil); !vr.IsValid {
				res = &graphql.Result{Errors: vr.Errors}
				return
			}
			plan, err := graphql.PlanQuery(&b.Schema, doc, "")
			if err != nil {
				res = &graphql.Result{Errors: gqlerrors.FormatErrors(err)}
				return
			}
			log.events = nil // what happened before the plan existed is not part of this execution
			b.Schema.AddExtensions(exts[len(early):]...)
			res = graphql.ExecutePlan(plan, graphql.ExecuteParams{Schema: b.Schema, Context: ctx})
		case "cache":
			pc := graphql.NewPlanCache(graphql.PlanCacheOptions{})
			if pr := pc.Get(&b.Schema, c.Request, ""); pr.Plan == nil {
				res = &graphql.Result{Errors: pr.Errors}
				return
			}
			log.events = nil
			b.Schema.AddExtensions(exts[len(early):]...)
			pr := pc.Get(&b.Schema, c.Request, "")
			if pr.Plan == nil {
				res = &graphql.Result{Errors: pr.Errors}
				return
			}
			res = graphql.ExecutePlan(pr.Plan, graphql.ExecuteParams{Schema: b.Schema, Context: ctx})
		}
	}()
	dump := func() string {
		var sb strings.Builder
		for _, e := range log.events {
			fmt.Fprintf(&sb, "%s.%s(%s) ", e.Ext, e.Hook, e.Detail)
		}
		return sb.String()
	}
	if escaped != "" {
		return fmt.Sprintf("a panic escaped Do: %s\n  events: %s", escaped, dump())
	}
	if res == nil {
		return "Do returned nil"
	}
	// which hooks panicked (were reached with a panicking policy)
	panicked := map[string]bool{}
	for _, e := range log.events {
		for i := range c.Exts {
			if c.Exts[i].Name == e.Ext && c.Exts[i].panicKind(e.Hook, e.Detail) != "" {
				panicked[e.Ext+"."+e.Hook] = true
			}
		}
	}
	for k := range panicked {
		ext := k[:strings.Index(k, ".")]
		found := false
		for _, e := range res.Errors {
			if strings.Contains(e.Message, ext) {
				found = true
			}
		}
		if !found {
			return fmt.Sprintf("hook %s panicked but no error in the result mentions extension %q (errors: %v)\n  events: %s", k, ext, res.Errors, dump())
		}
	}
	// per-extension structure
	for i := range c.Exts {
		x := &c.Exts[i]
		var evs []extEvent
		for _, e := range log.events {
			if e.Ext == x.Name {
				evs = append(evs, e)
			}
		}
		if m := checkExtTrace(x, evs, c.Class, len(panicked) > 0, c.Entry != ""); m != "" {
			return fmt.Sprintf("extension %s: %s\n  its events: %v\n  all events: %s\n  request: %s", x.Name, m, evs, dump(), c.Request)
		}
		// one resolve notification per executed field: every resolver that ran was announced to this extension, once
		if len(panicked) == 0 {
			seen := map[string]int{}
			for _, e := range evs {
				if e.Hook == "ResolveFieldDidStart" {
					seen[e.Detail]++
				}
			}
			for _, call := range sess.Snapshot() {
				if call.Kind != "resolve" {
					continue
				}
				if k := ref.PathKey(call.Path); seen[k] != 1 {
					return fmt.Sprintf("extension %s: the resolver of the field at %s ran, and the extension was notified of it %d time(s)\n  its events: %v\n  request: %s (entry %q, %d extension(s) registered after planning)",
						x.Name, k, seen[k], evs, c.Request, c.Entry, c.Late)
				}
			}
		}
	}
	return ""
}

// checkExtTrace validates one extension's events: pipeline order, proper nesting, every phase
// that was started (its start hook returned) finished exactly once with that phase's outcome.
func checkExtTrace(x *ExtSpec, evs []extEvent, class string, anyPanic bool, executionOnly bool) string {
	ok := func(h string) bool { return x.Policy[h] == "" }
	rank := map[string]int{"Init": 0, "ParseDidStart": 1, "ParseFinish": 2, "ValidationDidStart": 3, "ValidationFinish": 4, "ExecutionDidStart": 5,
		"ResolveFieldDidStart": 6, "ResolveFieldFinish": 6, "ExecutionFinish": 7, "HasResult": 8, "GetResult": 9}
	count := map[string]int{}
	last := -1
	openResolve := []string{}
	execOpen := false
	for i, e := range evs {
		r, known := rank[e.Hook]
		if !known {
			return "unknown hook " + e.Hook
		}
		if r < last {
			return fmt.Sprintf("event %d (%s) comes after a later pipeline phase", i, e.Hook)
		}
		last = r
		count[e.Hook]++
		switch e.Hook {
		case "ExecutionDidStart":
			execOpen = ok("ExecutionDidStart")
		case "ExecutionFinish":
			if len(openResolve) > 0 {
				return fmt.Sprintf("execution finished while the resolution of %v was still open", openResolve)
			}
			if !execOpen {
				return "ExecutionFinish without a started execution"
			}
			execOpen = false
		case "ResolveFieldDidStart":
			if x.panicKind("ResolveFieldDidStart", e.Detail) == "" { // the start hook returned
				openResolve = append(openResolve, e.Detail)
			}
		case "ResolveFieldFinish":
			path := e.Detail[:strings.Index(e.Detail, " ")]
			if len(openResolve) == 0 || openResolve[len(openResolve)-1] != path {
				return fmt.Sprintf("resolve-finish of %s does not close the innermost open resolution %v", path, openResolve)
			}
			openResolve = openResolve[:len(openResolve)-1]
		}
	}
	if executionOnly {
		// a stored plan is executed: there is no init, parse or validation phase, and the execution phase is there
		// whenever the request got as far as a plan
		if count["Init"]+count["ParseDidStart"]+count["ValidationDidStart"] != 0 {
			return "executing a stored plan went through init / parse / validation hooks"
		}
		if (class == "variables" || class == "field_errors" || class == "success") && count["ExecutionDidStart"] != 1 {
			return fmt.Sprintf("ExecutionDidStart called %d times for the execution of a stored plan", count["ExecutionDidStart"])
		}
	} else if count["Init"] != 1 {
		return fmt.Sprintf("Init called %d times", count["Init"])
	}
	pairs := [][2]string{{"ParseDidStart", "ParseFinish"}, {"ValidationDidStart", "ValidationFinish"}, {"ExecutionDidStart", "ExecutionFinish"}}
	for _, p := range pairs {
		if count[p[0]] > 1 {
			return fmt.Sprintf("%s called %d times", p[0], count[p[0]])
		}
		wantFinish := 0
		if count[p[0]] == 1 && ok(p[0]) {
			wantFinish = 1
		}
		if count[p[1]] != wantFinish {
			return fmt.Sprintf("%s started %d time(s) (start hook %s) but %s was called %d time(s)", p[0], count[p[0]], map[bool]string{true: "returned", false: "panicked"}[ok(p[0])], p[1], count[p[1]])
		}
	}
	if len(openResolve) > 0 {
		return fmt.Sprintf("resolution of %v was started and never finished", openResolve)
	}
	// outcomes (when a hook panicked the request is cut short and later phases end with the
	// extension error instead of their own outcome)
	if anyPanic {
		return ""
	}
	for _, e := range evs {
		switch e.Hook {
		case "ParseFinish":
			if (e.Detail == "true") != (class == "syntax") {
				return fmt.Sprintf("ParseFinish was told error=%s for a request of class %s", e.Detail, class)
			}
		case "ValidationFinish":
			if (e.Detail == "true") != (class == "validation") {
				return fmt.Sprintf("ValidationFinish was told errors=%s for a request of class %s", e.Detail, class)
			}
		case "ExecutionFinish":
			if e.Detail == "nil" {
				return "ExecutionFinish was handed a nil result"
			}
		}
	}
	return ""
}

func TestC17(t *testing.T) {
	var rc ExtCase
	if loadReplay(t, "C17", &rc) {
		if msg := c17Oracle(&rc); msg != "" {
			t.Fatalf("VERIF-FAIL property=C17 sub=hooks replay=%s :: %s", replayFile(), msg)
		}
		return
	}
	classes := []string{"syntax", "validation", "variables", "field_errors", "success"}
	rapid.Check(t, func(rt *rapid.T) {
		c := &ExtCase{}
		c.Class = classes[gen.Uniform(rt, len(classes), "class")]
		reqs := c17Requests[c.Class]
		c.Request = reqs[gen.Uniform(rt, len(reqs), "request")]
		n := gen.Intn(rt, 0, 3, "nExt")
		nPanics := 0
		nonError := false
		for i := 0; i < n; i++ {
			x := ExtSpec{Name: fmt.Sprintf("ext%c", 'A'+i), HasResult: gen.Chance(rt, 50, "hasResult"), Policy: map[string]string{}}
			if gen.Chance(rt, 55, "faulty") {
				for k, np := 0, gen.Intn(rt, 1, 2, "nPanics"); k < np; k++ {
					h := c17Hooks[gen.Uniform(rt, len(c17Hooks), "hook")]
					kind := []string{"panic_err", "panic_str", "panic_int", "panic_struct"}[gen.Uniform(rt, 4, "panicKind")]
					x.Policy[h] = kind
					if (h == "ResolveFieldDidStart" || h == "ResolveFieldFinish") && gen.Chance(rt, 60, "atPath") {
						// only for one field of the request (the others start and finish normally)
						x.Policy[h] = kind + "@" + []string{"a", "nn", "o", "o/nn", "f", "b", "l", "l/0/nn", "int", "e", "o/x", "self/self"}[gen.Uniform(rt, 12, "panicPath")]
					}
					nPanics++
					if kind != "panic_err" {
						nonError = true
					}
				}
			}
			c.Exts = append(c.Exts, x)
		}
		if n > 0 && gen.Chance(rt, 35, "storedPlan") {
			c.Entry = []string{"plan", "cache"}[gen.Uniform(rt, 2, "entry")]
			c.Late = gen.Uniform(rt, n+1, "late")
			stats.R.Class("entry_" + c.Entry)
			if c.Late > 0 {
				stats.R.Class("extension_registered_after_planning")
			}
		}
		msg := c17Oracle(c)
		stats.R.Class("class_" + c.Class)
		stats.R.Class(fmt.Sprintf("extensions_%d", n))
		if nPanics > 0 {
			stats.R.Class("with_panicking_hook")
		}
		nt := (n >= 2 && nPanics >= 1) || nonError
		stats.R.Case(caseKey(c), nt, func() interface{} { return c })
		if msg != "" {
			violation(rt, "C17", "hooks", c, "%s", msg)
		}
	})
}
