package props

import (
	"context"
	"fmt"
	"strings"
	"sync"
	"testing"

	"github.com/graphql-go/graphql"
	"pgregory.net/rapid"

	"verif/build"
	"verif/gen"
	"verif/model"
	"verif/ref"
	"verif/stats"
)

// C13 — top-level mutation fields execute serially in document order.

const c13Repeats = 30 // map iteration order differs per range: repeat every case

func c13Oracle(c *ExecCase) (msg string, nTop int, thunks int) {
	c.fix()
	text := model.Print(c.Doc, c.Layout).Text
	c.Text = text
	b, err := build.New(c.Schema, c.World, build.Options{})
	if err != nil {
		return "HARNESS: schema rejected: " + err.Error(), 0, 0
	}
	op := c.Doc.Operation(c.OpName)
	if op == nil || op.Kind != "mutation" {
		return "HARNESS: not a mutation", 0, 0
	}
	cvars, verr := ref.CoerceVariables(c.Schema, op.Vars, c.Vars)
	if verr != nil {
		return "", 0, 0
	}
	// order of the top-level response keys = order of first included occurrence (CollectFields)
	order := map[string]int{}
	for i, g := range ref.CollectKeys(c.Schema, c.Doc, cvars, c.Schema.Mutation, op.Sel) {
		order[g] = i
	}
	nTop = len(order)
	doc, perr := parseText(text)
	if perr != nil {
		return "HARNESS: " + perr.Error(), nTop, 0
	}
	plan, err := graphql.PlanQuery(&b.Schema, doc, c.OpName)
	if err != nil {
		return "HARNESS: PlanQuery: " + err.Error(), nTop, 0
	}
	// two plan caches that first served the same mutation with its top-level selections in the
	// opposite order: an entry shared between the two documents would run the fields in the other
	// document's order
	caches := []*graphql.PlanCache{graphql.NewPlanCache(graphql.PlanCacheOptions{Normalize: true}), graphql.NewPlanCache(graphql.PlanCacheOptions{})}
	rev := gen.CloneDoc(c.Doc)
	if rop := rev.Operation(c.OpName); rop != nil {
		for i, j := 0, len(rop.Sel)-1; i < j; i, j = i+1, j-1 {
			rop.Sel[i], rop.Sel[j] = rop.Sel[j], rop.Sel[i]
		}
	}
	revText := model.Print(rev, nil).Text
	viaCache := func(pc *graphql.PlanCache, q string, ctx context.Context) *graphql.Result {
		pr := pc.Get(&b.Schema, q, c.OpName)
		if pr.Plan == nil {
			return &graphql.Result{Errors: pr.Errors}
		}
		args := c.goVars()
		for k, v := range pr.SynthArgs {
			args[k] = v
		}
		return graphql.ExecutePlan(pr.Plan, graphql.ExecuteParams{Schema: b.Schema, OperationName: c.OpName, Args: args, Context: ctx})
	}
	for _, pc := range caches {
		viaCache(pc, revText, build.WithSession(context.Background(), &build.Session{W: c.World}))
	}
	var twin *build.Built
	for rep := 0; rep < c13Repeats; rep++ {
		var mu sync.Mutex
		var events []string
		sess := &build.Session{W: c.World}
		sess.Hook = func(kind, defType, field string, path []interface{}, p *graphql.ResolveParams) {
			mu.Lock()
			events = append(events, kind+":"+ref.PathKey(path))
			mu.Unlock()
		}
		ctx := build.WithSession(context.Background(), sess)
		var res *graphql.Result
		switch rep % 5 {
		case 3:
			res = viaCache(caches[0], text, ctx)
		case 4:
			res = viaCache(caches[1], text, ctx)
		case 0:
			res = graphql.Do(graphql.Params{Schema: b.Schema, RequestString: text, VariableValues: c.goVars(), OperationName: c.OpName, Context: ctx})
		case 1:
			res = graphql.Execute(graphql.ExecuteParams{Schema: b.Schema, AST: doc, OperationName: c.OpName, Args: c.goVars(), Context: ctx})
		default:
			// a plan is bound to the schema it was made for: ExecuteParams.Schema is documented as not consulted, so it may
			// be that schema, left at its zero value, or another schema value of the same shape
			switch (rep / 5) % 3 {
			case 0:
				res = graphql.ExecutePlan(plan, graphql.ExecuteParams{Schema: b.Schema, OperationName: c.OpName, Args: c.goVars(), Context: ctx})
			case 1:
				res = graphql.ExecutePlan(plan, graphql.ExecuteParams{OperationName: c.OpName, Args: c.goVars(), Context: ctx})
			default:
				if twin == nil {
					twin, _ = build.New(c.Schema, c.World, build.Options{})
				}
				if twin != nil {
					res = graphql.ExecutePlan(plan, graphql.ExecuteParams{Schema: twin.Schema, OperationName: c.OpName, Args: c.goVars(), Context: ctx})
				}
			}
		}
		_ = res
		last := -1
		lastKey := ""
		for i, ev := range events {
			p := ev[strings.Index(ev, ":")+1:]
			top := p
			if j := strings.Index(p, "/"); j >= 0 {
				top = p[:j]
			}
			if kindOf(ev) == "thunk" {
				thunks++
			}
			idx, ok := order[top]
			if !ok {
				return fmt.Sprintf("run %d: event %s belongs to no selected top-level field\n  document: %s", rep, ev, text), nTop, thunks
			}
			if idx < last {
				return fmt.Sprintf("run %d: %s (top-level field %q, #%d in document order) ran after work of the later field %q (#%d) had started\n  events: %v\n  event index %d\n  document: %s\n  variables: %s",
					rep, ev, top, idx, lastKey, last, events, i, text, canonJSON(c.goVars())), nTop, thunks
			}
			if idx > last {
				last, lastKey = idx, top
			}
		}
	}
	return "", nTop, thunks
}

func kindOf(ev string) string { return ev[:strings.Index(ev, ":")] }

func TestC13(t *testing.T) {
	var rc ExecCase
	if loadReplay(t, "C13", &rc) {
		if msg, _, _ := c13Oracle(&rc); msg != "" {
			t.Fatalf("VERIF-FAIL property=C13 sub=serial replay=%s :: %s", replayFile(), msg)
		}
		return
	}
	rapid.Check(t, func(rt *rapid.T) {
		s := gen.Schema(rt, gen.SchemaOpts{Mutation: true})
		d, op, _ := gen.Doc(rt, s, gen.DocOpts{OpKind: "mutation", MaxOps: 2, Budget: 20, MaxDepth: 3})
		vars := gen.Variables(rt, s, d)
		w, regime := gen.World(rt, s, d, op, vars, gen.WorldOpts{NoPropagation: true, Adversarial: 40})
		c := &ExecCase{Schema: s, Doc: d, OpName: op, Vars: vars, World: w, Regime: regime}
		msg, nTop, thunks := c13Oracle(c)
		nt := nTop >= 2 && thunks > 0
		if nTop >= 2 {
			stats.R.Class("two_or_more_top_level_fields")
		}
		if thunks > 0 {
			stats.R.Class("deferred_work")
		}
		stats.R.Case(caseKey(c), nt, func() interface{} {
			return map[string]interface{}{"document": c.Text, "variables": c.goVars(), "outcomes": c.World.Outcomes, "top_level_fields": nTop}
		})
		if msg != "" {
			violation(rt, "C13", "serial", c, "%s", msg)
		}
	})
}
