package props

import (
	"fmt"
	"strings"

	"pgregory.net/rapid"

	"verif/gen"
)

// ScaleRecipe composes a document family from independent choices: how the first fragment is
// reached from the root (several contexts, optionally under different concrete types and under
// one response key), which later fragments every fragment spreads, and how (directly, through
// a field, through aliased fields).
type ScaleRecipe struct {
	Contexts []ScaleContext `json:"contexts"`
	Edges    string         `json:"edges"` // next | next2 | later | half | mod3
	Wrap     string         `json:"wrap"`  // direct | field | alias | mixed
	// VarDir: every fragment's leaf carries a variable-driven @include
	VarDir bool `json:"varDir,omitempty"`
}

type ScaleContext struct {
	OnType int  `json:"onType"` // -1: no type condition; else ... on T<OnType>
	Keyed  bool `json:"keyed"`  // spread under `child: next { }` instead of directly
}

func (r *ScaleRecipe) edges(i, n int) []int {
	var out []int
	add := func(j int) {
		if j > i && j < n {
			for _, x := range out {
				if x == j {
					return
				}
			}
			out = append(out, j)
		}
	}
	switch r.Edges {
	case "next":
		add(i + 1)
	case "next2":
		add(i + 1)
		add(i + 2)
	case "later":
		for j := i + 1; j < n; j++ {
			add(j)
		}
	case "half":
		add(i + 1)
		add(i + n/2)
	case "mod3":
		for j := i + 1; j < n; j++ {
			if (j-i)%3 == 1 {
				add(j)
			}
		}
	}
	return out
}

func recipeDoc(r *ScaleRecipe, n int) string { return recipeDocV(r, n, scaleVocabulary) }

// scaleVocab names the schema elements a recipe document is written over: a root field of an
// interface type, the interface, its object implementers, a field of the interface returning
// the interface again, and a leaf field.
type scaleVocab struct {
	Root, Iface, Next, Leaf string
	Types                   []string
}

var scaleVocabulary = scaleVocab{Root: "node", Iface: "Node", Next: "next", Leaf: "v", Types: []string{"T0", "T1", "T2", "T3"}}

// kitchenScaleVocabulary writes the same documents over the kitchen schema.
var kitchenScaleVocabulary = scaleVocab{Root: "i", Iface: "I", Next: "i", Leaf: "a", Types: []string{"O", "P"}}

func recipeDocV(r *ScaleRecipe, n int, vc scaleVocab) string {
	var sb strings.Builder
	leaf := vc.Leaf
	if r.VarDir {
		sb.WriteString("query($s: Boolean = true) ")
		leaf += " @include(if: $s)"
	}
	fmt.Fprintf(&sb, "{ %s { ", vc.Root)
	for _, c := range r.Contexts {
		if c.OnType >= 0 {
			fmt.Fprintf(&sb, "... on %s { ", vc.Types[c.OnType%len(vc.Types)])
		}
		if c.Keyed {
			fmt.Fprintf(&sb, "child: %s { ...F0 } ", vc.Next)
		} else {
			sb.WriteString("...F0 ")
		}
		if c.OnType >= 0 {
			sb.WriteString("} ")
		}
	}
	sb.WriteString("} }")
	for i := 0; i < n; i++ {
		fmt.Fprintf(&sb, " fragment F%d on %s { %s ", i, vc.Iface, leaf)
		for k, j := range r.edges(i, n) {
			wrap := r.Wrap
			// every edge of one document goes through the same response key: two keys per level
			// would make the response itself (and so any plan of it) exponential in n
			if wrap == "mixed" {
				wrap = []string{"direct", "field"}[(i+k)%2]
			}
			switch wrap {
			case "direct":
				fmt.Fprintf(&sb, "...F%d ", j)
			case "field":
				fmt.Fprintf(&sb, "%s { ...F%d } ", vc.Next, j)
			default:
				fmt.Fprintf(&sb, "e: %s { ...F%d } ", vc.Next, j)
			}
		}
		sb.WriteString("}")
	}
	return sb.String()
}

// drawRecipe draws a recipe.
func drawRecipe(rt *rapid.T) *ScaleRecipe {
	r := &ScaleRecipe{Edges: []string{"next", "next2", "later", "half", "mod3"}[gen.Uniform(rt, 5, "edges")], Wrap: []string{"direct", "field", "alias", "mixed"}[gen.Uniform(rt, 4, "wrap")]}
	for i, k := 0, gen.Intn(rt, 1, 3, "contexts"); i < k; i++ {
		r.Contexts = append(r.Contexts, ScaleContext{OnType: gen.Uniform(rt, 5, "onType") - 1, Keyed: gen.Chance(rt, 50, "keyed")})
	}
	r.VarDir = gen.Chance(rt, 40, "varDir")
	return r
}
