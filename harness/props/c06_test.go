package props

import (
	"context"
	"fmt"
	"sort"
	"strings"
	"testing"

	"github.com/graphql-go/graphql"
	"pgregory.net/rapid"

	"verif/build"
	"verif/gen"
	"verif/model"
	"verif/ref"
	"verif/stats"
)

// C06 — prepared plans and the plan cache are semantically transparent.

type poolQuery struct {
	Text string
	Op   string
	Vars map[string]interface{}
}

// c06Pool: a base query and neighbours that differ in exactly one thing that can change the
// response (or the validity) of the request. Resolvers echo their arguments (String fields
// with arguments render Args), so a wrong literal, default or argument shows in the data.
var c06Pool = []poolQuery{
	{Text: `{ n(x: {b: "s"}, z: V1) o { a x(y: 1) } }`},
	{Text: `{ n(x: {b: "s"}, z: V1) o { a x(y: 2) } }`},                     // one literal differs
	{Text: `{ n(x: {b: "t"}, z: V1) o { a x(y: 1) } }`},                     // literal inside an object differs
	{Text: `{ n(x: {b: "s"}, z: V2) o { a x(y: 1) } }`},                     // enum literal differs
	{Text: `{ n(x: {b: "s", a: 9}, z: V1) o { a x(y: 1) } }`},               // object literal shape differs
	{Text: `{ n(z: V1, x: {b: "s"}) o { a x(y: 1) } }`},                     // argument order
	{Text: `{ n(x: {b: "s"}, z: V1) o { a x(y: 1) @skip(if: true) } }`},     // directive added
	{Text: `{ n(x: {b: "s"}, z: V1) o { a x(y: 1) @include(if: false) } }`}, // other directive
	{Text: `{ n(x: {b: "s"}, z: V1) o { a @skip(if: true) x(y: 1) } }`},     // directive on the sibling
	{Text: `{ n(x: {b: "s"}, z: V1) o { k1: a x(y: 1) } }`},                 // alias
	{Text: `{ n(x: {b: "s"}, z: V1) o { a a x(y: 1) } }`},                   // repeated field
	{Text: `{ n(x: {b: "s"}, z: V1) o { a x(y: 1) x(y: 1) } }`},             // repeated field with arguments
	{Text: `{ n(x: {b: "s"}, z: V1) o { a x(y: 1) k2: x(y: 2) } }`},         // two calls, different literals
	{Text: `{ n(x: {b: "a,b]c"}, z: V1) }`},                                 // string that mimics separators
	{Text: `{ n(x: {b: "a"}, y: [1, 2]) }`},                                 //
	{Text: `{ n(x: {b: "a"}, y: [1]) }`},                                    //
	{Text: `{ n(x: {b: "a"}, y: 1) }`},                                      // list of one
	{Text: `{ n(w: "c1") }`},                                                // custom scalar literal
	{Text: `{ n(x: {b: "a", n: {b: "in", e: V2}, l: [{b: "l1"}, {b: "l2"}]}) }`},
	{Text: `query($v: Int = 1) { o { x(y: $v) } }`}, // variable default 1
	{Text: `query($v: Int = 2) { o { x(y: $v) } }`}, // variable default 2
	{Text: `query($v: Int = 1) { o { x(y: $v) } }`, Vars: map[string]interface{}{"v": 5}},
	{Text: `query($s: Boolean!) { a @skip(if: $s) b }`, Vars: map[string]interface{}{"s": true}},
	{Text: `query($s: Boolean!) { a @skip(if: $s) b }`, Vars: map[string]interface{}{"s": false}},
	{Text: `query($s: Boolean!) { a @include(if: $s) b }`, Vars: map[string]interface{}{"s": false}},
	{Text: `query A { a } query B { b }`, Op: "A"},
	{Text: `query A { a } query B { b }`, Op: "B"},
	// the same literals in another pattern of equality (equal literals share a synthetic variable)
	{Text: `{ k1: req(r: 1) k2: req(r: 2) k3: req(r: 1) }`},
	{Text: `{ k1: req(r: 1) k2: req(r: 2) k3: req(r: 2) }`},
	{Text: `{ k1: req(r: 1) k2: req(r: 1) k3: req(r: 2) }`},
	{Text: `{ n(x: {a: 1, b: "s", n: {a: 2, b: "s", n: {a: 1, b: "t"}}}) }`},
	{Text: `{ n(x: {a: 1, b: "s", n: {a: 2, b: "t", n: {a: 2, b: "s"}}}) }`},
	// different literals of one type whose contents mimic each other's structure
	{Text: `{ strs(a: ["x y"], b: ["x", "y"]) }`},
	{Text: `{ strs(a: ["x", "y"], b: ["x y"]) }`},
	{Text: `{ strs(a: "[k]", b: ["k"]) }`},
	{Text: `{ strs(a: ["a", "b c"], b: ["a b", "c"]) }`},
	{Text: `{ strs(c: {b: "1 e:V0"}, d: {b: "1", e: V0}) }`},
	{Text: `{ strs(c: {b: "s", a: 1}, d: {a: 1, b: "s"}) }`},
	{Text: `{ strs(a: ["1"], b: ["1 "]) k: strs(a: [" 1"], b: ["1"]) }`},
	// literals that normalisation leaves in place, the same text in another kind
	{Text: `{ n(w: "1") }`},
	{Text: `{ n(w: 1) }`},
	{Text: `{ n(w: "true") }`},
	{Text: `{ n(w: true) }`},
	{Text: `{ n(w: "V1") }`},
	{Text: `{ n(w: V1) }`},
	{Text: `query($v: Int!) { n(y: [1, $v]) }`, Vars: map[string]interface{}{"v": 2}},
	{Text: `query($v: Int!) { n(y: ["1", $v]) }`, Vars: map[string]interface{}{"v": 2}},
	{Text: `{ ...F } fragment F on Q { req(r: 1) }`},
	{Text: `{ ...F } fragment F on Q { req(r: "1") }`},
	{Text: `query($v: String = "1") { n(x: {b: $v}) }`},
	{Text: `query($v: String = 1) { n(x: {b: $v}) }`},
	// the same variables used at swapped positions
	{Text: `query($x: Int!, $y: Int!) { k1: req(r: $x) k2: req(r: $y) }`, Vars: map[string]interface{}{"x": 1, "y": 2}},
	{Text: `query($x: Int!, $y: Int!) { k1: req(r: $y) k2: req(r: $x) }`, Vars: map[string]interface{}{"x": 1, "y": 2}},
	{Text: `query($x: Int!, $y: Int!) { k1: req(r: $x) k2: req(r: $x) }`, Vars: map[string]interface{}{"x": 1, "y": 2}},
	// operation names that select nothing: the answers differ only in the error text
	{Text: `query A { a } query B { b }`, Op: ""},
	{Text: `query A { a } query B { b }`, Op: "C"},
	{Text: `query A { a } query B { b }`, Op: "D"},
	{Text: `query A { a }`, Op: "A"},
	{Text: `query A { a }`, Op: ""},
	{Text: `query A { a }`, Op: "C"},
	{Text: `query A { a }`, Op: "D"},
	{Text: `query A { o { x(y: 1) } } query B { o { x(y: 2) } }`, Op: "A"},
	{Text: `query A { o { x(y: 1) } } query B { o { x(y: 2) } }`, Op: "B"},
	{Text: `{ o { ...F } } fragment F on O { a x(y: 1) }`},
	{Text: `{ o { ...F } } fragment F on O { a x(y: 2) }`}, // fragment body differs in a literal
	{Text: `{ o { ...F } } fragment F on O { a }`},         // fragment body differs in shape
	{Text: `{ i { ... on O { x(y: 1) } ... on P { p } } u { ... on P { e } } }`},
	{Text: `{ i { ... on O { x(y: 3) } ... on P { p } } u { ... on P { e } } }`},
	{Text: `{ n(x: {b: 1}) }`},   // invalid literal inside an object
	{Text: `{ n(y: [1, "x"]) }`}, // invalid list member
	{Text: `{ n(z: NOPE) }`},     // unknown enum value
	{Text: `{ nope }`},           // validation error
	{Text: `{ a `},               // syntax error
	{Text: `{ req(r: 1) }`},
	{Text: `{ req(r: 2147483648) }`}, // Int out of range
	{Text: `mutation { set(x: 1) a }`},
	{Text: `mutation { set(x: 2) a }`},
	{Text: `{ a b #` + strings.Repeat("x", 150) + "\n}"}, // longer than a small MaxQueryBytes
	{Text: `{ self { self { n(x: {b: "deep"}, z: V0) } } }`},
	{Text: `{ self { self { n(x: {b: "deep"}) } } }`}, // argument default instead of literal
	{Text: `{ o { x(y: 7) } req(r: 7) }`},             // one literal at a nullable and at a non-null position
	{Text: `{ req(r: 7) o { x(y: 7) } }`},             // ... in the other order
	{Text: `{ n(y: 7) o { x(y: 7) } }`},               // one literal where a list and where an Int is expected
	{Text: `{ o { x(y: 7) } n(y: [7]) k: n(y: 7) }`},
	{Text: `{ id f n(x: {a: 7, b: "7"}) req(r: 7) }`},
}

type CacheAction struct {
	Kind   string `json:"kind"` // get | reset | planReuse
	Query  int    `json:"query"`
	Schema int    `json:"schema"`
	Times  int    `json:"times,omitempty"`
}

type CacheCase struct {
	MaxEntries    int           `json:"maxEntries"`
	MaxQueryBytes int           `json:"maxQueryBytes"`
	Normalize     bool          `json:"normalize"`
	NilCache      bool          `json:"nilCache"`
	Actions       []CacheAction `json:"actions"`
	// MutateArgs: resolvers write into the argument maps they are handed
	MutateArgs bool `json:"mutateArgs,omitempty"`
}

func errPathsOf(res *graphql.Result) string {
	var ps []string
	for _, e := range res.Errors {
		ps = append(ps, ref.PathKey(e.Path))
	}
	sort.Strings(ps)
	return strings.Join(ps, "|")
}

// sameResponse compares a served response with the from-scratch response.
func sameResponse(got, want *graphql.Result) string {
	if gd, wd := canonJSON(got.Data), canonJSON(want.Data); gd != wd {
		return fmt.Sprintf("data differs:\n    served:       %s\n    from scratch: %s", gd, wd)
	}
	if (len(got.Errors) > 0) != (len(want.Errors) > 0) {
		return fmt.Sprintf("errors differ: served %d, from scratch %d (%v / %v)", len(got.Errors), len(want.Errors), got.Errors, want.Errors)
	}
	if gp, wp := errPathsOf(got), errPathsOf(want); gp != wp && want.Data != nil {
		return fmt.Sprintf("error paths differ: served [%s], from scratch [%s]", gp, wp)
	}
	if gm, wm := errMessagesOf(got), errMessagesOf(want); gm != wm {
		return fmt.Sprintf("error messages differ:\n    served:       %s\n    from scratch: %s", gm, wm)
	}
	if gl, wl := errLocationsOf(got), errLocationsOf(want); gl != wl && !sameResponseSkipLocations {
		return fmt.Sprintf("error locations differ:\n    served:       %s\n    from scratch: %s", gl, wl)
	}
	return ""
}

// sameResponseSkipLocations is set while a normalising cache is compared and the known finding
// KF-C06-normalized-locations is active (locations then belong to the first text of that shape).
var sameResponseSkipLocations bool

func errLocationsOf(res *graphql.Result) string {
	var ls []string
	for _, e := range res.Errors {
		ls = append(ls, fmt.Sprintf("%s@%v", e.Message, e.Locations))
	}
	sort.Strings(ls)
	return strings.Join(ls, " | ")
}

// reproNormalizedLocations: two texts of one shape through a normalising cache; the second
// request's field error must be located in the second text.
func reproNormalizedLocations() bool {
	b, err := kitchen()
	if err != nil {
		return false
	}
	pc := graphql.NewPlanCache(graphql.PlanCacheOptions{Normalize: true})
	ctx := func() context.Context {
		return build.WithSession(context.Background(), &build.Session{W: &ref.World{S: kitchenModel(), Salt: 1, Outcomes: map[string]ref.Outcome{"nn": {Kind: "err"}}}})
	}
	var last *graphql.Result
	for _, text := range []string{`{ req(r: 1) nn }`, `{ req(r: 100000) nn }`} {
		pr := pc.Get(&b.Schema, text, "")
		if pr.Plan == nil {
			return false
		}
		last = graphql.ExecutePlan(pr.Plan, graphql.ExecuteParams{Schema: b.Schema, Args: pr.SynthArgs, Context: ctx()})
	}
	want := graphql.Do(graphql.Params{Schema: b.Schema, RequestString: `{ req(r: 100000) nn }`, Context: ctx()})
	return errLocationsOf(last) != errLocationsOf(want)
}

func init() {
	what := "a plan served by a normalising plan cache keeps the AST of the first request of that shape, so field errors of later requests (other literal lengths, other whitespace) are located in the first request's text"
	registerKnown(&knownFinding{ID: "KF-C06-normalized-locations", Prop: "C06", What: what, Repro: reproNormalizedLocations})
	registerKnown(&knownFinding{ID: "KF-C18-normalized-locations", Prop: "C18", What: what, Repro: reproNormalizedLocations})
}

func errMessagesOf(res *graphql.Result) string {
	var ms []string
	for _, e := range res.Errors {
		ms = append(ms, e.Message)
	}
	sort.Strings(ms)
	return strings.Join(ms, " | ")
}

type lruModel struct {
	max   int
	order []string // most recent first
	owner map[string]int
}

func (l *lruModel) lookup(key string, schema int) bool {
	for i, k := range l.order {
		if k == key {
			if l.owner[k] != schema {
				l.order = append(l.order[:i], l.order[i+1:]...)
				delete(l.owner, k)
				return false
			}
			l.order = append([]string{k}, append(l.order[:i], l.order[i+1:]...)...)
			return true
		}
	}
	return false
}

func (l *lruModel) store(key string, schema int) {
	for i, k := range l.order {
		if k == key {
			l.order = append(l.order[:i], l.order[i+1:]...)
			break
		}
	}
	l.order = append([]string{key}, l.order...)
	l.owner[key] = schema
	for len(l.order) > l.max {
		last := l.order[len(l.order)-1]
		l.order = l.order[:len(l.order)-1]
		delete(l.owner, last)
	}
}

func c06Oracle(c *CacheCase) (msg string, interesting bool) {
	sameResponseSkipLocations = c.Normalize && known("KF-C06-normalized-locations")
	defer func() { sameResponseSkipLocations = false }()
	m := kitchenModel()
	w := &ref.World{S: m, Salt: 11, MaxList: 2}
	var schemas [2]*build.Built
	for i := range schemas {
		b, err := build.New(m, w, build.Options{})
		if err != nil {
			return "HARNESS: " + err.Error(), false
		}
		schemas[i] = b
	}
	var pc *graphql.PlanCache
	if !c.NilCache {
		pc = graphql.NewPlanCache(graphql.PlanCacheOptions{MaxEntries: c.MaxEntries, MaxQueryBytes: c.MaxQueryBytes, Normalize: c.Normalize})
	}
	maxEntries := c.MaxEntries
	if maxEntries <= 0 {
		maxEntries = 1024
	}
	maxBytes := c.MaxQueryBytes
	if maxBytes <= 0 {
		maxBytes = 64 * 1024
	}
	lru := &lruModel{max: maxEntries, owner: map[string]int{}}
	ctx := func() context.Context {
		return build.WithSession(context.Background(), &build.Session{W: w, Mutate: c.MutateArgs})
	}
	scratch := func(q poolQuery, s int) *graphql.Result {
		return graphql.Do(graphql.Params{Schema: schemas[s].Schema, RequestString: q.Text, OperationName: q.Op, VariableValues: q.Vars, Context: ctx()})
	}
	seen := map[string]bool{}
	for step, a := range c.Actions {
		q := c06Pool[a.Query%len(c06Pool)]
		s := a.Schema % 2
		at := fmt.Sprintf("step %d (%s query #%d on schema %d): %s", step, a.Kind, a.Query%len(c06Pool), s, q.Text)
		switch a.Kind {
		case "reset":
			pc.Reset()
			lru = &lruModel{max: maxEntries, owner: map[string]int{}}
		case "get":
			h0, m0 := pc.HitsMisses()
			pr := pc.Get(&schemas[s].Schema, q.Text, q.Op)
			h1, m1 := pc.HitsMisses()
			var got *graphql.Result
			if pr.Plan == nil {
				if len(pr.Errors) == 0 {
					return at + ": Get returned neither a plan nor errors", true
				}
				got = &graphql.Result{Errors: pr.Errors}
			} else {
				args := map[string]interface{}{}
				for k, v := range q.Vars {
					args[k] = v
				}
				for k, v := range pr.SynthArgs {
					args[k] = v
				}
				got = graphql.ExecutePlan(pr.Plan, graphql.ExecuteParams{Schema: schemas[s].Schema, OperationName: q.Op, Args: args, Context: ctx()})
			}
			want := scratch(q, s)
			if d := sameResponse(got, want); d != "" {
				return fmt.Sprintf("%s\n  served through the plan cache (normalize=%v) differs from parsing, validating and executing from scratch: %s\n  history: %s", at, c.Normalize, d, historyOf(c, step)), true
			}
			// counters
			if pc == nil {
				if h1 != 0 || m1 != 0 {
					return at + ": nil cache reports hits/misses", true
				}
				break
			}
			cacheable := len(q.Text) <= maxBytes
			if !cacheable {
				if h1 != h0 || m1 != m0 {
					return at + ": an over-size query touched the cache counters", true
				}
				break
			}
			if c.Normalize {
				if _, perr := parseText(q.Text); perr != nil {
					break // parse errors are not cached under normalisation
				}
			}
			if (h1-h0)+(m1-m0) != 1 {
				return fmt.Sprintf("%s: one lookup changed hits by %d and misses by %d", at, h1-h0, m1-m0), true
			}
			key := fmt.Sprintf("%s\x00%s", q.Op, q.Text)
			if seen[key] {
				interesting = true
			}
			seen[key] = true
			if !c.Normalize {
				wantHit := lru.lookup(key, s)
				if !wantHit {
					lru.store(key, s)
				}
				if (h1 > h0) != wantHit {
					return fmt.Sprintf("%s: cache hit=%v, but a cache bounded to %d entries with exact keys %s\n  history: %s", at, h1 > h0, maxEntries,
						map[bool]string{true: "must still hold this entry", false: "cannot hold this entry (evicted, reset, other schema or never stored)"}[wantHit], historyOf(c, step)), true
				}
			}
		case "planReuse":
			doc, perr := parseText(q.Text)
			if perr != nil {
				break
			}
			if vr := graphql.ValidateDocument(&schemas[s].Schema, doc, nil); !vr.IsValid {
				break
			}
			plan, err := graphql.PlanQuery(&schemas[s].Schema, doc, q.Op)
			if err != nil {
				break
			}
			before := canonJSON(astSnapshot(doc))
			for i := 0; i < a.Times; i++ {
				vars := q.Vars
				if i%2 == 1 && vars != nil {
					// alternate variable values on the same plan
					vars = map[string]interface{}{}
					for k, v := range q.Vars {
						switch x := v.(type) {
						case int:
							vars[k] = x + i
						case bool:
							vars[k] = !x
						default:
							vars[k] = v
						}
					}
				}
				got := graphql.ExecutePlan(plan, graphql.ExecuteParams{Schema: schemas[s].Schema, OperationName: q.Op, Args: vars, Context: ctx()})
				want := graphql.Do(graphql.Params{Schema: schemas[s].Schema, RequestString: q.Text, OperationName: q.Op, VariableValues: vars, Context: ctx()})
				if d := sameResponse(got, want); d != "" {
					return fmt.Sprintf("%s\n  execution #%d of one prepared plan (variables %v) differs from executing from scratch: %s", at, i, vars, d), true
				}
				interesting = interesting || i > 0
			}
			if after := canonJSON(astSnapshot(doc)); after != before {
				return at + ": planning / executing modified the document it was given", true
			}
		}
	}
	return "", interesting
}

func historyOf(c *CacheCase, upto int) string {
	var sb strings.Builder
	for i := 0; i <= upto && i < len(c.Actions); i++ {
		a := c.Actions[i]
		fmt.Fprintf(&sb, "%s(q%d,s%d) ", a.Kind, a.Query%len(c06Pool), a.Schema%2)
	}
	return sb.String()
}

func astSnapshot(doc interface{}) interface{} { return fmt.Sprintf("%+v", doc) }

func TestC06(t *testing.T) {
	var rc CacheCase
	if loadReplay(t, "C06", &rc, "cache") {
		if msg, _ := c06Oracle(&rc); msg != "" {
			t.Fatalf("VERIF-FAIL property=C06 sub=cache replay=%s :: %s", replayFile(), msg)
		}
		return
	}
	rapid.Check(t, func(rt *rapid.T) {
		c := &CacheCase{MutateArgs: gen.Chance(rt, 40, "mutateArgs")}
		c.MaxEntries = []int{1, 2, 3, 1024}[gen.Uniform(rt, 4, "maxEntries")]
		c.MaxQueryBytes = []int{0, 120}[gen.Uniform(rt, 2, "maxBytes")]
		c.Normalize = gen.Chance(rt, 50, "normalize")
		c.NilCache = gen.Chance(rt, 8, "nilCache")
		// histories revolve around a small working set so that neighbours meet in the cache
		nWork := gen.Intn(rt, 2, 5, "workingSet")
		var work []int
		for i := 0; i < nWork; i++ {
			idx := gen.Uniform(rt, len(c06Pool), "poolIdx")
			work = append(work, idx)
			if gen.Chance(rt, 60, "neighbour") { // the pool is ordered so that neighbours are near-identical
				work = append(work, (idx+1)%len(c06Pool))
			}
		}
		for i, n := 0, gen.Intn(rt, 3, 14, "nActions"); i < n; i++ {
			a := CacheAction{Kind: "get", Query: work[gen.Uniform(rt, len(work), "which")]}
			r := gen.Uniform(rt, 100, "actionKind")
			switch {
			case r < 6 && !c.NilCache:
				a.Kind = "reset"
			case r < 16:
				a.Kind = "planReuse"
				a.Times = gen.Intn(rt, 1, 4, "times")
			}
			if gen.Chance(rt, 15, "otherSchema") {
				a.Schema = 1
			}
			c.Actions = append(c.Actions, a)
		}
		msg, interesting := c06Oracle(c)
		stats.R.Class(fmt.Sprintf("normalize_%v", c.Normalize))
		stats.R.Class(fmt.Sprintf("maxEntries_%d", c.MaxEntries))
		if c.NilCache {
			stats.R.Class("nil_cache")
		}
		stats.R.Case(caseKey(c), interesting, func() interface{} { return c })
		if msg != "" {
			violation(rt, "C06", "cache", c, "%s", msg)
		}
	})
}

// ---------------------------------------------------------------------------------------------
// generated requests through the cache: a document, a neighbour that differs in literals only,
// and the document again -- each must be answered as from scratch

func perturbLiterals(d *model.Doc, t *rapid.T) (*model.Doc, int) {
	nd := gen.CloneDoc(d)
	n := 0
	// the Int literals of the document's field arguments (small ones)
	var ints []int64
	var collect func(v *model.Val)
	collect = func(v *model.Val) {
		if v == nil {
			return
		}
		if v.K == "int" && v.I < 1000 && v.I > -1000 {
			ints = append(ints, v.I)
		}
		for _, e := range v.L {
			collect(e)
		}
		for _, f := range v.O {
			collect(f.V)
		}
	}
	var collectSel func(ss []*model.Sel)
	collectSel = func(ss []*model.Sel) {
		for _, s := range ss {
			for _, a := range s.Args {
				collect(a.Val)
			}
			collectSel(s.Sel)
		}
	}
	for _, def := range nd.Defs {
		collectSel(def.Sel)
	}
	var val func(v *model.Val)
	val = func(v *model.Val) {
		if v == nil {
			return
		}
		switch v.K {
		case "int":
			if v.I < 1000 && v.I > -1000 && gen.Chance(t, 60, "perturbInt") {
				if len(ints) > 0 && gen.Chance(t, 50, "copyInt") {
					// another literal's value: changes which positions hold equal literals
					if w := ints[gen.Uniform(t, len(ints), "intFrom")]; w != v.I {
						v.I = w
						n++
					}
				} else {
					v.I++
					n++
				}
			}
		case "str":
			if gen.Chance(t, 60, "perturbStr") {
				v.S += "x"
				n++
			}
		case "bool":
			if gen.Chance(t, 30, "perturbBool") {
				v.B = !v.B
				n++
			}
		}
		for _, e := range v.L {
			val(e)
		}
		for _, f := range v.O {
			val(f.V)
		}
	}
	var sel func(ss []*model.Sel)
	sel = func(ss []*model.Sel) {
		for _, s := range ss {
			for _, a := range s.Args {
				val(a.Val) // field arguments only: directive conditions change the shape, not a literal
			}
			sel(s.Sel)
		}
	}
	for _, def := range nd.Defs {
		sel(def.Sel)
	}
	return nd, n
}

type CacheGenCase struct {
	MutateArgs bool       `json:"mutateArgs,omitempty"` // resolvers write into the argument maps they are handed
	Base       ExecCase   `json:"base"`
	Neighbour  *model.Doc `json:"neighbour"`
	Normalize  bool       `json:"normalize"`
	MaxEntries int        `json:"maxEntries"`
	// AltSalt: from the fifth lookup on, resolvers answer from a world with this salt (other values, other runtime
	// types at abstract positions, other nulls): a plan that served one set of runtime types meets others
	AltSalt int `json:"altSalt,omitempty"`
}

func c06GenOracle(c *CacheGenCase) string {
	sameResponseSkipLocations = c.Normalize && known("KF-C06-normalized-locations")
	defer func() { sameResponseSkipLocations = false }()
	ec := &c.Base
	ec.fix()
	b, err := build.New(ec.Schema, ec.World, build.Options{})
	if err != nil {
		return "HARNESS: " + err.Error()
	}
	pc := graphql.NewPlanCache(graphql.PlanCacheOptions{Normalize: c.Normalize, MaxEntries: c.MaxEntries})
	texts := []string{model.Print(ec.Doc, nil).Text, model.Print(c.Neighbour, nil).Text}
	world := ec.World
	ctx := func() context.Context {
		return build.WithSession(context.Background(), &build.Session{W: world, Mutate: c.MutateArgs})
	}
	// valuations: the case's own variables and its alternatives, cycled through the lookups
	valuations := []map[string]interface{}{ec.goVars()}
	for _, av := range ec.AltVars {
		e2 := ExecCase{Vars: av}
		valuations = append(valuations, e2.goVars())
	}
	for step, which := range []int{0, 1, 0, 1, 0, 0, 1, 0} {
		if step == 4 && c.AltSalt != 0 {
			w2 := *ec.World
			w2.Salt = c.AltSalt
			world = &w2
		}
		text := texts[which]
		vals := valuations[0]
		if step >= 2 {
			vals = valuations[(step-1)%len(valuations)]
		}
		copyVals := func() map[string]interface{} {
			out := map[string]interface{}{}
			for k, v := range vals {
				out[k] = v
			}
			return out
		}
		pr := pc.Get(&b.Schema, text, ec.OpName)
		var got *graphql.Result
		if pr.Plan == nil {
			got = &graphql.Result{Errors: pr.Errors}
		} else {
			args := copyVals()
			for k, v := range pr.SynthArgs {
				args[k] = v
			}
			got = graphql.ExecutePlan(pr.Plan, graphql.ExecuteParams{Schema: b.Schema, OperationName: ec.OpName, Args: args, Context: ctx()})
		}
		want := graphql.Do(graphql.Params{Schema: b.Schema, RequestString: text, OperationName: ec.OpName, VariableValues: copyVals(), Context: ctx()})
		if d := sameResponse(got, want); d != "" {
			return fmt.Sprintf("lookup %d (document %d of a literal-neighbour pair, normalize=%v): response differs from parsing, validating and executing from scratch: %s\n  document: %s\n  its neighbour: %s\n  variables: %s (earlier lookups used %d other valuation(s))",
				step, which, c.Normalize, d, text, texts[1-which], canonJSON(vals), len(valuations)-1)
		}
	}
	return ""
}

func TestC06_Gen(t *testing.T) {
	var rc CacheGenCase
	if loadReplay(t, "C06", &rc, "gen") {
		if msg := c06GenOracle(&rc); msg != "" {
			t.Fatalf("VERIF-FAIL property=C06 sub=gen replay=%s :: %s", replayFile(), msg)
		}
		return
	}
	rapid.Check(t, func(rt *rapid.T) {
		ec, _ := genExecCase(rt, gen.SchemaOpts{Mutation: true}, gen.DocOpts{Budget: 25}, gen.WorldOpts{NoThunks: true})
		ec.Layout = nil
		nb, n := perturbLiterals(ec.Doc, rt)
		c := &CacheGenCase{MutateArgs: gen.Chance(rt, 40, "mutateArgs"), Base: *ec, Neighbour: nb, Normalize: gen.Chance(rt, 70, "normalize"), MaxEntries: []int{1, 2, 1024}[gen.Uniform(rt, 3, "maxEntries")]}
		if gen.Chance(rt, 50, "altSalt") {
			c.AltSalt = 1 + gen.Intn(rt, 0, 1<<20, "altSaltValue")
			stats.R.Class("gen_other_runtime_values_later")
		}
		msg := c06GenOracle(c)
		stats.R.Class(fmt.Sprintf("gen_normalize_%v", c.Normalize))
		if n > 0 {
			stats.R.Class("gen_literal_neighbour")
		}
		stats.R.Case(caseKey(c), n > 0, func() interface{} {
			return map[string]interface{}{"document": model.Print(ec.Doc, nil).Text, "neighbour": model.Print(nb, nil).Text, "normalize": c.Normalize}
		})
		if msg != "" {
			violation(rt, "C06", "gen", c, "%s", msg)
		}
	})
}
