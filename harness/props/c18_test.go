package props

import (
	"fmt"
	"strings"
	"testing"
	"unicode/utf8"

	"github.com/graphql-go/graphql"
	"github.com/graphql-go/graphql/gqlerrors"
	"pgregory.net/rapid"

	"verif/build"
	"verif/gen"
	"verif/model"
	"verif/ref"
	"verif/stats"
	"verif/syn"
)

// C18 — error locations and paths point at the offending source and response position.

// lineStarts returns the byte offsets at which lines start (lines end at LF, CR or CRLF).
func lineStarts(text string) []int {
	starts := []int{0}
	for i := 0; i < len(text); i++ {
		switch text[i] {
		case '\r':
			if i+1 < len(text) && text[i+1] == '\n' {
				i++
			}
			starts = append(starts, i+1)
		case '\n':
			starts = append(starts, i+1)
		}
	}
	return starts
}

// offsetsOf converts a 1-based (line, column) into the byte offsets it can denote: the column
// counted in bytes and counted in characters. ok=false: the location is not inside the text.
func offsetsOf(text string, line, col int) (byBytes, byRunes int, ok bool) {
	ls := lineStarts(text)
	if line < 1 || line > len(ls) || col < 1 {
		return 0, 0, false
	}
	start := ls[line-1]
	end := len(text)
	if line < len(ls) {
		end = ls[line]
	}
	byBytes = start + col - 1
	byRunes = start
	for i := 1; i < col && byRunes < end; i++ {
		_, sz := utf8.DecodeRuneInString(text[byRunes:])
		byRunes += sz
	}
	if byBytes > len(text) {
		return 0, 0, false
	}
	return byBytes, byRunes, true
}

// c18Syntax: the location of a syntax error must fall within the first token / malformed
// lexeme at which the text stops being the beginning of a valid document.
func c18Syntax(tc *TextCase) (msg, class string) {
	text := tc.Text
	_, rerr := syn.ParseDocument([]byte(text))
	if rerr == nil {
		return "", "valid"
	}
	if known("KF-C03-offsets") && hasHigh([]byte(text[:min(len(text), rerr.End)])) {
		return "", "excluded_offsets"
	}
	_, lerr := libParse([]byte(text))
	if lerr == nil {
		return "", "lib_accepts" // C03's business (known finding typeref)
	}
	ge, ok := lerr.(*gqlerrors.Error)
	if !ok {
		return fmt.Sprintf("syntax error is a %T, not a located error\n  input: %q", lerr, text), "syntax_error"
	}
	if len(ge.Locations) != 1 {
		return fmt.Sprintf("syntax error carries %d locations\n  input: %q", len(ge.Locations), text), "syntax_error"
	}
	loc := ge.Locations[0]
	ob, or, ok := offsetsOf(text, loc.Line, loc.Column)
	if !ok {
		return fmt.Sprintf("syntax error location %d:%d is not inside the text (%d bytes)\n  input: %q", loc.Line, loc.Column, len(text), text), "syntax_error"
	}
	if rerr.InTypeRef && known("KF-C03-typeref") {
		return "", "known_typeref"
	}
	in := func(o int) bool {
		if rerr.Pos == rerr.End {
			return o == rerr.Pos
		}
		if rerr.TokenIndex < 0 {
			// malformed lexeme: anywhere from its start to the byte where the lexer gives up
			// (which is one past the lexeme when it runs to the end of the text)
			return o >= rerr.Pos && o <= rerr.End
		}
		return o >= rerr.Pos && o < rerr.End
	}
	if !in(ob) && !in(or) {
		return fmt.Sprintf("syntax error located at %d:%d (byte %d), but the text stops being a valid prefix at the token in bytes [%d,%d) (%s)\n  library: %s\n  input: %q",
			loc.Line, loc.Column, ob, rerr.Pos, rerr.End, rerr.Msg, oneLine(lerr.Error()), text), "syntax_error"
	}
	return "", "syntax_error"
}

func min(a, b int) int {
	if a < b {
		return a
	}
	return b
}

func TestC18_Syntax(t *testing.T) {
	var rc TextCase
	if loadReplay(t, "C18", &rc, "syntax") {
		if msg, _ := c18Syntax(&rc); msg != "" {
			t.Fatalf("VERIF-FAIL property=C18 sub=syntax replay=%s :: %s", replayFile(), msg)
		}
		return
	}
	rapid.Check(t, func(rt *rapid.T) {
		kind := []string{"exec", "schema", "mixed"}[gen.Uniform(rt, 3, "kind")]
		toks := syn.Mutate(rt, syn.GenDocumentTokens(rt, kind))
		tc := &TextCase{Text: syn.Render(rt, toks, false)}
		if gen.Chance(rt, 30, "byteMut") && len(tc.Text) > 0 {
			b := []byte(tc.Text)
			i := gen.Uniform(rt, 256, "at") * len(b) / 256
			switch gen.Uniform(rt, 4, "how") {
			case 0:
				b = b[:i]
			case 1:
				b[i] = []byte{'"', '\\', 0, '.', '?', '1', '-', 'e', '\n', '\r'}[gen.Uniform(rt, 10, "byte")]
			case 2:
				b = append(b[:i], b[i+1:]...)
			default:
				b = append(b[:i], append([]byte{[]byte{'"', '\\', '.', '#'}[gen.Uniform(rt, 4, "ins")]}, b[i:]...)...)
			}
			tc.Text = string(b)
		}
		msg, class := c18Syntax(tc)
		stats.R.Class(class)
		nt := class == "syntax_error" && (strings.ContainsAny(tc.Text, "\r\n"))
		stats.R.Case(tc.Text, nt, func() interface{} { return tc.Text })
		if msg != "" {
			violation(rt, "C18", "syntax", tc, "%s", msg)
		}
	})
}

// ---------------------------------------------------------------------------------------------
// field errors: path = response keys and indices of the failing field, data there (or at a
// prefix) is null, location = start of an occurrence of that field

func c18Field(c *ExecCase) (msg string, nErrors int, hasIndex bool) {
	c.fix()
	pr := model.Print(c.Doc, c.Layout)
	c.Text = pr.Text
	b, err := build.New(c.Schema, c.World, build.Options{})
	if err != nil {
		return "HARNESS: " + err.Error(), 0, false
	}
	want := ref.Execute(c.Schema, c.Doc, c.OpName, c.Vars, c.World)
	if want.ReqError != "" {
		return "", 0, false
	}
	callAt := map[string]ref.Call{}
	for _, call := range want.Calls {
		callAt[ref.PathKey(call.Path)] = call
	}
	var plan *graphql.Plan
	for _, entry := range []string{"do", "plan", "cache", "cachenorm"} {
		lr, err := runEntry(b, c, pr.Text, entry, &plan)
		if err != nil {
			return "HARNESS: " + err.Error(), 0, false
		}
		wantPaths := map[string]int{}
		for _, e := range want.Errors {
			wantPaths[ref.PathKey(e.Path)]++
		}
		for _, e := range lr.Res.Errors {
			nErrors++
			pk := ref.PathKey(e.Path)
			if len(e.Path) == 0 {
				return fmt.Sprintf("entry %s: field error without a path: %q\n  document: %s", entry, e.Message, pr.Text), nErrors, hasIndex
			}
			if wantPaths[pk] == 0 {
				return fmt.Sprintf("entry %s: error path %v (%q) is not the path of a field that fails\n  failing paths: %v\n  document: %s", entry, e.Path, e.Message, wantPaths, pr.Text), nErrors, hasIndex
			}
			// data at the path, or at a prefix, is null
			cur := interface{}(lr.Res.Data)
			for _, step := range e.Path {
				if cur == nil {
					break
				}
				switch k := step.(type) {
				case string:
					m, _ := cur.(map[string]interface{})
					cur = m[k]
				case int:
					hasIndex = true
					l, _ := cur.([]interface{})
					if k < len(l) {
						cur = l[k]
					} else {
						cur = nil
					}
				}
			}
			if cur != nil {
				return fmt.Sprintf("entry %s: data at error path %v is %s, not null\n  document: %s", entry, e.Path, canonJSON(cur), pr.Text), nErrors, hasIndex
			}
			// locations: starts of occurrences of the failing field
			fieldPath := e.Path
			for len(fieldPath) > 0 {
				if _, isIdx := fieldPath[len(fieldPath)-1].(int); !isIdx {
					break
				}
				fieldPath = fieldPath[:len(fieldPath)-1]
			}
			call, ok := callAt[ref.PathKey(fieldPath)]
			if !ok {
				return fmt.Sprintf("entry %s: error path %v does not address an executed field\n  document: %s", entry, e.Path, pr.Text), nErrors, hasIndex
			}
			if len(e.Locations) == 0 {
				return fmt.Sprintf("entry %s: field error at %v carries no location\n  document: %s", entry, e.Path, pr.Text), nErrors, hasIndex
			}
			okPos := map[string]bool{}
			for _, occ := range call.Occ {
				off := pr.Pos[occ]
				l, col := model.LineCol(pr.Text, off)
				okPos[fmt.Sprintf("%d:%d", l, col)] = true
				// byte-counted column
				ls := lineStarts(pr.Text)
				okPos[fmt.Sprintf("%d:%d", l, off-ls[l-1]+1)] = true
			}
			if entry == "cachenorm" && known("KF-C18-normalized-locations") {
				stats.R.KnownHit("KF-C18-normalized-locations")
				continue // located in the text the cached plan was built from (known finding)
			}
			for _, loc := range e.Locations {
				if !okPos[fmt.Sprintf("%d:%d", loc.Line, loc.Column)] {
					return fmt.Sprintf("entry %s: error at path %v located at %d:%d, which is not the start of an occurrence of that field (occurrences at %v)\n  document: %q",
						entry, e.Path, loc.Line, loc.Column, okPos, pr.Text), nErrors, hasIndex
				}
			}
		}
	}
	return "", nErrors, hasIndex
}

func TestC18_Field(t *testing.T) {
	var rc ExecCase
	if loadReplay(t, "C18", &rc, "field") {
		if msg, _, _ := c18Field(&rc); msg != "" {
			t.Fatalf("VERIF-FAIL property=C18 sub=field replay=%s :: %s", replayFile(), msg)
		}
		return
	}
	rapid.Check(t, func(rt *rapid.T) {
		c, _ := genExecCase(rt, gen.SchemaOpts{Mutation: true}, gen.DocOpts{Budget: 25}, gen.WorldOpts{Adversarial: 40, Hostile: true, AllowInf: true})
		c.Layout = &model.Layout{Seps: rapid.SliceOfN(rapid.IntRange(0, model.NumASCIISeparators-1), 1, 7).Draw(rt, "seps")}
		msg, nErr, hasIdx := c18Field(c)
		multiline := strings.ContainsAny(c.Text, "\r\n")
		if nErr > 0 {
			stats.R.Class("field_errors")
		}
		if hasIdx {
			stats.R.Class("path_with_list_index")
		}
		if multiline {
			stats.R.Class("multi_line_layout")
		}
		stats.R.Case(caseKey(c), nErr > 0 && (multiline || hasIdx), func() interface{} {
			return map[string]interface{}{"document": c.Text, "outcomes": c.World.Outcomes}
		})
		if msg != "" {
			violation(rt, "C18", "field", c, "%s", msg)
		}
	})
}

// ---------------------------------------------------------------------------------------------
// validation errors: every location is the start of a node the violated rule may blame

func c18Validation(c *ValCase) (msg string, nLoc int) {
	pr := model.Print(c.Doc, c.Layout)
	c.Text = pr.Text
	b, err := build.New(c.Schema, &ref.World{S: c.Schema}, build.Options{})
	if err != nil {
		return "HARNESS: " + err.Error(), 0
	}
	doc, perr := parseText(pr.Text)
	if perr != nil {
		return "HARNESS: " + perr.Error(), 0
	}
	want := ref.Validate(c.Schema, c.Doc)
	unspec := unspecifiedRules(c)
	for i, name := range ref.RuleNames {
		if _, skip := unspec[name]; skip || len(want[name]) == 0 {
			continue
		}
		vr := graphql.ValidateDocument(&b.Schema, doc, []graphql.ValidationRuleFn{graphql.SpecifiedRules[i]})
		var nodes []interface{}
		for _, v := range want[name] {
			nodes = append(nodes, v.Nodes...)
		}
		okPos := posSet(pr, nodes)
		for _, e := range vr.Errors {
			for _, l := range e.Locations {
				nLoc++
				if l.Line < 1 || l.Column < 1 {
					return fmt.Sprintf("rule %s: location %d:%d is not 1-based\n  document: %q", name, l.Line, l.Column, pr.Text), nLoc
				}
				if _, _, ok := offsetsOf(pr.Text, l.Line, l.Column); !ok {
					return fmt.Sprintf("rule %s: location %d:%d is outside the text\n  document: %q", name, l.Line, l.Column, pr.Text), nLoc
				}
				if !okPos[fmt.Sprintf("%d:%d", l.Line, l.Column)] {
					var okl []string
					for k := range okPos {
						okl = append(okl, k)
					}
					return fmt.Sprintf("rule %s: error %q located at %d:%d, which is not the start of a node this violation may be blamed on (acceptable: %v; %s)\n  document: %q",
						name, oneLine(e.Message), l.Line, l.Column, okl, want[name][0].Msg, pr.Text), nLoc
				}
			}
		}
	}
	return "", nLoc
}

func TestC18_Validation(t *testing.T) {
	var rc ValCase
	if loadReplay(t, "C18", &rc, "validation") {
		if msg, _ := c18Validation(&rc); msg != "" {
			t.Fatalf("VERIF-FAIL property=C18 sub=validation replay=%s :: %s", replayFile(), msg)
		}
		return
	}
	nOps := gen.NumInjectionOperators()
	rapid.Check(t, func(rt *rapid.T) {
		s := gen.Schema(rt, gen.SchemaOpts{Mutation: true, Directives: true})
		d, _, _ := gen.Doc(rt, s, gen.DocOpts{Budget: 20})
		c := &ValCase{Schema: s, Doc: d, Layout: &model.Layout{Seps: rapid.SliceOfN(rapid.IntRange(0, model.NumASCIISeparators-1), 1, 7).Draw(rt, "seps")}}
		op := (rapid.IntRange(0, nOps-1).Draw(rt, "operator")*7919 + gen.Uniform(rt, 256, "opMix")) % nOps
		if nd, inj, ok := gen.InjectViolation(rt, s, c.Doc, op); ok {
			c.Doc = nd
			c.Operators = append(c.Operators, inj.Operator)
		}
		msg, nLoc := c18Validation(c)
		if nLoc > 0 {
			stats.R.Class("validation_errors_located")
		}
		stats.R.Case(caseKey(c), nLoc > 0 && strings.ContainsAny(c.Text, "\r\n"), func() interface{} {
			return map[string]interface{}{"document": c.Text, "operators": c.Operators}
		})
		if msg != "" {
			violation(rt, "C18", "validation", c, "%s\n  injected: %v", msg, c.Operators)
		}
	})
}
