package props

import (
	"fmt"
	"regexp"
	"sort"
	"strings"
	"testing"

	"github.com/graphql-go/graphql"
	"pgregory.net/rapid"

	"verif/gen"
	"verif/model"
	"verif/ref"
	"verif/stats"
)

// C11 — schema construction never yields an inconsistent type system.

// Fault is one malformation injected into an otherwise valid configuration.
type Fault struct {
	Op     string `json:"op"`
	Target string `json:"target,omitempty"` // type name
	Sub    string `json:"sub,omitempty"`    // field / arg / value name
	Arg    string `json:"arg,omitempty"`    // replacement name / type
	// Bad: the illegal name an invalid*Name operator puts in place ("" = the operator's stock one)
	Bad string `json:"bad,omitempty"`
}

// illegalNames do not match /^[_a-zA-Z][_a-zA-Z0-9]*$/: punctuation, leading digits, blanks,
// and letters / digits / marks outside ASCII.
var illegalNames = []string{"bad-name", "1x", "a b", "bad.value", "x-", "-", "$x", "a!", "Caf\u00e9", "gr\u00f6\u00dfe", "\u03b1", "L\u0663", "x\u0301", "\uff58", "a\u200b", "\u65e5\u672c", "_\u00e9", "x\u00b2"}

func (f *Fault) bad(stock string) string {
	if f.Bad != "" {
		return f.Bad
	}
	return stock
}

type ConfCase struct {
	Schema *model.Schema `json:"schema"`
	Faults []Fault       `json:"faults,omitempty"`
	Append []string      `json:"append,omitempty"` // types appended after NewSchema, in this order
	Omit   []string      `json:"omit,omitempty"`   // types left out of NewSchema that arrive only through an appended type
	// OnlyRoots: no types are supplied explicitly, the schema is what the roots reach
	OnlyRoots bool `json:"onlyRoots,omitempty"`
}

var c11Ops = []string{
	"dupNameAcrossKinds", "invalidTypeName", "invalidFieldName", "invalidArgName", "invalidEnumValueName", "invalidInputFieldName", "reservedTypeName", "builtinScalarName",
	"emptyFields", "emptyEnumValues", "emptyUnionMembers", "emptyInputFields",
	"nilInTypes", "nilUnionMember", "nilInterface", "nilArgConfig", "nilEnumValueConfig", "nilDirective", "nilDirectiveArg", "nilFieldType", "nilField", "typedNilQuery", "typedNilMutation", "nilInputFieldConfig", "nilInputFieldType", "nilArgType",
	"ifaceFieldMissing", "ifaceFieldWrongType", "ifaceFieldContravariant", "ifaceArgMissing", "ifaceArgTypeDiffers", "ifaceExtraRequiredArg", "ifaceExtraOptionalArg",
	"nonNullOfNonNull", "listOfNil", "nonNullOfNil", "nonNullOfNonNullBelowList", "nonNullOfNonNullArg", "nonNullOfNonNullInputField",
	"objectAsArgType", "inputObjectAsFieldType", "objectAsInputFieldType", "interfaceAsArgType",
	"missingQuery", "duplicateUnionMember", "duplicateInterface", "noResolveTypeNoIsTypeOf", "invalidDirectiveName", "directiveWithoutLocations",
}

// libBuilder builds library types from the model, applying faults.
type libBuilder struct {
	m      *model.Schema
	faults []Fault
	types  map[string]graphql.Type
	objs   map[string]*graphql.Object
}

func (b *libBuilder) has(op, target, sub string) *Fault {
	for i := range b.faults {
		f := &b.faults[i]
		if f.Op == op && (target == "" || f.Target == target) && (sub == "" || f.Sub == sub) {
			return f
		}
	}
	return nil
}

func (b *libBuilder) typeName(td *model.TypeDef) string {
	if f := b.has("invalidTypeName", td.Name, ""); f != nil {
		return f.Arg
	}
	if f := b.has("reservedTypeName", td.Name, ""); f != nil {
		return "__" + td.Name
	}
	if f := b.has("builtinScalarName", td.Name, ""); f != nil {
		return "String"
	}
	if f := b.has("dupNameAcrossKinds", td.Name, ""); f != nil {
		return f.Arg
	}
	return td.Name
}

func (b *libBuilder) wrap(t model.TypeRef, named graphql.Type) graphql.Type {
	out := named
	for i := len(t.Wrap) - 1; i >= 0; i-- {
		if t.Wrap[i] == '!' {
			out = graphql.NewNonNull(out)
		} else {
			out = graphql.NewList(out)
		}
	}
	return out
}

func (b *libBuilder) ty(t model.TypeRef) graphql.Type {
	named := b.types[t.Name]
	if named == nil {
		return nil
	}
	return b.wrap(t, named)
}

func (b *libBuilder) args(owner, field string, defs []*model.ArgDef) graphql.FieldConfigArgument {
	out := graphql.FieldConfigArgument{}
	for _, a := range defs {
		name := a.Name
		if f := b.has("invalidArgName", owner, field); f != nil && f.Arg == a.Name {
			name = f.bad("bad-arg")
		}
		cfg := &graphql.ArgumentConfig{Type: b.inType(a.Type), DefaultValue: ref.DefaultGo(b.m, a.Type, a.Default)}
		if f := b.has("nilArgConfig", owner, field); f != nil && f.Arg == a.Name {
			cfg = nil
		}
		if cfg == nil {
			// the argument's configuration is nil: the other argument faults have nothing to act on
			out[name] = cfg
			continue
		}
		if f := b.has("nilArgType", owner, field); f != nil && f.Arg == a.Name {
			cfg.Type = nil
		}
		if f := b.has("nonNullOfNonNullArg", owner, field); f != nil && f.Arg == a.Name {
			cfg.Type = graphql.NewNonNull(graphql.NewNonNull(graphql.Int))
			if f.Bad != "" {
				cfg.Type = graphql.NewList(cfg.Type)
			}
		}
		if f := b.has("objectAsArgType", owner, field); f != nil && f.Arg == a.Name {
			cfg.Type = inputOf(b.firstOfKind(model.KObject))
		}
		if f := b.has("interfaceAsArgType", owner, field); f != nil && f.Arg == a.Name {
			cfg.Type = inputOf(b.firstOfKind(model.KIface))
		}
		if f := b.has("ifaceArgTypeDiffers", owner, field); f != nil && f.Arg == a.Name {
			if a.Type.Name == "Int" {
				cfg.Type = graphql.String
			} else {
				cfg.Type = graphql.Int
			}
		}
		if f := b.has("ifaceArgMissing", owner, field); f != nil && f.Arg == a.Name {
			continue
		}
		out[name] = cfg
	}
	if b.has("ifaceExtraRequiredArg", owner, field) != nil {
		out["zzRequired"] = &graphql.ArgumentConfig{Type: graphql.NewNonNull(graphql.Int)}
	}
	if b.has("ifaceExtraOptionalArg", owner, field) != nil {
		out["zzOptional"] = &graphql.ArgumentConfig{Type: graphql.Int}
	}
	return out
}

func inputOf(t graphql.Type) graphql.Input {
	if t == nil {
		return nil
	}
	in, _ := t.(graphql.Input)
	return in
}

func (b *libBuilder) inType(t model.TypeRef) graphql.Input { return inputOf(b.ty(t)) }

func (b *libBuilder) firstOfKind(kind string) graphql.Type {
	for _, td := range b.m.Types {
		if td.Kind == kind {
			return b.types[td.Name]
		}
	}
	return nil
}

func (b *libBuilder) fields(td *model.TypeDef) graphql.Fields {
	out := graphql.Fields{}
	if b.has("emptyFields", td.Name, "") != nil {
		return out
	}
	for _, fd := range td.Fields {
		name := fd.Name
		if f := b.has("invalidFieldName", td.Name, fd.Name); f != nil {
			name = f.bad("bad name")
		}
		if b.has("ifaceFieldMissing", td.Name, fd.Name) != nil {
			continue
		}
		var ft graphql.Output
		if t := b.ty(fd.Type); t != nil {
			ft, _ = t.(graphql.Output)
		}
		switch {
		case b.has("nilFieldType", td.Name, fd.Name) != nil:
			ft = nil
		case b.has("ifaceFieldWrongType", td.Name, fd.Name) != nil:
			if fd.Type.Name == "Int" {
				ft = graphql.String
			} else {
				ft = graphql.Int
			}
		case b.has("ifaceFieldContravariant", td.Name, fd.Name) != nil:
			// nullable where the interface demands non-null (or: the interface's supertype)
			if nn, ok := ft.(*graphql.NonNull); ok {
				ft, _ = nn.OfType.(graphql.Output)
			}
		case b.has("nonNullOfNonNull", td.Name, fd.Name) != nil:
			ft = graphql.NewNonNull(graphql.NewNonNull(graphql.String))
		case b.has("nonNullOfNonNullBelowList", td.Name, fd.Name) != nil:
			ft = graphql.NewList(graphql.NewNonNull(graphql.NewNonNull(graphql.String)))
		case b.has("listOfNil", td.Name, fd.Name) != nil:
			ft = graphql.NewList(nil)
		case b.has("nonNullOfNil", td.Name, fd.Name) != nil:
			ft = graphql.NewNonNull(nil)
		case b.has("inputObjectAsFieldType", td.Name, fd.Name) != nil:
			if t := b.firstOfKind(model.KInput); t != nil {
				ft, _ = t.(graphql.Output)
			}
		}
		field := &graphql.Field{Type: ft, Args: b.args(td.Name, fd.Name, fd.Args), Description: fd.Desc, DeprecationReason: fd.Deprecation}
		if b.has("nilField", td.Name, fd.Name) != nil {
			field = nil
		}
		out[name] = field
	}
	return out
}

// build constructs every library type (constructors must not panic) and returns the config.
func (b *libBuilder) build() graphql.SchemaConfig {
	m := b.m
	b.types = map[string]graphql.Type{"Int": graphql.Int, "Float": graphql.Float, "String": graphql.String, "Boolean": graphql.Boolean, "ID": graphql.ID}
	b.objs = map[string]*graphql.Object{}
	for _, td := range m.Types {
		td := td
		switch td.Kind {
		case model.KScalar:
			b.types[td.Name] = graphql.NewScalar(graphql.ScalarConfig{Name: b.typeName(td), Serialize: func(v interface{}) interface{} { return v }})
		case model.KEnum:
			vals := graphql.EnumValueConfigMap{}
			if b.has("emptyEnumValues", td.Name, "") == nil {
				for _, v := range td.Values {
					name := v.Name
					if f := b.has("invalidEnumValueName", td.Name, v.Name); f != nil {
						name = f.bad("bad.value")
					}
					cfg := &graphql.EnumValueConfig{Value: v.InternalGo(), DeprecationReason: v.Deprecation}
					if b.has("nilEnumValueConfig", td.Name, v.Name) != nil {
						cfg = nil
					}
					vals[name] = cfg
				}
			}
			b.types[td.Name] = graphql.NewEnum(graphql.EnumConfig{Name: b.typeName(td), Values: vals})
		}
	}
	for _, td := range m.Types {
		td := td
		if td.Kind != model.KInput {
			continue
		}
		mk := func() graphql.InputObjectConfigFieldMap {
			fm := graphql.InputObjectConfigFieldMap{}
			if b.has("emptyInputFields", td.Name, "") != nil {
				return fm
			}
			for _, f := range td.InputFields {
				name := f.Name
				if ff := b.has("invalidInputFieldName", td.Name, f.Name); ff != nil {
					name = ff.bad("bad-field")
				}
				cfg := &graphql.InputObjectFieldConfig{Type: b.inType(f.Type), DefaultValue: ref.DefaultGo(m, f.Type, f.Default)}
				switch {
				case b.has("nilInputFieldConfig", td.Name, f.Name) != nil:
					cfg = nil
				case b.has("nilInputFieldType", td.Name, f.Name) != nil:
					cfg.Type = nil
				case b.has("objectAsInputFieldType", td.Name, f.Name) != nil:
					cfg.Type = inputOf(b.firstOfKind(model.KObject))
				case b.has("nonNullOfNonNullInputField", td.Name, f.Name) != nil:
					cfg.Type = graphql.NewNonNull(graphql.NewNonNull(graphql.Int))
					cfg.DefaultValue = nil
				}
				fm[name] = cfg
			}
			return fm
		}
		b.types[td.Name] = graphql.NewInputObject(graphql.InputObjectConfig{Name: b.typeName(td), Fields: graphql.InputObjectConfigFieldMapThunk(mk)})
	}
	for _, td := range m.Types {
		td := td
		if td.Kind != model.KIface {
			continue
		}
		cfg := graphql.InterfaceConfig{Name: b.typeName(td), Fields: graphql.FieldsThunk(func() graphql.Fields { return b.fields(td) })}
		if td.HasResolveType && b.has("noResolveTypeNoIsTypeOf", td.Name, "") == nil {
			cfg.ResolveType = func(p graphql.ResolveTypeParams) *graphql.Object { return nil }
		}
		b.types[td.Name] = graphql.NewInterface(cfg)
	}
	noIsTypeOf := map[string]bool{}
	for _, f := range b.faults {
		if f.Op == "noResolveTypeNoIsTypeOf" {
			for _, p := range m.PossibleTypes(f.Target) {
				noIsTypeOf[p] = true
			}
		}
	}
	for _, td := range m.Types {
		td := td
		if td.Kind != model.KObject {
			continue
		}
		cfg := graphql.ObjectConfig{Name: b.typeName(td), Fields: graphql.FieldsThunk(func() graphql.Fields { return b.fields(td) })}
		var ifaces []*graphql.Interface
		for _, i := range td.Interfaces {
			if it, ok := b.types[i].(*graphql.Interface); ok {
				ifaces = append(ifaces, it)
			}
		}
		if b.has("nilInterface", td.Name, "") != nil {
			ifaces = append(ifaces, nil)
		}
		if b.has("duplicateInterface", td.Name, "") != nil && len(ifaces) > 0 {
			// the first declared interface twice, the others after it
			ifaces = append([]*graphql.Interface{ifaces[0]}, ifaces...)
		}
		cfg.Interfaces = ifaces
		if td.HasIsTypeOf && !noIsTypeOf[td.Name] {
			cfg.IsTypeOf = func(p graphql.IsTypeOfParams) bool { return false }
		}
		o := graphql.NewObject(cfg)
		b.types[td.Name] = o
		b.objs[td.Name] = o
	}
	for _, td := range m.Types {
		td := td
		if td.Kind != model.KUnion {
			continue
		}
		var members []*graphql.Object
		if b.has("emptyUnionMembers", td.Name, "") == nil {
			for _, n := range td.Members {
				members = append(members, b.objs[n])
			}
		}
		if b.has("nilUnionMember", td.Name, "") != nil {
			members = append(members, nil)
		}
		if b.has("duplicateUnionMember", td.Name, "") != nil && len(members) > 0 {
			members = append(members, members[0])
		}
		cfg := graphql.UnionConfig{Name: b.typeName(td), Types: members}
		if td.HasResolveType && b.has("noResolveTypeNoIsTypeOf", td.Name, "") == nil {
			cfg.ResolveType = func(p graphql.ResolveTypeParams) *graphql.Object { return nil }
		}
		b.types[td.Name] = graphql.NewUnion(cfg)
	}
	cfg := graphql.SchemaConfig{}
	if m.Query != "" && b.has("missingQuery", "", "") == nil {
		cfg.Query = b.objs[m.Query]
	}
	if b.has("typedNilQuery", "", "") != nil {
		cfg.Query = (*graphql.Object)(nil)
	}
	if m.Mutation != "" {
		cfg.Mutation = b.objs[m.Mutation]
	}
	if b.has("typedNilMutation", "", "") != nil {
		cfg.Mutation = (*graphql.Object)(nil)
	}
	if m.Subscription != "" {
		cfg.Subscription = b.objs[m.Subscription]
	}
	return cfg
}

var nameRe = regexp.MustCompile(`^[_a-zA-Z][_a-zA-Z0-9]*$`)

// consistent is the independent consistency checker over the schema's public accessors.
func consistent(s *graphql.Schema) string {
	tm := s.TypeMap()
	for _, n := range introspectionTypeNames {
		if tm[n] == nil {
			return "type map lacks the introspection type " + n
		}
	}
	var names []string
	for n := range tm {
		names = append(names, n)
	}
	sort.Strings(names)
	named := func(t graphql.Type) graphql.Type {
		for t != nil {
			switch w := t.(type) {
			case *graphql.List:
				t = w.OfType
			case *graphql.NonNull:
				if _, nn := w.OfType.(*graphql.NonNull); nn {
					return nil
				}
				t = w.OfType
			default:
				return t
			}
		}
		return nil
	}
	inMap := func(t graphql.Type, where string) string {
		nt := named(t)
		if nt == nil || isNilIface(nt) {
			return where + ": type reference without a named type (nil or non-null of non-null)"
		}
		if tm[nt.Name()] != nt {
			return fmt.Sprintf("%s: refers to %s, which is not (that object) in the type map", where, nt.Name())
		}
		return ""
	}
	for _, n := range names {
		t := tm[n]
		if t == nil || isNilIface(t) {
			return "type map entry " + n + " is nil"
		}
		if t.Name() != n {
			return fmt.Sprintf("type map key %s holds a type named %s", n, t.Name())
		}
		if !nameRe.MatchString(n) {
			return fmt.Sprintf("type %q has an illegal name", n)
		}
		// names beginning with "__" are reserved for introspection; the edition this port follows
		// only warns about them, so they are not counted as illegal here (DESIGN: ambiguous)
		builtin := strings.HasPrefix(n, "__")
		checkFields := func(fields graphql.FieldDefinitionMap) string {
			if len(fields) == 0 {
				return fmt.Sprintf("type %s has no fields", n)
			}
			for fname, f := range fields {
				if f == nil {
					return fmt.Sprintf("%s.%s is nil", n, fname)
				}
				if !nameRe.MatchString(fname) || (strings.HasPrefix(fname, "__") && !builtin) {
					return fmt.Sprintf("%s.%s: illegal field name", n, fname)
				}
				if m := inMap(f.Type, n+"."+fname); m != "" {
					return m
				}
				if !graphql.IsOutputType(f.Type) {
					return fmt.Sprintf("%s.%s: type %v is not an output type", n, fname, f.Type)
				}
				seen := map[string]bool{}
				for _, a := range f.Args {
					if a == nil {
						return fmt.Sprintf("%s.%s has a nil argument", n, fname)
					}
					if !nameRe.MatchString(a.Name()) || seen[a.Name()] {
						return fmt.Sprintf("%s.%s(%s:): illegal or duplicate argument name", n, fname, a.Name())
					}
					seen[a.Name()] = true
					if m := inMap(a.Type, fmt.Sprintf("%s.%s(%s:)", n, fname, a.Name())); m != "" {
						return m
					}
					if !graphql.IsInputType(a.Type) {
						return fmt.Sprintf("%s.%s(%s:): type %v is not an input type", n, fname, a.Name(), a.Type)
					}
				}
			}
			return ""
		}
		switch tt := t.(type) {
		case *graphql.Object:
			if m := checkFields(tt.Fields()); m != "" {
				return m
			}
			for _, i := range tt.Interfaces() {
				if i == nil {
					return n + " declares a nil interface"
				}
				if tm[i.Name()] != i {
					return fmt.Sprintf("%s implements %s, which is not in the type map", n, i.Name())
				}
				if m := implements(s, tt, i); m != "" {
					return m
				}
				if !s.IsPossibleType(i, tt) {
					return fmt.Sprintf("%s declares %s but IsPossibleType says no", n, i.Name())
				}
			}
		case *graphql.Interface:
			if m := checkFields(tt.Fields()); m != "" {
				return m
			}
			seen := map[string]bool{}
			for _, p := range s.PossibleTypes(tt) {
				if p == nil {
					return n + ": nil possible type"
				}
				if seen[p.Name()] {
					return fmt.Sprintf("possible types of %s list %s twice", n, p.Name())
				}
				seen[p.Name()] = true
				declares := false
				for _, i := range p.Interfaces() {
					declares = declares || i == tt
				}
				if !declares || tm[p.Name()] != p {
					return fmt.Sprintf("possible types of %s contain %s, which does not declare it / is not in the type map", n, p.Name())
				}
			}
			for _, on := range names {
				if o, ok := tm[on].(*graphql.Object); ok {
					declares := false
					for _, i := range o.Interfaces() {
						declares = declares || i == tt
					}
					if declares != seen[on] {
						return fmt.Sprintf("%s declares %s = %v, but possible types say %v", on, n, declares, seen[on])
					}
					if s.IsPossibleType(tt, o) != declares {
						return fmt.Sprintf("IsPossibleType(%s, %s) = %v, declared = %v", n, on, !declares, declares)
					}
				}
			}
		case *graphql.Union:
			ms := tt.Types()
			if len(ms) == 0 {
				return "union " + n + " has no members"
			}
			seen := map[string]bool{}
			for _, p := range ms {
				if p == nil {
					return "union " + n + " has a nil member"
				}
				if seen[p.Name()] {
					return fmt.Sprintf("union %s lists %s twice", n, p.Name())
				}
				seen[p.Name()] = true
				if tm[p.Name()] != p {
					return fmt.Sprintf("union %s member %s is not in the type map", n, p.Name())
				}
				if !s.IsPossibleType(tt, p) {
					return fmt.Sprintf("IsPossibleType(%s, %s) is false for a member", n, p.Name())
				}
			}
		case *graphql.Enum:
			if len(tt.Values()) == 0 {
				return "enum " + n + " has no values"
			}
			for _, v := range tt.Values() {
				if v == nil || !nameRe.MatchString(v.Name) {
					return fmt.Sprintf("enum %s has an illegal value", n)
				}
			}
		case *graphql.InputObject:
			if len(tt.Fields()) == 0 {
				return "input object " + n + " has no fields"
			}
			for fname, f := range tt.Fields() {
				if f == nil || !nameRe.MatchString(fname) {
					return fmt.Sprintf("%s.%s: illegal input field", n, fname)
				}
				if m := inMap(f.Type, n+"."+fname); m != "" {
					return m
				}
				if !graphql.IsInputType(f.Type) {
					return fmt.Sprintf("%s.%s: type %v is not an input type", n, fname, f.Type)
				}
			}
		case *graphql.Scalar:
		default:
			return fmt.Sprintf("type map holds a %T under %s", t, n)
		}
	}
	q := s.QueryType()
	if q == nil || tm[q.Name()] != q {
		return "schema has no query root in its type map"
	}
	if mt := s.MutationType(); mt != nil && tm[mt.Name()] != mt {
		return "mutation root is not in the type map"
	}
	if st := s.SubscriptionType(); st != nil && tm[st.Name()] != st {
		return "subscription root is not in the type map"
	}
	return ""
}

// isSub is the harness's own subtype relation for interface implementation.
func isSub(s *graphql.Schema, sub, super graphql.Type) bool {
	if sub == super {
		return true
	}
	if sn, ok := super.(*graphql.NonNull); ok {
		if bn, ok := sub.(*graphql.NonNull); ok {
			return isSub(s, bn.OfType, sn.OfType)
		}
		return false
	}
	if bn, ok := sub.(*graphql.NonNull); ok {
		return isSub(s, bn.OfType, super)
	}
	if sl, ok := super.(*graphql.List); ok {
		if bl, ok := sub.(*graphql.List); ok {
			return isSub(s, bl.OfType, sl.OfType)
		}
		return false
	}
	if _, ok := sub.(*graphql.List); ok {
		return false
	}
	if ab, ok := super.(graphql.Abstract); ok {
		if o, ok := sub.(*graphql.Object); ok {
			return s.IsPossibleType(ab, o)
		}
	}
	return false
}

func sameType(a, b graphql.Type) bool {
	if a == b {
		return true
	}
	switch x := a.(type) {
	case *graphql.NonNull:
		if y, ok := b.(*graphql.NonNull); ok {
			return sameType(x.OfType, y.OfType)
		}
	case *graphql.List:
		if y, ok := b.(*graphql.List); ok {
			return sameType(x.OfType, y.OfType)
		}
	}
	return false
}

func implements(s *graphql.Schema, o *graphql.Object, i *graphql.Interface) string {
	of := o.Fields()
	for fname, ifd := range i.Fields() {
		ofd := of[fname]
		if ofd == nil {
			return fmt.Sprintf("%s declares %s but lacks field %s", o.Name(), i.Name(), fname)
		}
		if !isSub(s, ofd.Type, ifd.Type) {
			return fmt.Sprintf("%s.%s has type %v, interface %s demands %v", o.Name(), fname, ofd.Type, i.Name(), ifd.Type)
		}
		for _, ia := range ifd.Args {
			var oa *graphql.Argument
			for _, x := range ofd.Args {
				if x.Name() == ia.Name() {
					oa = x
				}
			}
			if oa == nil {
				return fmt.Sprintf("%s.%s lacks argument %s of interface %s", o.Name(), fname, ia.Name(), i.Name())
			}
			if !sameType(oa.Type, ia.Type) {
				return fmt.Sprintf("%s.%s(%s:) has type %v, interface %s has %v", o.Name(), fname, ia.Name(), oa.Type, i.Name(), ia.Type)
			}
		}
		for _, oa := range ofd.Args {
			found := false
			for _, ia := range ifd.Args {
				found = found || ia.Name() == oa.Name()
			}
			if _, nn := oa.Type.(*graphql.NonNull); !found && nn {
				return fmt.Sprintf("%s.%s(%s:) is an extra required argument not in interface %s", o.Name(), fname, oa.Name(), i.Name())
			}
		}
	}
	return ""
}

func schemaShape(s *graphql.Schema) string {
	var parts []string
	tm := s.TypeMap()
	for n, t := range tm {
		p := n
		if ab, ok := t.(graphql.Abstract); ok {
			var ps []string
			for _, o := range s.PossibleTypes(ab) {
				ps = append(ps, o.Name())
			}
			sort.Strings(ps)
			p += "=" + strings.Join(ps, "|")
		}
		parts = append(parts, p)
	}
	sort.Strings(parts)
	return strings.Join(parts, " ")
}

func init() {
	registerKnown(&knownFinding{ID: "KF-C11-nil-only-fields", Prop: "C11", What: "type whose configured fields are all nil is accepted without fields",
		Repro: func() bool {
			s, err := graphql.NewSchema(graphql.SchemaConfig{Query: graphql.NewObject(graphql.ObjectConfig{Name: "Query", Fields: graphql.Fields{"a": nil}})})
			return err == nil && len(s.QueryType().Fields()) == 0
		}})
}

func c11Oracle(c *ConfCase) (msg string, accepted bool) {
	attempt := func(omit []string) (s graphql.Schema, b *libBuilder, err error, pan string) {
		defer func() {
			if r := recover(); r != nil {
				pan = fmt.Sprint(r)
			}
		}()
		b = &libBuilder{m: c.Schema, faults: c.Faults}
		cfg := b.build()
		for _, td := range c.Schema.Types {
			skip := c.OnlyRoots
			for _, o := range omit {
				skip = skip || o == td.Name
			}
			if !skip {
				cfg.Types = append(cfg.Types, b.types[td.Name])
			}
		}
		if f := b.has("nilInTypes", "", ""); f != nil {
			// an untyped nil, or a typed nil pointer of any kind of type
			typedNils := []graphql.Type{nil, (*graphql.Object)(nil), (*graphql.List)(nil), (*graphql.NonNull)(nil), (*graphql.Enum)(nil), (*graphql.Scalar)(nil),
				(*graphql.Interface)(nil), (*graphql.Union)(nil), (*graphql.InputObject)(nil)}
			k := 0
			fmt.Sscanf(f.Arg, "%d", &k)
			cfg.Types = append(cfg.Types, typedNils[k%len(typedNils)])
		}
		if f := b.has("nilDirective", "", ""); f != nil {
			cfg.Directives = append(append([]*graphql.Directive{}, graphql.SpecifiedDirectives...), nil)
		}
		if f := b.has("nilDirectiveArg", "", ""); f != nil {
			cfg.Directives = append(append([]*graphql.Directive{}, graphql.SpecifiedDirectives...),
				graphql.NewDirective(graphql.DirectiveConfig{Name: "dx", Locations: []string{"FIELD"}, Args: graphql.FieldConfigArgument{"a": nil}}))
		}
		if f := b.has("invalidDirectiveName", "", ""); f != nil {
			cfg.Directives = append(append([]*graphql.Directive{}, graphql.SpecifiedDirectives...),
				graphql.NewDirective(graphql.DirectiveConfig{Name: "bad-dir", Locations: []string{"FIELD"}}))
		}
		if f := b.has("directiveWithoutLocations", "", ""); f != nil {
			cfg.Directives = append(append([]*graphql.Directive{}, graphql.SpecifiedDirectives...),
				graphql.NewDirective(graphql.DirectiveConfig{Name: "dy"}))
		}
		s, err = graphql.NewSchema(cfg)
		return
	}
	s, _, err, pan := attempt(nil)
	if pan != "" {
		return fmt.Sprintf("schema construction panicked: %s\n  faults: %+v", pan, c.Faults), false
	}
	if err != nil {
		if len(c.Faults) == 0 && c.OnlyRoots {
			stats.R.Exclude("roots_only_configuration_rejected")
			return "", false // what the roots reach need not be a valid schema on its own
		}
		if len(c.Faults) == 0 {
			return fmt.Sprintf("HARNESS/valid configuration rejected: %v", err), false
		}
		// the same malformed types arriving through AppendType: an error, or a consistent schema
		if len(c.Append) > 0 {
			s2, b2, err2, pan := attempt(append(append([]string{}, c.Append...), c.Omit...))
			if pan != "" || err2 != nil {
				return "", false // the fault is (also) in what remains: already judged above
			}
			for _, a := range c.Append {
				var perr error
				var pp string
				func() {
					defer func() {
						if r := recover(); r != nil {
							pp = fmt.Sprint(r)
						}
					}()
					perr = s2.AppendType(b2.types[a])
				}()
				if pp != "" {
					return fmt.Sprintf("AppendType(%s) panicked on a malformed type: %s\n  faults: %+v", a, pp, c.Faults), false
				}
				if perr != nil {
					return "", false
				}
			}
			var m, pp string
			func() {
				defer func() {
					if r := recover(); r != nil {
						pp = fmt.Sprint(r)
					}
				}()
				m = consistent(&s2)
			}()
			if pp != "" {
				return fmt.Sprintf("schema accepted by AppendType %v panics when inspected: %s\n  faults: %+v", c.Append, pp, c.Faults), true
			}
			if m != "" {
				return fmt.Sprintf("NewSchema rejects this configuration up front (%v), but AppendType %v (omitted up front: %v) returned no error and the schema is inconsistent: %s\n  faults: %+v", err, c.Append, c.Omit, m, c.Faults), true
			}
		}
		return "", false
	}
	var pan2 string
	func() {
		defer func() {
			if r := recover(); r != nil {
				pan2 = fmt.Sprint(r)
			}
		}()
		msg = consistent(&s)
	}()
	if pan2 != "" {
		return fmt.Sprintf("accepted schema panics when inspected: %s\n  faults: %+v", pan2, c.Faults), true
	}
	if msg != "" {
		// known finding: a type whose configured fields are all nil is accepted without fields
		for _, f := range c.Faults {
			// the name the type was built under (another fault may have renamed it)
			builtAs := f.Target
			if td := c.Schema.Type(f.Target); td != nil {
				builtAs = (&libBuilder{m: c.Schema, faults: c.Faults}).typeName(td)
			}
			if f.Op == "nilField" && (strings.Contains(msg, "type "+f.Target+" has no fields") || strings.Contains(msg, "type "+builtAs+" has no fields")) && known("KF-C11-nil-only-fields") {
				nilled := map[string]bool{}
				for _, g := range c.Faults {
					if g.Op == "nilField" && g.Target == f.Target {
						nilled[g.Sub] = true
					}
				}
				// every configured field of the type is nil (one fault on a one-field type, or one per field)
				if td := c.Schema.Type(f.Target); td != nil && len(nilled) == len(td.Fields) {
					stats.R.KnownHit("KF-C11-nil-only-fields")
					return "", true
				}
			}
		}
		return fmt.Sprintf("NewSchema returned no error but the schema is inconsistent: %s\n  faults: %+v", msg, c.Faults), true
	}
	// appending types afterwards gives the same schema as supplying them up front
	if len(c.Append) > 0 {
		s2, b2, err2, pan := attempt(append(append([]string{}, c.Append...), c.Omit...))
		if pan != "" {
			return "construction without the appended types panicked: " + pan, true
		}
		if err2 != nil {
			return "", true // the smaller configuration is not valid on its own (counted, not an alarm)
		}
		for _, a := range c.Append {
			var perr error
			var pp string
			func() {
				defer func() {
					if r := recover(); r != nil {
						pp = fmt.Sprint(r)
					}
				}()
				perr = s2.AppendType(b2.types[a])
			}()
			if pp != "" {
				return fmt.Sprintf("AppendType(%s) panicked: %s", a, pp), true
			}
			if perr != nil {
				return fmt.Sprintf("AppendType(%s) rejected a type that NewSchema accepts up front: %v", a, perr), true
			}
		}
		if m := consistent(&s2); m != "" {
			return fmt.Sprintf("schema is inconsistent after AppendType %v: %s", c.Append, m), true
		}
		if a, b := schemaShape(&s), schemaShape(&s2); a != b {
			return fmt.Sprintf("appending %v gives a different schema than supplying the types up front\n  up front: %s\n  appended: %s", c.Append, a, b), true
		}
	}
	return "", true
}

func TestC11(t *testing.T) {
	var rc ConfCase
	if loadReplay(t, "C11", &rc) {
		if msg, _ := c11Oracle(&rc); msg != "" {
			t.Fatalf("VERIF-FAIL property=C11 sub=construct replay=%s :: %s", replayFile(), msg)
		}
		return
	}
	rapid.Check(t, func(rt *rapid.T) {
		s := gen.Schema(rt, gen.SchemaOpts{Mutation: gen.Chance(rt, 50, "mutation"), ExtraObjects: true})
		c := &ConfCase{Schema: s}
		nFaults := []int{0, 1, 1, 1, 2}[gen.Uniform(rt, 5, "nFaults")]
		for i := 0; i < nFaults; i++ {
			f := Fault{Op: c11Ops[gen.Uniform(rt, len(c11Ops), "op")]}
			td := s.Types[gen.Uniform(rt, len(s.Types), "target")]
			// aim the fault at a type of a fitting kind where that matters
			want := map[string]string{"emptyEnumValues": model.KEnum, "invalidEnumValueName": model.KEnum, "nilEnumValueConfig": model.KEnum, "emptyUnionMembers": model.KUnion,
				"nilUnionMember": model.KUnion, "duplicateUnionMember": model.KUnion, "emptyInputFields": model.KInput, "invalidInputFieldName": model.KInput,
				"nilInputFieldConfig": model.KInput, "nilInputFieldType": model.KInput, "objectAsInputFieldType": model.KInput, "nonNullOfNonNullInputField": model.KInput, "nilInterface": model.KObject}
			if f.Op == "duplicateInterface" {
				// an object that declares as many interfaces as possible
				best := -1
				for _, x := range s.Types {
					if x.Kind == model.KObject && len(x.Interfaces) > best {
						td, best = x, len(x.Interfaces)
					}
				}
			}
			if k, ok := want[f.Op]; ok {
				for _, x := range s.Types {
					if x.Kind == k {
						td = x
					}
				}
			}
			if strings.HasPrefix(f.Op, "iface") {
				// an implementer of some interface, at an interface field
				for _, x := range s.Types {
					if x.Kind == model.KObject && len(x.Interfaces) > 0 {
						td = x
					}
				}
				if len(td.Interfaces) > 0 {
					it := s.Type(td.Interfaces[0])
					fd := it.Fields[gen.Uniform(rt, len(it.Fields), "ifaceField")]
					f.Sub = fd.Name
					if len(fd.Args) > 0 {
						f.Arg = fd.Args[0].Name
					}
				}
			} else if f.Op == "noResolveTypeNoIsTypeOf" {
				for _, x := range s.Types {
					if x.Kind == model.KIface || x.Kind == model.KUnion {
						td = x
					}
				}
			} else if td.Kind == model.KObject || td.Kind == model.KIface {
				if len(td.Fields) > 0 {
					fd := td.Fields[gen.Uniform(rt, len(td.Fields), "field")]
					f.Sub = fd.Name
					if len(fd.Args) > 0 {
						f.Arg = fd.Args[gen.Uniform(rt, len(fd.Args), "arg")].Name
					}
				}
			} else if td.Kind == model.KEnum && len(td.Values) > 0 {
				f.Sub = td.Values[gen.Uniform(rt, len(td.Values), "value")].Name
			} else if td.Kind == model.KInput && len(td.InputFields) > 0 {
				f.Sub = td.InputFields[gen.Uniform(rt, len(td.InputFields), "ifield")].Name
			}
			f.Target = td.Name
			switch f.Op {
			case "invalidTypeName":
				f.Arg = append([]string{""}, illegalNames...)[gen.Uniform(rt, len(illegalNames)+1, "badName")]
			case "invalidFieldName", "invalidArgName", "invalidEnumValueName", "invalidInputFieldName":
				if gen.Chance(rt, 70, "drawnBadName") {
					f.Bad = illegalNames[gen.Uniform(rt, len(illegalNames), "badName")]
				}
			case "nilInTypes":
				f.Arg = fmt.Sprint(gen.Uniform(rt, 9, "nilKind"))
			case "nonNullOfNonNullArg":
				if gen.Chance(rt, 40, "belowList") {
					f.Bad = "list"
				}
			case "dupNameAcrossKinds":
				other := s.Types[gen.Uniform(rt, len(s.Types), "other")]
				if other.Name == td.Name {
					continue
				}
				f.Arg = other.Name
			}
			c.Faults = append(c.Faults, f)
		}
		c.OnlyRoots = gen.Chance(rt, 25, "onlyRoots")
		if !c.OnlyRoots {
			drawAppend(rt, s, &c.Append, &c.Omit)
		}
		msg, accepted := c11Oracle(c)
		for _, f := range c.Faults {
			stats.R.Class("fault_" + f.Op)
			if accepted {
				stats.R.Class("accepted_despite_" + f.Op)
			}
		}
		if accepted {
			stats.R.Class("accepted")
		} else {
			stats.R.Class("rejected")
		}
		if len(c.Append) > 0 {
			stats.R.Class("append_history")
		}
		stats.R.Case(caseKey(c), len(c.Faults) > 0 || len(c.Append) >= 1, func() interface{} {
			return map[string]interface{}{"faults": c.Faults, "append": c.Append, "types": len(s.Types)}
		})
		if msg != "" {
			violation(rt, "C11", "construct", c, "%s", msg)
		}
	})
}
