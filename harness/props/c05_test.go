package props

import (
	"context"
	"fmt"
	"testing"
	"time"

	"github.com/graphql-go/graphql"
	"pgregory.net/rapid"

	"verif/build"
	"verif/gen"
	"verif/model"
	"verif/ref"
	"verif/stats"
)

// C05 — variables and arguments are coerced per declared type before resolvers run.

type CoerceCase struct {
	Schema  *model.Schema `json:"schema"`
	ArgType model.TypeRef `json:"argType"`
	ArgDef  *model.Val    `json:"argDefault,omitempty"`
	Value   *model.Val    `json:"value,omitempty"` // nil = not provided
	Bad     string        `json:"bad,omitempty"`   // name of the injected non-conformance
	VarDef  bool          `json:"varDefault,omitempty"`
	// VarAt selects an inner position of the value (list element / input-object field, counted
	// in pre-order, -1 = none) that is supplied through a variable inside the literal.
	VarAt int `json:"varAt"`
	// Mixed: besides x through a variable the probe gets literal arguments (bit 0: k: 7, bit 1: m: "s")
	Mixed int `json:"mixed,omitempty"`
	// TypedSlices: homogeneous list values of variables are handed over as []string, []int, []map[string]interface{} ...
	TypedSlices bool `json:"typedSlices,omitempty"`
}

// literalWithInnerVar writes the value as a literal in which the VarAt-th inner position is a
// variable reference; it returns the literal, the variable's declared type and its value.
func literalWithInnerVar(s *model.Schema, ty model.TypeRef, v *model.Val, at int) (lit *model.Val, vty model.TypeRef, vval *model.Val, ok bool) {
	n := 0
	bad := false
	var rec func(ty model.TypeRef, v *model.Val, top bool) *model.Val
	rec = func(ty model.TypeRef, v *model.Val, top bool) *model.Val {
		if v == nil || v.K == "null" {
			return nil
		}
		if !top {
			if n == at {
				n++
				vty, vval, ok = ty, v, true
				return model.Var("w")
			}
			n++
		}
		t := ty.Nullable()
		if t.IsList() {
			if v.K != "list" {
				return rec(t.Inner(), v, true) // list-of-one written as the bare value
			}
			out := model.List()
			out.L = []*model.Val{}
			for _, e := range v.L {
				le := rec(t.Inner(), e, false)
				if le == nil {
					bad = true // a null inside a list has no literal form in this edition
					return nil
				}
				out.L = append(out.L, le)
			}
			return out
		}
		td := s.Type(t.Name)
		if td != nil && td.Kind == model.KInput && v.K == "obj" {
			out := model.Obj()
			for _, f := range v.O {
				fd := td.InputField(f.N)
				if fd == nil {
					return nil
				}
				lf := rec(fd.Type, f.V, false)
				if lf == nil {
					continue
				}
				out.O = append(out.O, model.F(f.N, lf))
			}
			return out
		}
		l, _ := gen.ToLiteral(s, ty, v)
		return l
	}
	lit = rec(ty, v, true)
	return lit, vty, vval, ok && lit != nil && !bad
}

// probeArgs: the probe's arguments. x is the argument under test; k (with a default) and m exist so that one field
// occurrence can mix arguments written as literals with an argument given through a variable.
func (c *CoerceCase) probeArgs() []*model.ArgDef {
	return []*model.ArgDef{{Name: "x", Type: c.ArgType, Default: c.ArgDef}, {Name: "k", Type: model.T("Int"), Default: model.Int(5)}, {Name: "m", Type: model.T("String")}}
}

func (c *CoerceCase) schema() *model.Schema {
	// Q gets the probe field: probe(x: T = default): String (the World echoes Args into the value)
	s := *c.Schema
	s.Types = append([]*model.TypeDef{}, c.Schema.Types...)
	for i, td := range s.Types {
		if td.Name == "Q" {
			cp := *td
			cp.Fields = append(append([]*model.FieldDef{}, td.Fields...), &model.FieldDef{Name: "probe", Type: model.T("String"),
				Args: c.probeArgs()})
			s.Types[i] = &cp
		}
	}
	// the same probe as the one field of a subscription root: its Subscribe function must be
	// handed the coerced arguments too
	if s.Subscription == "" {
		s.Subscription = "SP"
		s.Types = append(s.Types, &model.TypeDef{Kind: model.KObject, Name: "SP", Fields: []*model.FieldDef{{Name: "probe", Type: model.T("String"),
			Args: c.probeArgs()}}})
	}
	return &s
}

// subscribeProbe subscribes to `subscription ... { probe(x: ...) }` and returns the arguments
// the Subscribe function was handed (nil, msg when the subscription fails).
func subscribeProbe(b *build.Built, w *ref.World, subArgs *[]map[string]interface{}, text string, vars map[string]interface{}) (map[string]interface{}, string) {
	*subArgs = nil
	ctx, cancel := context.WithCancel(build.WithSession(context.Background(), &build.Session{W: w}))
	defer cancel()
	ch := graphql.Subscribe(graphql.Params{Schema: b.Schema, RequestString: text, VariableValues: vars, Context: ctx})
	select {
	case r, ok := <-ch:
		if !ok || r == nil {
			return nil, "the subscription delivered nothing"
		}
		if len(r.Errors) > 0 {
			return nil, "the subscription failed: " + r.Errors[0].Message
		}
	case <-time.After(10 * time.Second):
		return nil, "the subscription delivered nothing within 10 s"
	}
	if len(*subArgs) != 1 {
		return nil, fmt.Sprintf("the Subscribe function was invoked %d times", len(*subArgs))
	}
	return (*subArgs)[0], ""
}

type probeRun struct {
	res   *graphql.Result
	calls []build.CallRec
}

func probe(b *build.Built, w *ref.World, text string, vars map[string]interface{}) probeRun {
	sess := &build.Session{W: w}
	res := graphql.Do(graphql.Params{Schema: b.Schema, RequestString: text, VariableValues: vars,
		Context: build.WithSession(context.Background(), sess)})
	return probeRun{res, sess.Snapshot()}
}

func c05Oracle(c *CoerceCase) (msg string, classes []string) {
	s := c.schema()
	w := &ref.World{S: s, Salt: 1}
	var subArgs []map[string]interface{}
	b, err := build.New(s, w, build.Options{Subscribe: func(defType, field string) graphql.FieldResolveFn {
		return func(p graphql.ResolveParams) (interface{}, error) {
			cp := map[string]interface{}{}
			for k, v := range p.Args {
				cp[k] = v
			}
			subArgs = append(subArgs, cp)
			return &ref.Tok{Type: defType, ID: "event"}, nil // a single-value source
		}
	}})
	if err != nil {
		return "HARNESS: schema rejected: " + err.Error(), nil
	}
	vd := &model.VarDef{Name: "v", Type: c.ArgType}
	inputs := map[string]*model.Val{}
	goVars := map[string]interface{}{}
	if c.Value != nil {
		inputs["v"] = c.Value
		goVars["v"] = c.Value.ToGo()
		if c.TypedSlices {
			goVars["v"] = c.Value.ToGoTyped()
		}
	}
	sel := []*model.Sel{{K: "field", Name: "probe", Args: []*model.Arg{{Name: "x", Val: model.Var("v")}}}}
	vdoc := &model.Doc{Defs: []*model.Def{{Kind: "query", Vars: []*model.VarDef{vd}, Sel: sel}}}
	vtext := model.Print(vdoc, nil).Text
	valid := ref.ValidVarValue(s, c.ArgType, c.Value)
	run := probe(b, w, vtext, goVars)
	// (a) non-coercible variables: error, no data, no resolver ran
	if !valid {
		classes = append(classes, "invalid_variable:"+c.Bad)
		if run.res.Data != nil || len(run.res.Errors) == 0 {
			return fmt.Sprintf("variable value %s does not coerce to %s (%s) but the request was answered: data=%s errors=%d\n  %s",
				model.ValString(c.Value), c.ArgType, c.Bad, canonJSON(run.res.Data), len(run.res.Errors), vtext), classes
		}
		if len(run.calls) > 0 {
			return fmt.Sprintf("variable value %s does not coerce to %s (%s) but %d callbacks ran\n  %s",
				model.ValString(c.Value), c.ArgType, c.Bad, len(run.calls), vtext), classes
		}
	} else {
		// (b) resolvers receive exactly the coerced argument map and variable values
		cvars, verr := ref.CoerceVariables(s, vdoc.Defs[0].Vars, inputs)
		if verr != nil {
			return "HARNESS: reference rejects a value it called valid", classes
		}
		wantArgs := ref.ArgValues(s, c.probeArgs(), sel[0].Args, cvars)
		if m := checkProbe(run, wantArgs, cvars, "variable", vtext, goVars); m != "" {
			return m, classes
		}
		classes = append(classes, "conformant_variable")
		// (b'') literal arguments next to the variable-bearing one on the same field
		if c.Mixed > 0 {
			margs := []*model.Arg{{Name: "x", Val: model.Var("v")}}
			if c.Mixed&1 != 0 {
				margs = append([]*model.Arg{{Name: "k", Val: model.Int(7)}}, margs...)
			}
			if c.Mixed&2 != 0 {
				margs = append(margs, &model.Arg{Name: "m", Val: model.Str("s")})
			}
			msel := []*model.Sel{{K: "field", Name: "probe", Args: margs}}
			mdoc := &model.Doc{Defs: []*model.Def{{Kind: "query", Vars: []*model.VarDef{vd}, Sel: msel}}}
			mtext := model.Print(mdoc, nil).Text
			mwant := ref.ArgValues(s, c.probeArgs(), margs, cvars)
			if m := checkProbe(probe(b, w, mtext, goVars), mwant, cvars, "variable next to literal arguments", mtext, goVars); m != "" {
				return m, classes
			}
			classes = append(classes, "variable_next_to_literal_arguments")
		}
		// (b') the Subscribe function of a subscription root field is a resolver too
		if s.Subscription == "SP" {
			sdoc := &model.Doc{Defs: []*model.Def{{Kind: "subscription", Vars: []*model.VarDef{vd}, Sel: sel}}}
			stext := model.Print(sdoc, nil).Text
			got, m := subscribeProbe(b, w, &subArgs, stext, goVars)
			if m != "" {
				return fmt.Sprintf("subscription placement: %s\n  %s\n  variables %s", m, stext, canonJSON(goVars)), classes
			}
			if a, bb := model.Canon(got), model.Canon(wantArgs); a != bb {
				return fmt.Sprintf("subscription placement: the Subscribe function received Args %s, input coercion yields %s\n  %s\n  variables %s", a, bb, stext, canonJSON(goVars)), classes
			}
			classes = append(classes, "subscribe_function_arguments")
		}
		// (c) the same value as an inline literal gives the same arguments
		if lit, ok := gen.ToLiteral(s, c.ArgType, c.Value); ok {
			lsel := []*model.Sel{{K: "field", Name: "probe"}}
			if lit != nil {
				lsel[0].Args = []*model.Arg{{Name: "x", Val: lit}}
			}
			ldoc := &model.Doc{Defs: []*model.Def{{Kind: "query", Sel: lsel}}}
			ltext := model.Print(ldoc, nil).Text
			lrun := probe(b, w, ltext, nil)
			if m := checkProbe(lrun, wantArgs, map[string]interface{}{}, "literal", ltext, nil); m != "" {
				return m + fmt.Sprintf("\n  (the same value through a variable: %s with %s gave the expected arguments)", vtext, canonJSON(goVars)), classes
			}
			classes = append(classes, "literal_equals_variable")
			// variable default placement: `$v: T = lit`, variable not provided
			if lit != nil && !c.ArgType.NonNull() {
				ddoc := &model.Doc{Defs: []*model.Def{{Kind: "query", Vars: []*model.VarDef{{Name: "v", Type: c.ArgType, Default: lit}}, Sel: sel}}}
				dtext := model.Print(ddoc, nil).Text
				drun := probe(b, w, dtext, nil)
				dvars := map[string]interface{}{}
				if x, ok := wantArgs["x"]; ok && c.Value != nil && c.Value.K != "null" {
					dvars["v"] = x
				}
				if m := checkProbe(drun, wantArgs, dvars, "variable default", dtext, nil); m != "" {
					return m, classes
				}
				classes = append(classes, "variable_default")
			}
		}
	}
	// (e) a variable nested inside a list / object literal contributes its coerced value
	if valid && c.VarAt >= 0 && c.Value != nil {
		if lit, vty, vval, ok := literalWithInnerVar(s, c.ArgType, c.Value, c.VarAt); ok {
			cv, _ := ref.CoerceVariables(s, []*model.VarDef{{Name: "v", Type: c.ArgType}}, inputs)
			wantArgs := ref.ArgValues(s, c.probeArgs(), []*model.Arg{{Name: "x", Val: model.Var("v")}}, cv)
			ndoc := &model.Doc{Defs: []*model.Def{{Kind: "query", Vars: []*model.VarDef{{Name: "w", Type: vty}},
				Sel: []*model.Sel{{K: "field", Name: "probe", Args: []*model.Arg{{Name: "x", Val: lit}}}}}}}
			ntext := model.Print(ndoc, nil).Text
			nvars := map[string]interface{}{"w": vval.ToGo()}
			if c.TypedSlices {
				nvars["w"] = vval.ToGoTyped()
			}
			nrun := probe(b, w, ntext, nvars)
			wcv, _ := ref.CoerceVariables(s, ndoc.Defs[0].Vars, map[string]*model.Val{"w": vval})
			if m := checkProbe(nrun, wantArgs, wcv, "variable nested in a literal", ntext, nvars); m != "" {
				return m + fmt.Sprintf("\n  (the whole value through one variable: %s with %s gave the expected arguments)", vtext, canonJSON(goVars)), classes
			}
			classes = append(classes, "variable_nested_in_literal")
		}
	}
	// (d) validation-time validity of the literal agrees with coercibility of the variable
	if lit, ok := gen.ToLiteral(s, c.ArgType, c.Value); ok && !hasIntegralFloatForInt(s, c.ArgType, c.Value) {
		lsel := []*model.Sel{{K: "field", Name: "probe"}}
		if lit != nil {
			lsel[0].Args = []*model.Arg{{Name: "x", Val: lit}}
		}
		ldoc := &model.Doc{Defs: []*model.Def{{Kind: "query", Sel: lsel}}}
		ltext := model.Print(ldoc, nil).Text
		doc, perr := parseText(ltext)
		if perr != nil {
			return fmt.Sprintf("HARNESS: literal document does not parse: %v\n%s", perr, ltext), classes
		}
		vr := graphql.ValidateDocument(&b.Schema, doc, nil)
		refValid := ref.ValidLiteral(s, c.ArgType, lit) && (lit != nil || !c.ArgType.NonNull())
		if refValid != valid && c.ArgDef == nil {
			// reference self-check: literal validity and variable validity agree on this domain
			return fmt.Sprintf("HARNESS: reference disagrees with itself: literal %v variable %v for %s : %s", refValid, valid, model.ValString(c.Value), c.ArgType), classes
		}
		if c.ArgDef == nil || lit != nil {
			if vr.IsValid != valid {
				return fmt.Sprintf("literal %s for type %s: validation says valid=%v, the same value as a variable coerces=%v (%s)\n  %s",
					model.ValString(lit), c.ArgType, vr.IsValid, valid, c.Bad, ltext), classes
			}
			classes = append(classes, "literal_validity_agrees")
		}
	}
	return "", classes
}

func hasIntegralFloatForInt(s *model.Schema, ty model.TypeRef, v *model.Val) bool {
	if v == nil {
		return false
	}
	t := ty.Nullable()
	switch v.K {
	case "float":
		return !t.IsList() && t.Name == "Int" || (t.IsList() && hasIntegralFloatForInt(s, t.Inner(), v))
	case "list":
		if t.IsList() {
			for _, e := range v.L {
				if hasIntegralFloatForInt(s, t.Inner(), e) {
					return true
				}
			}
		}
	case "obj":
		if td := s.Type(t.Name); td != nil && td.Kind == model.KInput {
			for _, f := range v.O {
				if fd := td.InputField(f.N); fd != nil && hasIntegralFloatForInt(s, fd.Type, f.V) {
					return true
				}
			}
		}
	}
	return false
}

func checkProbe(run probeRun, wantArgs, wantVars map[string]interface{}, how, text string, vars map[string]interface{}) string {
	if len(run.res.Errors) > 0 {
		return fmt.Sprintf("%s placement: request failed: %s\n  %s\n  variables %s", how, run.res.Errors[0].Message, text, canonJSON(vars))
	}
	var rec *build.CallRec
	for i := range run.calls {
		if run.calls[i].Kind == "resolve" && run.calls[i].Field == "probe" {
			rec = &run.calls[i]
		}
	}
	if rec == nil {
		return fmt.Sprintf("%s placement: the resolver was not invoked\n  %s", how, text)
	}
	if a, b := model.Canon(rec.Args), model.Canon(wantArgs); a != b {
		return fmt.Sprintf("%s placement: resolver received Args %s, input coercion yields %s\n  %s\n  variables %s", how, a, b, text, canonJSON(vars))
	}
	if a, b := model.Canon(dropNil(rec.Info.VariableValues)), model.Canon(wantVars); a != b {
		return fmt.Sprintf("%s placement: Info.VariableValues = %s, want %s\n  %s\n  variables %s", how, a, b, text, canonJSON(vars))
	}
	return ""
}

func valDepth(v *model.Val) int {
	if v == nil {
		return 0
	}
	d := 0
	for _, e := range v.L {
		if x := valDepth(e); x > d {
			d = x
		}
	}
	for _, f := range v.O {
		if x := valDepth(f.V); x > d {
			d = x
		}
	}
	return d + 1
}

func TestC05(t *testing.T) {
	var rc CoerceCase
	if loadReplay(t, "C05", &rc) {
		if msg, _ := c05Oracle(&rc); msg != "" {
			t.Fatalf("VERIF-FAIL property=C05 sub=coerce replay=%s :: %s", replayFile(), msg)
		}
		return
	}
	rapid.Check(t, func(rt *rapid.T) {
		s := gen.Schema(rt, gen.SchemaOpts{MaxWrap: 3})
		c := &CoerceCase{Schema: s}
		var pool []string
		for _, td := range s.Types {
			if td.Kind == model.KInput || td.Kind == model.KEnum || td.Kind == model.KScalar {
				pool = append(pool, td.Name, td.Name)
			}
		}
		pool = append(pool, "Int", "Float", "String", "Boolean", "ID")
		c.ArgType = gen.WrapType(rt, pool[gen.Uniform(rt, len(pool), "argType")], 3)
		if !c.ArgType.NonNull() && gen.Chance(rt, 30, "argDefault") {
			c.ArgDef = gen.RuntimeValue(rt, c.schema(), c.ArgType, 2, true)
		}
		roll := gen.Uniform(rt, 100, "presence")
		switch {
		case roll < 8:
			c.Value = nil
		case roll < 14:
			c.Value = model.Null()
		default:
			c.Value = gen.RuntimeValue(rt, s, c.ArgType, 3, false)
			if gen.Chance(rt, 40, "corrupt") {
				if bad, kind := gen.Corrupt(rt, s, c.ArgType, c.Value); bad != nil {
					c.Value, c.Bad = bad, kind
				}
			}
		}
		c.VarAt = gen.Intn(rt, -1, 5, "varAt")
		c.Mixed = gen.Uniform(rt, 4, "mixedArgs")
		c.TypedSlices = gen.Chance(rt, 30, "typedSlices")
		msg, classes := c05Oracle(c)
		for _, k := range classes {
			stats.R.Class(k)
		}
		nt := valDepth(c.Value) >= 2 || c.ArgDef != nil || (c.Bad != "" && valDepth(c.Value) >= 2)
		stats.R.Case(caseKey(c), nt, func() interface{} {
			return map[string]interface{}{"type": c.ArgType.String(), "value": model.ValString(orNull(c.Value)), "provided": c.Value != nil, "injected": c.Bad, "argDefault": c.ArgDef != nil}
		})
		if msg != "" {
			violation(rt, "C05", "coerce", c, "%s", msg)
		}
	})
}

func orNull(v *model.Val) *model.Val {
	if v == nil {
		return model.Null()
	}
	return v
}
