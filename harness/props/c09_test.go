package props

import (
	"context"
	"encoding/json"
	"fmt"
	"os"
	"strings"
	"testing"
	"time"

	"github.com/graphql-go/graphql"
	"github.com/graphql-go/graphql/language/ast"
	"github.com/graphql-go/graphql/language/parser"
	"github.com/graphql-go/graphql/language/printer"
	"github.com/graphql-go/graphql/language/source"
	"pgregory.net/rapid"

	"verif/gen"
	"verif/stats"
	"verif/syn"
)

// C09 — no input makes a public entry point panic, hang or return a malformed result.

type RawCase struct {
	Text   string `json:"text"`
	OpName string `json:"opName,omitempty"`
	Vars   string `json:"vars,omitempty"` // JSON text of the variables map ("" = nil map)
	// ParseOpts: the AST-level entry points are also fed the text parsed with parser.ParseOptions (bit 0: NoLocation, bit 1: NoSource)
	ParseOpts int `json:"parseOpts,omitempty"`
}

// guarded runs f with a watchdog proportional to the input size; it reports a panic or a hang.
func guarded(name string, size int, f func()) string {
	done := make(chan string, 1)
	go func() {
		defer func() {
			if r := recover(); r != nil {
				done <- fmt.Sprintf("%s panicked: %v", name, r)
				return
			}
			done <- ""
		}()
		f()
	}()
	limit := 5*time.Second + time.Duration(size)*time.Millisecond
	select {
	case m := <-done:
		return m
	case <-time.After(limit):
		// one more chance (a loaded machine is not a hang): wait 10x longer before calling it
		select {
		case m := <-done:
			return m
		case <-time.After(10 * limit):
			return fmt.Sprintf("%s did not return within %v for an input of %d bytes", name, 11*limit, size)
		}
	}
}

func checkResult(name string, res *graphql.Result, mustHaveNoData bool) string {
	if res == nil {
		return name + " returned a nil *Result"
	}
	if _, err := json.Marshal(res); err != nil {
		return fmt.Sprintf("%s: result is not serialisable to JSON: %v", name, err)
	}
	// judged on what a client receives: a typed nil inside Data serialises to null as well
	if js, _ := json.Marshal(res.Data); (res.Data == nil || string(js) == "null") && len(res.Errors) == 0 {
		return name + ": data is absent (null) and there is no error"
	}
	if mustHaveNoData && res.Data != nil {
		return fmt.Sprintf("%s: parsing or validation failed but data is present: %s", name, canonJSON(res.Data))
	}
	return ""
}

func drain(name string, ch chan *graphql.Result, mustHaveNoData bool) string {
	n := 0
	timeout := time.After(20 * time.Second)
	for {
		select {
		case r, ok := <-ch:
			if !ok {
				if n == 0 {
					return name + ": result channel closed without delivering a result"
				}
				return ""
			}
			n++
			if m := checkResult(name, r, mustHaveNoData); m != "" {
				return m
			}
			if n > 100 {
				return name + ": more than 100 results for a source of 2 events"
			}
		case <-timeout:
			return name + ": result channel neither delivered nor closed within 20s"
		}
	}
}

// c09Oracle drives every public entry point with the case.
func c09Oracle(c *RawCase) (msg string, class string) {
	b, err := kitchen()
	if err != nil {
		return "HARNESS: kitchen schema rejected: " + err.Error(), ""
	}
	var vars map[string]interface{}
	if c.Vars != "" {
		_ = json.Unmarshal([]byte(c.Vars), &vars)
	}
	size := len(c.Text) + len(c.Vars)
	ctx := context.Background()
	// parse (+ print)
	var doc *ast.Document
	var perr error
	if m := guarded("parser.Parse", size, func() { doc, perr = libParse([]byte(c.Text)) }); m != "" {
		return m, "parse"
	}
	class = "syntax_error"
	invalid := perr != nil
	if perr == nil {
		class = "parsed"
		if m := guarded("printer.Print", size, func() { _ = printer.Print(doc) }); m != "" {
			return m, class
		}
		// validation: every rule alone and all together, on the raw (unvalidated) AST
		var vr graphql.ValidationResult
		if m := guarded("ValidateDocument", size, func() { vr = graphql.ValidateDocument(&b.Schema, doc, nil) }); m != "" {
			return m, class
		}
		if !vr.IsValid {
			invalid = true
			class = "validation_error"
			if len(vr.Errors) == 0 {
				return "ValidateDocument: IsValid=false without errors", class
			}
		} else {
			class = "valid"
		}
		for i, rule := range graphql.SpecifiedRules {
			rule := rule
			if m := guarded(fmt.Sprintf("ValidateDocument(rule #%d alone)", i), size, func() {
				graphql.ValidateDocument(&b.Schema, doc, []graphql.ValidationRuleFn{rule})
			}); m != "" {
				return m, class
			}
		}
		// the same text parsed with the parser's options (no locations, no source): the AST-level entry points again
		if c.ParseOpts != 0 {
			opts := parser.ParseOptions{NoLocation: c.ParseOpts&1 != 0, NoSource: c.ParseOpts&2 != 0}
			var doc2 *ast.Document
			var perr2 error
			tag := fmt.Sprintf(" (document parsed with %+v)", opts)
			if m := guarded("parser.Parse"+tag, size, func() {
				doc2, perr2 = parser.Parse(parser.ParseParams{Source: &source.Source{Body: []byte(c.Text), Name: "GraphQL request"}, Options: opts})
			}); m != "" {
				return m, class
			}
			if perr2 != nil {
				return "the text parses with default options but not" + tag + ": " + perr2.Error(), class
			}
			if m := guarded("printer.Print"+tag, size, func() { _ = printer.Print(doc2) }); m != "" {
				return m, class
			}
			var vr2 graphql.ValidationResult
			if m := guarded("ValidateDocument"+tag, size, func() { vr2 = graphql.ValidateDocument(&b.Schema, doc2, nil) }); m != "" {
				return m, class
			}
			if vr2.IsValid != vr.IsValid {
				return fmt.Sprintf("ValidateDocument%s: valid=%v, but valid=%v for the same text parsed with default options", tag, vr2.IsValid, vr.IsValid), class
			}
			var res2 *graphql.Result
			if m := guarded("PlanQuery+ExecutePlan"+tag, size, func() {
				res2 = nil
				if plan, err := graphql.PlanQuery(&b.Schema, doc2, c.OpName); err == nil {
					res2 = graphql.ExecutePlan(plan, graphql.ExecuteParams{Schema: b.Schema, OperationName: c.OpName, Args: vars, Context: ctx})
				}
			}); m != "" {
				return m, class
			}
			if res2 != nil {
				if m := checkResult("ExecutePlan"+tag, res2, false); m != "" {
					return m, class
				}
			}
			if m := guarded("Execute"+tag, size, func() {
				res2 = graphql.Execute(graphql.ExecuteParams{Schema: b.Schema, AST: doc2, OperationName: c.OpName, Args: vars, Context: ctx})
			}); m != "" {
				return m, class
			}
			if m := checkResult("Execute"+tag, res2, false); m != "" {
				return m, class
			}
		}
		// planning and execution WITHOUT prior validation
		var res *graphql.Result
		if m := guarded("PlanQuery+ExecutePlan (unvalidated)", size, func() {
			plan, err := graphql.PlanQuery(&b.Schema, doc, c.OpName)
			if err != nil {
				res = nil
				return
			}
			res = graphql.ExecutePlan(plan, graphql.ExecuteParams{Schema: b.Schema, OperationName: c.OpName, Args: vars, Context: ctx})
		}); m != "" {
			return m, class
		}
		if res != nil {
			if m := checkResult("ExecutePlan (unvalidated)", res, false); m != "" {
				return m, class
			}
		}
		if m := guarded("Execute (unvalidated)", size, func() {
			res = graphql.Execute(graphql.ExecuteParams{Schema: b.Schema, AST: doc, OperationName: c.OpName, Args: vars, Context: ctx})
		}); m != "" {
			return m, class
		}
		if m := checkResult("Execute (unvalidated)", res, false); m != "" {
			return m, class
		}
		var m2 string
		if m := guarded("ExecuteSubscription (unvalidated)", size, func() {
			ch := graphql.ExecuteSubscription(graphql.ExecuteParams{Schema: b.Schema, AST: doc, OperationName: c.OpName, Args: vars, Context: ctx})
			m2 = drain("ExecuteSubscription (unvalidated)", ch, false)
		}); m != "" {
			return m, class
		}
		if m2 != "" {
			return m2, class
		}
	}
	// the request entry points
	var res *graphql.Result
	if m := guarded("Do", size, func() {
		res = graphql.Do(graphql.Params{Schema: b.Schema, RequestString: c.Text, OperationName: c.OpName, VariableValues: vars, Context: ctx})
	}); m != "" {
		return m, class
	}
	if m := checkResult("Do", res, invalid); m != "" {
		return m, class
	}
	if res.Data != nil {
		class = "executed"
	}
	if m := guarded("Do (zero context, nil variables)", size, func() {
		res = graphql.Do(graphql.Params{Schema: b.Schema, RequestString: c.Text, OperationName: c.OpName})
	}); m != "" {
		return m, class
	}
	if m := checkResult("Do (zero context)", res, invalid); m != "" {
		return m, class
	}
	var m2 string
	if m := guarded("Subscribe", size, func() {
		ch := graphql.Subscribe(graphql.Params{Schema: b.Schema, RequestString: c.Text, OperationName: c.OpName, VariableValues: vars, Context: ctx})
		m2 = drain("Subscribe", ch, invalid)
	}); m != "" {
		return m, class
	}
	if m2 != "" {
		return m2, class
	}
	for _, norm := range []bool{false, true} {
		norm := norm
		var pr graphql.PlanResult
		name := fmt.Sprintf("PlanCache.Get(Normalize=%v)", norm)
		if m := guarded(name, size, func() {
			pc := graphql.NewPlanCache(graphql.PlanCacheOptions{Normalize: norm})
			pr = pc.Get(&b.Schema, c.Text, c.OpName)
			if pr.Plan != nil {
				args := map[string]interface{}{}
				for k, v := range vars {
					args[k] = v
				}
				for k, v := range pr.SynthArgs {
					args[k] = v
				}
				res = graphql.ExecutePlan(pr.Plan, graphql.ExecuteParams{Schema: b.Schema, OperationName: c.OpName, Args: args, Context: ctx})
			} else {
				res = nil
			}
		}); m != "" {
			return m, class
		}
		if pr.Plan == nil && len(pr.Errors) == 0 {
			return name + ": neither a plan nor errors", class
		}
		if res != nil {
			// a plan may be handed out for a request whose literals were extracted before they
			// were checked; executing it must then still carry no data
			if m := checkResult(name+"+ExecutePlan", res, invalid); m != "" {
				return m, class
			}
		}
	}
	return "", class
}

func c09Record(c *RawCase, class string) {
	stats.R.Class(class)
	nt := class != "syntax_error" || strings.Count(strings.TrimSpace(c.Text), " ") >= 3 || len(c.Text) > 12
	stats.R.Case(c.Text+"|"+c.OpName+"|"+c.Vars, nt, func() interface{} { return c })
}

var c09VarsPool = []string{"", `{}`, `{"v":1}`, `{"v":null}`, `{"v":"s","x":{"b":"q","a":3}}`, `{"v":[1,2,"x"]}`, `{"v":{"b":1}}`, `{"v":1e400}`, `{"v":true,"k1":[[1],[null]]}`, `{"v":3000000000}`, `[]`, `nonsense`}

func TestC09_Gen(t *testing.T) {
	var rc RawCase
	if loadReplay(t, "C09", &rc) {
		if msg, _ := c09Oracle(&rc); msg != "" {
			t.Fatalf("VERIF-FAIL property=C09 sub=gen replay=%s :: %s", replayFile(), msg)
		}
		return
	}
	rapid.Check(t, func(rt *rapid.T) {
		c := &RawCase{ParseOpts: []int{0, 0, 1, 2, 3}[gen.Uniform(rt, 5, "parseOpts")]}
		mode := gen.Uniform(rt, 12, "mode")
		switch {
		case mode >= 10: // valid documents whose fragments spread one another, at a size where exponential work does not return
			r := drawRecipe(rt)
			if gen.Chance(rt, 50, "exclusiveParents") {
				// the first fragment is reached under one response key from two different object types
				r.Contexts = append([]ScaleContext{{OnType: 0, Keyed: true}, {OnType: 1, Keyed: true}}, r.Contexts...)
			}
			n := []int{48, 64, 80}[gen.Uniform(rt, 3, "scale")]
			if r.Edges == "later" || r.Edges == "mod3" {
				n = 24 + n/8 // the document itself is quadratic in n
			}
			c.Text = recipeDocV(r, n, kitchenScaleVocabulary)
		case mode < 5: // grammatical sentences over the schema's vocabulary, maybe mutated
			toks := syn.GenDocumentTokensWith(rt, []string{"exec", "exec", "mixed"}[gen.Uniform(rt, 3, "kind")], kitchenVocabulary)
			if gen.Chance(rt, 30, "mutate") {
				toks = syn.Mutate(rt, toks)
			}
			c.Text = syn.Render(rt, toks, gen.Chance(rt, 15, "unicode"))
		case mode < 7: // token soup
			n := gen.Intn(rt, 0, 12, "soupLen")
			var toks []string
			alphabet := append([]string{"!", "$", "(", ")", "...", ":", "=", "@", "[", "]", "{", "|", "}", "&", "1", "1.5", `"s"`, `"""b"""`}, kitchenVocabulary...)
			for i := 0; i < n; i++ {
				toks = append(toks, alphabet[gen.Uniform(rt, len(alphabet), "tok")])
			}
			c.Text = strings.Join(toks, " ")
		case mode < 8: // structured trouble makers
			c.Text = structuredTrouble[gen.Uniform(rt, len(structuredTrouble), "trouble")]
		case mode < 9: // arbitrary (cyclic) fragment graphs through fields, lists and abstract fields
			c.Text = cyclicFragments(rt)
		default: // raw bytes
			c.Text = string(rapid.SliceOfN(rapid.Byte(), 0, 40).Draw(rt, "bytes"))
		}
		if gen.Chance(rt, 30, "opName") {
			c.OpName = []string{"Q", "A", "", "on", "\x00"}[gen.Uniform(rt, 5, "op")]
		}
		c.Vars = c09VarsPool[gen.Uniform(rt, len(c09VarsPool), "vars")]
		markCurrent("C09", "gen", c) // an unrecoverable crash (stack overflow) kills the process: this file names the input
		msg, class := c09Oracle(c)
		c09Record(c, class)
		if strings.Contains(msg, "did not return within") {
			// the abandoned call keeps running (and may keep allocating): report and stop here
			fatalViolation("C09", "gen", c, "%s\n  input: %q op=%q vars=%s", msg, c.Text, c.OpName, c.Vars)
		}
		if msg != "" {
			violation(rt, "C09", "gen", c, "%s\n  input: %q op=%q vars=%s", msg, c.Text, c.OpName, c.Vars)
		}
	})
}

// cyclicFragments draws 2-4 fragments on O whose bodies spread each other directly and
// through object, list, interface and union fields: any digraph, cycles included.
func cyclicFragments(rt *rapid.T) string {
	k := gen.Intn(rt, 2, 4, "nFrags")
	var sb strings.Builder
	sb.WriteString([]string{"{ o { ...F0 } }", "{ l { ...F0 } o { ...F1 } }", "mutation { o { ...F0 } }", "{ i { ...F0 } }"}[gen.Uniform(rt, 4, "opShape")])
	wrappers := []string{"%s", "o { %s }", "l { %s }", "o { o { %s } }", "i { %s }", "u { ... on O { %s } }", "... on O { %s }", "a %s"}
	for i := 0; i < k; i++ {
		fmt.Fprintf(&sb, " fragment F%d on O { a ", i)
		for j, n := 0, gen.Intn(rt, 1, 3, "nSpreads"); j < n; j++ {
			target := fmt.Sprintf("...F%d", gen.Uniform(rt, k, "target"))
			fmt.Fprintf(&sb, wrappers[gen.Uniform(rt, len(wrappers), "wrapper")]+" ", target)
		}
		sb.WriteString("}")
	}
	return sb.String()
}

func deepNest(n int) string {
	return strings.Repeat("{o", n) + "{a}" + strings.Repeat("}", n)
}

// structuredTrouble: valid-looking documents with validation deliberately broken.
var structuredTrouble = []string{
	`{...F} fragment F on Q {...F}`,
	`{...F} fragment F on Q {...G} fragment G on Q {...H} fragment H on Q {...F a}`,
	`{...F} fragment F on Q {o{...G}} fragment G on O {o{...G} l{...G}}`,
	`{ o { ...A } } fragment A on O { o { ...B } } fragment B on O { o { ...A } }`,
	`{ o { ...A } } fragment A on O { o { ...B } } fragment B on O { l { ...C } } fragment C on O { o { ...A a } }`,
	`{ self { ...A } } fragment A on Q { self { ...B } o { ...C } } fragment B on Q { self { ... on Q { ...A } } } fragment C on O { o { ...C } }`,
	`{ i { ...A } } fragment A on I { i { ...B } } fragment B on I { i { ...A } ... on O { o { ...C } } } fragment C on O { i { ...A } }`,
	`mutation { o { ...A } } fragment A on O { o { ...B } } fragment B on O { o { ...A } }`,
	`subscription { ev { ...A } } fragment A on O { o { ...B } } fragment B on O { o { ...A } }`,
	`query A{a} query A{a}`, `query A{a} {a}`, `{a} {a}`, `fragment F on Q{a}`, `query Q{...Nope}`, `{nope}`, `{o}`, `{a{b}}`, `{o{nope}}`,
	`query($a: ){a}`, `query($a: ]){a}`, `query($a:[Int}){a}`, `query($v:Nope){a}`, `query($v:O){a}`, `query($v:Int=1,$v:Int){int}`, `query($v:Int!=1){int}`,
	`{n(x:{b:1})}`, `{n(x:{nope:1})}`, `{n(x:{b:"s",n:{b:"t",n:{b:"u"}}})}`, `{n(y:[1,null])}`, `{n(z:NOPE)}`, `{n(w:1)}`, `{req}`, `{req(r:null)}`, `{req(r:$undefined)}`,
	`{ a @skip(if: true) b @include(if: false) }`, `{ a @skip(if: true) }`, `{ ... @skip(if: true) { a } ...F @include(if: false) } fragment F on Q { b }`,
	`query($v: Boolean = true){ a @skip(if: $v) o @skip(if: $v) { a } }`, `mutation { set(x: 1) @skip(if: true) }`,
	`{a @skip}`, `{a @skip(if:1)}`, `{a @nope}`, `{a @skip(if:true) @skip(if:false)}`, `query @skip(if:true){a}`, `{a @include(if:$v)}`, `query($v:Boolean){a @include(if:$v) @skip(if:$v)}`,
	`type T{a:Int}`, `type T{a:Int} {a}`, `{a} type T{a:Int}`, `schema{query:Q} {a}`, `extend type Q{zz:Int} {zz}`, `directive @d on FIELD {a @d}`, `scalar X {a}`,
	`mutation{set(x:1) a}`, `mutation{nope}`, `subscription{ev{a}}`, `subscription{a ev{a}}`, `subscription{...F} fragment F on S{ev{a} a}`, `subscription{nope}`, `subscription{__typename}`,
	`{__schema{types{name fields{name type{name ofType{name}}}}}}`, `{__type(name:"O"){name fields{name}}}`, `{__type(name:1){name}}`, `{__type{name}}`, `{__typename}`, `{o{__typename ...on I{a} ...on U{__typename}}}`,
	`{i{...on O{o{a}} ...on P{p} ...on Q{a}}}`, `{u{...on I{a}}}`, `{u{a}}`, `{ul{...on O{l{...on O{a}}}}}`, `{k1:a k1:int}`, `{k1:o{a} k1:o{nn}}`, `{o{a:nn a:x}}`,
	`{l{nn}}`, `{nn}`, `{ll}`, `{f id b int e}`, `{o{o{o{o{o{o{o{o{a}}}}}}}}}`, `query Q($v:N){n(x:$v)}`, `query Q($v:[Int!]){n(y:$v)}`, `query Q($v:E=V9){n(z:$v)}`,
	deepNest(60), deepNest(200), `{` + strings.Repeat("a ", 3000) + `}`, `{` + strings.Repeat("k1:a ", 500) + `}`,
	`{n(y:[` + strings.Repeat("1,", 2000) + `1])}`, `{n(x:` + strings.Repeat(`{b:"s",n:`, 60) + `{b:"s"}` + strings.Repeat("}", 60) + `)}`,
	strings.Repeat(`fragment F on Q{a} `, 50) + `{...F}`, `{` + strings.Repeat("...F ", 200) + `} fragment F on Q{a}`,
}

func TestC09_Corpus(t *testing.T) {
	if replayFile() != "" {
		t.Skip()
	}
	texts := append([]string{}, hostileTexts...)
	texts = append(texts, structuredTrouble...)
	for _, f := range []string{"/repo/kitchen-sink.graphql", "/repo/schema-kitchen-sink.graphql"} {
		if b, err := os.ReadFile(f); err == nil {
			texts = append(texts, string(b))
		}
	}
	for _, s := range texts {
		for vi, v := range []string{"", `{"v":1}`, `{"v":{"b":"x"}}`} {
			c := &RawCase{Text: s, Vars: v, ParseOpts: vi + 1}
			markCurrent("C09", "corpus", c)
			msg, class := c09Oracle(c)
			c09Record(c, class)
			if msg != "" {
				violation(t, "C09", "corpus", c, "%s\n  input: %q vars=%s", msg, c.Text, c.Vars)
			}
		}
	}
}

func FuzzC09(f *testing.F) {
	for _, s := range hostileTexts {
		f.Add(s, "", "")
	}
	for _, s := range structuredTrouble {
		if len(s) < 400 {
			f.Add(s, "", `{"v":1}`)
		}
	}
	f.Fuzz(func(t *testing.T, text, op, vars string) {
		if len(text) > 1<<13 || len(vars) > 1<<10 {
			return
		}
		c := &RawCase{Text: text, OpName: op, Vars: vars, ParseOpts: len(text) % 4}
		msg, class := c09Oracle(c)
		c09Record(c, class)
		if msg != "" {
			violation(t, "C09", "fuzz", c, "%s\n  input: %q op=%q vars=%s", msg, c.Text, c.OpName, c.Vars)
		}
	})
}
