package props

import (
	"context"
	"encoding/json"
	"fmt"
	"reflect"
	"sort"
	"strings"
	"testing"

	"github.com/graphql-go/graphql"
	"pgregory.net/rapid"

	"verif/build"
	"verif/gen"
	"verif/model"
	"verif/ref"
	"verif/stats"
	"verif/syn"
)

// C10 — introspection describes the schema exactly.

type IntroCase struct {
	Schema *model.Schema `json:"schema"`
	// Append: object types left out of NewSchema and appended afterwards, in this order.
	Append []string `json:"append,omitempty"`
	// Omit: types left out of NewSchema and never appended themselves: they arrive through an appended type.
	Omit []string `json:"omit,omitempty"`
	// OnlyRoots: no types are supplied explicitly: the schema is what the roots (and the
	// directives) reach.
	OnlyRoots bool `json:"onlyRoots,omitempty"`
}

// reachableModel restricts a schema model to the types reachable from the roots (the statement
// does not count the argument types of custom directives, and the library does not add them): through fields and their arguments (of objects and of
// interfaces), declared interfaces, union members and input fields. Implementers of an
// interface are not reached through the interface.
func reachableModel(s *model.Schema) *model.Schema {
	seen := map[string]bool{}
	var visit func(name string)
	visit = func(name string) {
		if name == "" || seen[name] {
			return
		}
		td := s.Type(name)
		if td == nil {
			return // built-in scalar
		}
		seen[name] = true
		for _, f := range td.Fields {
			visit(f.Type.Name)
			for _, a := range f.Args {
				visit(a.Type.Name)
			}
		}
		for _, f := range td.InputFields {
			visit(f.Type.Name)
		}
		for _, i := range td.Interfaces {
			visit(i)
		}
		for _, m := range td.Members {
			visit(m)
		}
	}
	visit(s.Query)
	visit(s.Mutation)
	visit(s.Subscription)
	out := *s
	out.Types = nil
	for _, td := range s.Types {
		if seen[td.Name] {
			out.Types = append(out.Types, td)
		}
	}
	return &out
}

const introQuery = `query Intro { __schema { queryType { name } mutationType { name } subscriptionType { name }
  types { ...FullType } directives { name description locations args { ...InputValue } } } }
fragment FullType on __Type { kind name description
  fields(includeDeprecated: true) { name description args { ...InputValue } type { ...TypeRef } isDeprecated deprecationReason }
  inputFields { ...InputValue } interfaces { ...TypeRef }
  enumValues(includeDeprecated: true) { name description isDeprecated deprecationReason }
  possibleTypes { ...TypeRef } }
fragment InputValue on __InputValue { name description type { ...TypeRef } defaultValue }
fragment TypeRef on __Type { kind name ofType { kind name ofType { kind name ofType { kind name ofType { kind name ofType { kind name ofType { kind name ofType { kind name } } } } } } } }`

type jType struct {
	Kind          string       `json:"kind"`
	Name          *string      `json:"name"`
	Description   *string      `json:"description"`
	Fields        []jField     `json:"fields"`
	InputFields   []jInput     `json:"inputFields"`
	Interfaces    []jTypeRef   `json:"interfaces"`
	EnumValues    []jEnumValue `json:"enumValues"`
	PossibleTypes []jTypeRef   `json:"possibleTypes"`
}
type jTypeRef struct {
	Kind   string    `json:"kind"`
	Name   *string   `json:"name"`
	OfType *jTypeRef `json:"ofType"`
}
type jField struct {
	Name              string   `json:"name"`
	Description       *string  `json:"description"`
	Args              []jInput `json:"args"`
	Type              jTypeRef `json:"type"`
	IsDeprecated      bool     `json:"isDeprecated"`
	DeprecationReason *string  `json:"deprecationReason"`
}
type jInput struct {
	Name         string   `json:"name"`
	Description  *string  `json:"description"`
	Type         jTypeRef `json:"type"`
	DefaultValue *string  `json:"defaultValue"`
}
type jEnumValue struct {
	Name              string  `json:"name"`
	Description       *string `json:"description"`
	IsDeprecated      bool    `json:"isDeprecated"`
	DeprecationReason *string `json:"deprecationReason"`
}
type jDirective struct {
	Name        string   `json:"name"`
	Description *string  `json:"description"`
	Locations   []string `json:"locations"`
	Args        []jInput `json:"args"`
}
type jSchema struct {
	QueryType        *struct{ Name string } `json:"queryType"`
	MutationType     *struct{ Name string } `json:"mutationType"`
	SubscriptionType *struct{ Name string } `json:"subscriptionType"`
	Types            []jType                `json:"types"`
	Directives       []jDirective           `json:"directives"`
}

func (r *jTypeRef) String() string {
	if r == nil {
		return "<nil>"
	}
	switch r.Kind {
	case "NON_NULL":
		return r.OfType.String() + "!"
	case "LIST":
		return "[" + r.OfType.String() + "]"
	}
	if r.Name == nil {
		return "<unnamed " + r.Kind + ">"
	}
	return *r.Name
}

func strp(p *string) string {
	if p == nil {
		return ""
	}
	return *p
}

var introspectionTypeNames = []string{"__Schema", "__Type", "__Field", "__InputValue", "__EnumValue", "__Directive", "__TypeKind", "__DirectiveLocation"}

// checkInputValues compares reported arguments / input fields with the model, incl. the
// round trip of every default value through parsing and input coercion.
// c10TypeLookup: the unrestricted model of the running case, for resolving type names in defaults.
var c10TypeLookup *model.Schema

func checkInputValues(s *model.Schema, where string, got []jInput, want []*model.ArgDef) string {
	if len(got) != len(want) {
		return fmt.Sprintf("%s: %d input values reported, %d configured", where, len(got), len(want))
	}
	seen := map[string]bool{}
	for _, g := range got {
		if seen[g.Name] {
			return fmt.Sprintf("%s: %q listed twice", where, g.Name)
		}
		seen[g.Name] = true
		var w *model.ArgDef
		for _, x := range want {
			if x.Name == g.Name {
				w = x
			}
		}
		if w == nil {
			return fmt.Sprintf("%s: unknown input value %q", where, g.Name)
		}
		if g.Type.String() != w.Type.String() {
			return fmt.Sprintf("%s.%s: type %s, configured %s", where, g.Name, g.Type.String(), w.Type)
		}
		if strp(g.Description) != w.Desc {
			return fmt.Sprintf("%s.%s: description %q, configured %q", where, g.Name, strp(g.Description), w.Desc)
		}
		if w.Default == nil || w.Default.K == "null" {
			if g.DefaultValue != nil {
				return fmt.Sprintf("%s.%s: defaultValue %q reported, none configured", where, g.Name, *g.DefaultValue)
			}
			continue
		}
		if g.DefaultValue == nil {
			return fmt.Sprintf("%s.%s: no defaultValue reported, configured %s", where, g.Name, model.ValString(w.Default))
		}
		node, perr := syn.ParseValueText([]byte(*g.DefaultValue))
		if perr != nil {
			return fmt.Sprintf("%s.%s: defaultValue %q is not a GraphQL literal (%s); configured %s", where, g.Name, *g.DefaultValue, perr.Msg, model.ValString(w.Default))
		}
		lit := nodeToVal(node)
		lookup := s
		if c10TypeLookup != nil {
			lookup = c10TypeLookup // custom directives may take arguments of types the schema itself does not reach
		}
		back, ok := ref.LiteralValue(lookup, w.Type, lit, nil)
		wantGo := ref.DefaultGo(lookup, w.Type, w.Default)
		if !ok || model.Canon(back) != model.Canon(wantGo) {
			return fmt.Sprintf("%s.%s: defaultValue %q, parsed and coerced as %s, gives %s; the configured default is %s", where, g.Name, *g.DefaultValue, w.Type, model.Canon(back), model.Canon(wantGo))
		}
	}
	return ""
}

func nodeToVal(n *syn.Node) *model.Val {
	switch n.Kind {
	case "IntValue":
		var i int64
		fmt.Sscanf(n.Value, "%d", &i)
		return model.Int(i)
	case "FloatValue":
		var f float64
		fmt.Sscanf(n.Value, "%g", &f)
		return model.Float(f)
	case "StringValue":
		return model.Str(n.Value)
	case "BooleanValue":
		return model.Bool(n.Value == "true")
	case "EnumValue":
		return model.Enum(n.Value)
	case "ListValue":
		l := model.List()
		l.L = []*model.Val{}
		for _, e := range n.Many("Values") {
			l.L = append(l.L, nodeToVal(e))
		}
		return l
	case "ObjectValue":
		o := model.Obj()
		for _, f := range n.Many("Fields") {
			o.O = append(o.O, model.F(f.One("Name").Value, nodeToVal(f.One("Value"))))
		}
		return o
	case "Variable":
		return model.Var(n.One("Name").Value)
	}
	return model.Null()
}

func names(refs []jTypeRef) []string {
	var out []string
	for _, r := range refs {
		out = append(out, r.String())
	}
	sort.Strings(out)
	return out
}

func c10Compare(s *model.Schema, js *jSchema) string {
	// roots
	root := func(p *struct{ Name string }) string {
		if p == nil {
			return ""
		}
		return p.Name
	}
	if root(js.QueryType) != s.Query || root(js.MutationType) != s.Mutation || root(js.SubscriptionType) != s.Subscription {
		return fmt.Sprintf("root types reported as (%s,%s,%s), configured (%s,%s,%s)", root(js.QueryType), root(js.MutationType), root(js.SubscriptionType), s.Query, s.Mutation, s.Subscription)
	}
	// set of types
	want := map[string]bool{"String": true, "Boolean": true}
	for _, n := range introspectionTypeNames {
		want[n] = true
	}
	for _, td := range s.Types {
		want[td.Name] = true
		var refs []model.TypeRef
		for _, f := range td.Fields {
			refs = append(refs, f.Type)
			for _, a := range f.Args {
				refs = append(refs, a.Type)
			}
		}
		for _, f := range td.InputFields {
			refs = append(refs, f.Type)
		}
		for _, r := range refs {
			want[r.Name] = true
		}
	}
	got := map[string]*jType{}
	for i := range js.Types {
		t := &js.Types[i]
		if t.Name == nil {
			return "a type without a name is listed"
		}
		if got[*t.Name] != nil {
			return fmt.Sprintf("type %s is listed twice", *t.Name)
		}
		got[*t.Name] = t
	}
	for n := range want {
		if got[n] == nil {
			return fmt.Sprintf("type %s is part of the schema but not listed", n)
		}
	}
	for n := range got {
		if !want[n] {
			return fmt.Sprintf("type %s is listed but not part of the schema", n)
		}
	}
	for _, td := range s.Types {
		g := got[td.Name]
		at := "type " + td.Name
		if g.Kind != td.Kind {
			return fmt.Sprintf("%s: kind %s, configured %s", at, g.Kind, td.Kind)
		}
		if strp(g.Description) != td.Desc {
			return fmt.Sprintf("%s: description %q, configured %q", at, strp(g.Description), td.Desc)
		}
		// fields
		if td.Kind == model.KObject || td.Kind == model.KIface {
			if len(g.Fields) != len(td.Fields) {
				return fmt.Sprintf("%s: %d fields reported, %d configured", at, len(g.Fields), len(td.Fields))
			}
			seen := map[string]bool{}
			for _, gf := range g.Fields {
				if seen[gf.Name] {
					return fmt.Sprintf("%s: field %s listed twice", at, gf.Name)
				}
				seen[gf.Name] = true
				wf := td.Field(gf.Name)
				if wf == nil {
					return fmt.Sprintf("%s: unknown field %s", at, gf.Name)
				}
				fat := at + "." + gf.Name
				if gf.Type.String() != wf.Type.String() {
					return fmt.Sprintf("%s: type %s, configured %s", fat, gf.Type.String(), wf.Type)
				}
				if strp(gf.Description) != wf.Desc {
					return fmt.Sprintf("%s: description %q, configured %q", fat, strp(gf.Description), wf.Desc)
				}
				if gf.IsDeprecated != (wf.Deprecation != "") || strp(gf.DeprecationReason) != wf.Deprecation {
					return fmt.Sprintf("%s: deprecation (%v,%q), configured %q", fat, gf.IsDeprecated, strp(gf.DeprecationReason), wf.Deprecation)
				}
				if m := checkInputValues(s, fat+" args", gf.Args, wf.Args); m != "" {
					return m
				}
			}
		} else if g.Fields != nil {
			return fmt.Sprintf("%s: fields reported for a %s", at, td.Kind)
		}
		switch td.Kind {
		case model.KObject:
			w := append([]string{}, td.Interfaces...)
			sort.Strings(w)
			if !reflect.DeepEqual(names(g.Interfaces), w) && !(len(w) == 0 && len(g.Interfaces) == 0) {
				return fmt.Sprintf("%s: interfaces %v, configured %v", at, names(g.Interfaces), w)
			}
		case model.KIface, model.KUnion:
			w := s.PossibleTypes(td.Name)
			sort.Strings(w)
			if !reflect.DeepEqual(names(g.PossibleTypes), w) && !(len(w) == 0 && len(g.PossibleTypes) == 0) {
				return fmt.Sprintf("%s: possibleTypes %v, the schema has %v (each once)", at, names(g.PossibleTypes), w)
			}
		case model.KEnum:
			if len(g.EnumValues) != len(td.Values) {
				return fmt.Sprintf("%s: %d enum values reported, %d configured", at, len(g.EnumValues), len(td.Values))
			}
			seenValue := map[string]bool{}
			for _, gv := range g.EnumValues {
				wv := td.Value(gv.Name)
				if wv == nil {
					return fmt.Sprintf("%s: unknown enum value %s", at, gv.Name)
				}
				if seenValue[gv.Name] {
					return fmt.Sprintf("%s: enum value %s is listed twice", at, gv.Name)
				}
				seenValue[gv.Name] = true
				if strp(gv.Description) != wv.Desc || gv.IsDeprecated != (wv.Deprecation != "") || strp(gv.DeprecationReason) != wv.Deprecation {
					return fmt.Sprintf("%s.%s: (%q,%v,%q), configured (%q,%q)", at, gv.Name, strp(gv.Description), gv.IsDeprecated, strp(gv.DeprecationReason), wv.Desc, wv.Deprecation)
				}
			}
		case model.KInput:
			if m := checkInputValues(s, at+" inputFields", g.InputFields, td.InputFields); m != "" {
				return m
			}
		}
	}
	// directives: the configured ones plus the built-in three
	wantDirs := map[string]*model.DirectiveDef{}
	for _, n := range []string{"skip", "include", "deprecated"} {
		wantDirs[n] = s.Directive(n)
	}
	for _, d := range s.Directives {
		wantDirs[d.Name] = d
	}
	if len(js.Directives) != len(wantDirs) {
		var gn []string
		for _, d := range js.Directives {
			gn = append(gn, d.Name)
		}
		return fmt.Sprintf("directives reported %v, the schema has %d", gn, len(wantDirs))
	}
	for _, gd := range js.Directives {
		wd := wantDirs[gd.Name]
		if wd == nil {
			return fmt.Sprintf("unknown directive %s reported", gd.Name)
		}
		gl, wl := append([]string{}, gd.Locations...), append([]string{}, wd.Locations...)
		sort.Strings(gl)
		sort.Strings(wl)
		if !reflect.DeepEqual(gl, wl) {
			return fmt.Sprintf("directive %s: locations %v, configured %v", gd.Name, gl, wl)
		}
		if gd.Name != "skip" && gd.Name != "include" && gd.Name != "deprecated" {
			if strp(gd.Description) != wd.Desc {
				return fmt.Sprintf("directive %s: description %q, configured %q", gd.Name, strp(gd.Description), wd.Desc)
			}
			if m := checkInputValues(s, "directive "+gd.Name+" args", gd.Args, wd.Args); m != "" {
				return m
			}
		}
	}
	return ""
}

func c10Oracle(c *IntroCase) (msg string) {
	defer func() {
		if r := recover(); r != nil {
			msg = fmt.Sprintf("panic: %v", r)
		}
	}()
	full := c.Schema
	c10TypeLookup = c.Schema
	if c.OnlyRoots {
		full = reachableModel(c.Schema)
		b, err := build.New(c.Schema, &ref.World{S: c.Schema}, build.Options{OmitExtra: true})
		if err != nil {
			stats.R.Exclude("roots_only_schema_invalid")
			return "" // what the roots reach is not a valid schema on its own (an abstract type nobody can resolve)
		}
		return c10Introspect(b, full)
	}
	initial := *c.Schema
	if len(c.Append) > 0 {
		initial.Types = nil
		for _, td := range c.Schema.Types {
			keep := true
			for _, a := range c.Append {
				if a == td.Name {
					keep = false
				}
			}
			if keep {
				initial.Types = append(initial.Types, td)
			}
		}
	}
	// probe fields on the query root, one per abstract type: `zz<A>: [A]`, so that values of every possible type of A
	// can be asked for their __typename, before and after types are appended
	omit := append(append([]string{}, c.Append...), c.Omit...)
	full = withTypenameProbes(full, omit)
	initial = *withTypenameProbes(&initial, omit)
	c10TypeLookup = full
	// the library-side types are built from the full model so that appended types exist
	b, err := build.New(full, &ref.World{S: full}, build.Options{Omit: omit})
	if err != nil {
		return "HARNESS: schema rejected: " + err.Error()
	}
	// what the schema is before anything is appended: the model without the omitted types
	before := initial
	before.Types = nil
	for _, td := range initial.Types {
		if !contains(omit, td.Name) {
			before.Types = append(before.Types, td)
		}
	}
	tn := newTypenameProbe(b, &before)
	if m := tn.run(&before, "before any type was appended"); m != "" {
		return m
	}
	for _, a := range c.Append {
		if err := b.Schema.AppendType(b.Types[a]); err != nil {
			return fmt.Sprintf("AppendType(%s) failed on a valid type: %v", a, err)
		}
	}
	if len(c.Append) > 0 {
		if m := tn.run(full, fmt.Sprintf("after AppendType of %v (the plan and the cache entry were made before)", c.Append)); m != "" {
			return m
		}
	}
	return c10Introspect(b, full)
}

func contains(xs []string, x string) bool {
	for _, y := range xs {
		if y == x {
			return true
		}
	}
	return false
}

// withTypenameProbes returns a copy of the model whose query root has a field zz<A>: [A] for every abstract type A.
func withTypenameProbes(s *model.Schema, omit []string) *model.Schema {
	cp := *s
	cp.Types = append([]*model.TypeDef{}, s.Types...)
	for i, td := range cp.Types {
		if td.Name != s.Query {
			continue
		}
		q := *td
		q.Fields = append([]*model.FieldDef{}, td.Fields...)
		for _, a := range s.Types {
			if (a.Kind == model.KIface || a.Kind == model.KUnion) && !contains(omit, a.Name) {
				q.Fields = append(q.Fields, &model.FieldDef{Name: "zz" + a.Name, Type: model.TypeRef{Name: a.Name, Wrap: "["}})
			}
		}
		cp.Types[i] = &q
	}
	return &cp
}

// typenameProbe asks every abstract probe field for the __typename of its values through Do, a plan prepared once and
// a plan-cache entry made once, against the reference interpreter over the model of the schema as it is at that moment.
type typenameProbe struct {
	b     *build.Built
	doc   *model.Doc
	text  string
	plan  *graphql.Plan
	cache *graphql.PlanCache
}

func newTypenameProbe(b *build.Built, m *model.Schema) *typenameProbe {
	p := &typenameProbe{b: b, cache: graphql.NewPlanCache(graphql.PlanCacheOptions{})}
	var sel []*model.Sel
	for _, td := range m.Types {
		if (td.Kind == model.KIface || td.Kind == model.KUnion) && len(m.PossibleTypes(td.Name)) > 0 {
			sel = append(sel, &model.Sel{K: "field", Name: "zz" + td.Name, Sel: []*model.Sel{{K: "field", Name: "__typename"}}})
		}
	}
	if len(sel) == 0 {
		return p
	}
	p.doc = &model.Doc{Defs: []*model.Def{{Kind: "query", Sel: sel}}}
	p.text = model.Print(p.doc, nil).Text
	return p
}

func (p *typenameProbe) run(m *model.Schema, when string) string {
	if p.doc == nil {
		return ""
	}
	w := &ref.World{S: m, Salt: 5, MaxList: 6}
	want := ref.Execute(m, p.doc, "", nil, w)
	ctx := func() context.Context { return build.WithSession(context.Background(), &build.Session{W: w}) }
	check := func(how string, res *graphql.Result) string {
		if d := compareExec(want, res); d != "" {
			return fmt.Sprintf("__typename %s, %s: %s\n  request: %s", when, how, d, p.text)
		}
		return ""
	}
	if m := check("through Do", graphql.Do(graphql.Params{Schema: p.b.Schema, RequestString: p.text, Context: ctx()})); m != "" {
		return m
	}
	if p.plan == nil {
		doc, err := parseText(p.text)
		if err != nil {
			return "HARNESS: " + err.Error()
		}
		if p.plan, err = graphql.PlanQuery(&p.b.Schema, doc, ""); err != nil {
			return "HARNESS: PlanQuery: " + err.Error()
		}
	}
	if m := check("through the prepared plan", graphql.ExecutePlan(p.plan, graphql.ExecuteParams{Schema: p.b.Schema, Context: ctx()})); m != "" {
		return m
	}
	pr := p.cache.Get(&p.b.Schema, p.text, "")
	if pr.Plan == nil {
		return fmt.Sprintf("__typename %s: the plan cache rejects the request: %v", when, pr.Errors)
	}
	return check("through the plan cache", graphql.ExecutePlan(pr.Plan, graphql.ExecuteParams{Schema: p.b.Schema, Context: ctx()}))
}

// c10Introspect runs the introspection queries against b and compares with the model full.
func c10Introspect(b *build.Built, full *model.Schema) (msg string) {
	res := graphql.Do(graphql.Params{Schema: b.Schema, RequestString: introQuery})
	if len(res.Errors) > 0 {
		return "introspection query failed: " + res.Errors[0].Message
	}
	raw, _ := json.Marshal(res.Data)
	var out struct {
		Schema jSchema `json:"__schema"`
	}
	if err := json.Unmarshal(raw, &out); err != nil {
		return "HARNESS: decode: " + err.Error()
	}
	if m := c10Compare(full, &out.Schema); m != "" {
		return m
	}
	// partial queries: __type(name:) for every type, includeDeprecated off
	for _, td := range full.Types {
		q := fmt.Sprintf(`{ __type(name: %q) { kind name fields { name } enumValues { name } } }`, td.Name)
		res := graphql.Do(graphql.Params{Schema: b.Schema, RequestString: q})
		if len(res.Errors) > 0 {
			return fmt.Sprintf("__type(name:%q) failed: %s", td.Name, res.Errors[0].Message)
		}
		raw, _ := json.Marshal(res.Data)
		var one struct {
			Type *jType `json:"__type"`
		}
		json.Unmarshal(raw, &one)
		if one.Type == nil || strp(one.Type.Name) != td.Name || one.Type.Kind != td.Kind {
			return fmt.Sprintf("__type(name:%q) returned %s", td.Name, raw)
		}
		var wantF, gotF []string
		for _, f := range td.Fields {
			if f.Deprecation == "" {
				wantF = append(wantF, f.Name)
			}
		}
		for _, f := range one.Type.Fields {
			gotF = append(gotF, f.Name)
		}
		sort.Strings(wantF)
		sort.Strings(gotF)
		if strings.Join(wantF, ",") != strings.Join(gotF, ",") {
			return fmt.Sprintf("__type(name:%q).fields without includeDeprecated = %v, want the non-deprecated %v", td.Name, gotF, wantF)
		}
		var wantV, gotV []string
		for _, v := range td.Values {
			if v.Deprecation == "" {
				wantV = append(wantV, v.Name)
			}
		}
		for _, v := range one.Type.EnumValues {
			gotV = append(gotV, v.Name)
		}
		sort.Strings(wantV)
		sort.Strings(gotV)
		if strings.Join(wantV, ",") != strings.Join(gotV, ",") {
			return fmt.Sprintf("__type(name:%q).enumValues without includeDeprecated = %v, want %v", td.Name, gotV, wantV)
		}
	}
	// the full description once more, after all those requests were served by the same schema
	res = graphql.Do(graphql.Params{Schema: b.Schema, RequestString: introQuery})
	if len(res.Errors) > 0 {
		return "second introspection query failed: " + res.Errors[0].Message
	}
	raw, _ = json.Marshal(res.Data)
	var again struct {
		Schema jSchema `json:"__schema"`
	}
	if err := json.Unmarshal(raw, &again); err != nil {
		return "HARNESS: decode: " + err.Error()
	}
	if m := c10Compare(full, &again.Schema); m != "" {
		return "after the partial introspection requests were served, the schema describes itself differently: " + m
	}
	return ""
}

func TestC10(t *testing.T) {
	var rc IntroCase
	if loadReplay(t, "C10", &rc) {
		if msg := c10Oracle(&rc); msg != "" {
			t.Fatalf("VERIF-FAIL property=C10 sub=introspection replay=%s :: %s", replayFile(), msg)
		}
		return
	}
	rapid.Check(t, func(rt *rapid.T) {
		s := gen.Schema(rt, gen.SchemaOpts{Mutation: gen.Chance(rt, 50, "mutation"), Subscription: gen.Chance(rt, 30, "subscription"),
			Descriptions: true, Directives: true, MaxWrap: 4, ExtraObjects: true})
		c := &IntroCase{Schema: s}
		c.OnlyRoots = gen.Chance(rt, 25, "onlyRoots")
		// appendable: object types nothing refers to, and the union XU of them
		if !c.OnlyRoots {
			drawAppend(rt, s, &c.Append, &c.Omit)
		}
		msg := c10Oracle(c)
		nonScalarDefault, multiImpl := false, false
		for _, td := range s.Types {
			check := func(args []*model.ArgDef) {
				for _, a := range args {
					if a.Default != nil && (a.Default.K == "list" || a.Default.K == "obj" || a.Default.K == "enum") {
						nonScalarDefault = true
					}
				}
			}
			check(td.InputFields)
			for _, f := range td.Fields {
				check(f.Args)
			}
			if td.Kind == model.KIface && len(s.PossibleTypes(td.Name)) >= 2 {
				multiImpl = true
			}
		}
		if nonScalarDefault {
			stats.R.Class("non_scalar_default")
		}
		if multiImpl {
			stats.R.Class("interface_with_2_implementers")
		}
		if len(c.Append) > 0 {
			stats.R.Class("extended_by_AppendType")
		}
		stats.R.Case(caseKey(c), nonScalarDefault || multiImpl || len(c.Append) > 0, func() interface{} {
			var tn []string
			for _, td := range s.Types {
				tn = append(tn, td.Kind+" "+td.Name)
			}
			return map[string]interface{}{"types": tn, "append": c.Append}
		})
		if msg != "" {
			violation(rt, "C10", "introspection", c, "%s", msg)
		}
	})
}

// drawAppend chooses which of the unreferenced types X0.., XU are left out of NewSchema and
// appended afterwards, and which are left out and arrive only through the appended union.
func drawAppend(rt *rapid.T, s *model.Schema, app, omit *[]string) {
	if !gen.Chance(rt, 60, "appendSome") {
		return
	}
	var objs []string
	union := false
	for _, td := range s.Types {
		if strings.HasPrefix(td.Name, "X") && td.Kind == model.KObject {
			objs = append(objs, td.Name)
		}
		union = union || td.Name == "XU"
	}
	if union && gen.Chance(rt, 60, "appendUnion") {
		// the union is appended; each member is appended too (before or after it) or arrives through it
		*app = []string{"XU"}
		for _, o := range objs {
			switch gen.Uniform(rt, 3, "memberMode") {
			case 0:
				*omit = append(*omit, o)
			case 1:
				*app = append(*app, o)
			default:
				*app = append([]string{o}, *app...)
			}
		}
		return
	}
	if union {
		return // the union is supplied up front and brings its members with it
	}
	for _, o := range objs {
		if gen.Chance(rt, 60, "appendThis") {
			*app = append(*app, o)
		}
	}
	if len(*app) == 2 && gen.Chance(rt, 50, "swapAppend") {
		(*app)[0], (*app)[1] = (*app)[1], (*app)[0]
	}
}
