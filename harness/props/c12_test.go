package props

import (
	"bufio"
	"context"
	"crypto/sha256"
	"encoding/hex"
	"encoding/json"
	"fmt"
	"os"
	"strings"
	"sync"
	"testing"

	"github.com/graphql-go/graphql"
	"pgregory.net/rapid"

	"verif/build"
	"verif/gen"
	"verif/model"
	"verif/ref"
	"verif/stats"
)

// C12 — the same request always produces the same response.

// DetCase: one request against one schema, executed K times, interleaved with other requests.
type DetCase struct {
	Schema *model.Schema         `json:"schema"` // nil = the determinism schema below
	World  *ref.World            `json:"world,omitempty"`
	Text   string                `json:"text"`
	OpName string                `json:"opName,omitempty"`
	Vars   map[string]*model.Val `json:"vars,omitempty"`
	Others []string              `json:"others,omitempty"` // requests interleaved between repetitions
	// AltVars: the same request text served with other variable values between repetitions
	// (through Do and, when Cache is set, through the same cache entry)
	AltVars []map[string]*model.Val `json:"altVars,omitempty"`
	// Neighbours: other documents over the same schema (same fragment and variable names, other
	// bodies), served with their own variables between repetitions
	Neighbours []NeighbourReq `json:"neighbours,omitempty"`
	Cache      bool           `json:"cache"` // serve through a PlanCache as well
	// CacheSize: MaxEntries of that cache (0 = the default); with 1-3 entries the interleaved requests,
	// which then go through the cache too, evict the entry of the request under test between repetitions
	CacheSize int `json:"cacheSize,omitempty"`
}

type NeighbourReq struct {
	Text   string                `json:"text"`
	OpName string                `json:"opName,omitempty"`
	Vars   map[string]*model.Val `json:"vars,omitempty"`
}

// detModel: a schema with many equidistant names (suggestions), wide input objects, several
// implementers and enum values: every place where output is built by iterating a map.
func detModel() *model.Schema {
	t := model.T
	f := func(n, ty string, args ...*model.ArgDef) *model.FieldDef {
		return &model.FieldDef{Name: n, Type: t(ty), Args: args}
	}
	arg := func(n, ty string) *model.ArgDef { return &model.ArgDef{Name: n, Type: t(ty)} }
	var many []*model.FieldDef
	for _, n := range []string{"fa", "fb", "fc", "fd", "fe", "ff", "fg", "fh"} {
		many = append(many, f(n, "String", arg("xa", "Int"), arg("xb", "Int"), arg("xc", "Int"), arg("xd", "Int")))
	}
	obj := func(name string, ifaces ...string) *model.TypeDef {
		return &model.TypeDef{Kind: model.KObject, Name: name, Interfaces: ifaces, HasIsTypeOf: true,
			Fields: append([]*model.FieldDef{f("ia", "String"), f("ib", "Int"), f("ic", "String"), f("id", "String")}, many...)}
	}
	return &model.Schema{Query: "Q", Types: []*model.TypeDef{
		{Kind: model.KEnum, Name: "Ea", Values: []*model.EnumVal{{Name: "VA"}, {Name: "VB"}, {Name: "VC"}, {Name: "VD"}, {Name: "VE"}, {Name: "VF"}}},
		{Kind: model.KEnum, Name: "Eb", Values: []*model.EnumVal{{Name: "VA"}, {Name: "VB"}}},
		// six names for one internal value: which of them a resolver's 7 is written as must not depend on anything but the schema
		{Kind: model.KEnum, Name: "Al", Values: []*model.EnumVal{{Name: "AL3", Internal: model.Int(7)}, {Name: "AL1", Internal: model.Int(7)}, {Name: "AL6", Internal: model.Int(7)},
			{Name: "AL2", Internal: model.Int(7)}, {Name: "AL5", Internal: model.Int(7)}, {Name: "AL4", Internal: model.Int(7)}}},
		{Kind: model.KInput, Name: "Na", InputFields: []*model.ArgDef{arg("pa", "Int!"), arg("pb", "Int!"), arg("pc", "Int!"), arg("pd", "Int!"), arg("pe", "Ea"), arg("pf", "[Int!]")}},
		{Kind: model.KInput, Name: "Nb", InputFields: []*model.ArgDef{arg("pa", "Int"), arg("pb", "Na")}},
		{Kind: model.KIface, Name: "Ia", Fields: []*model.FieldDef{f("ia", "String"), f("ib", "Int"), f("ic", "String"), f("id", "String")}},
		obj("Ta", "Ia"), obj("Tb", "Ia"), obj("Tc", "Ia"), obj("Td", "Ia"), obj("Te", "Ia"),
		{Kind: model.KUnion, Name: "Ua", Members: []string{"Ta", "Tb", "Tc", "Td"}, HasResolveType: true},
		// no type resolver, members not in name order: with isTypeOf answering true for every value
		// (LooseTypeOf) the first member asked wins, so the order of asking shows in the response
		{Kind: model.KUnion, Name: "Ub", Members: []string{"Td", "Tb", "Ta"}},
		{Kind: model.KObject, Name: "Q", Fields: append([]*model.FieldDef{f("ia", "Ia"), f("ua", "Ua"), f("ub", "Ub"), f("lb", "[Ub]"), f("la", "[Ia]"), f("ta", "Ta"), f("tb", "Tb"), f("al", "Al"), f("als", "[Al]"),
			f("na", "String", arg("x", "Na"), arg("y", "Nb"), arg("z", "Ea")), f("t1", "String"), f("t2", "String"), f("t3", "String"), f("t4", "String"), f("t5", "String")}, many...)},
	}}
}

var detRequests = []string{
	// suggestions: unknown field / argument / type with several equidistant candidates
	`{ fx }`, `{ ta { fx iz } }`, `{ fa(xx: 1) }`, `{ ta { fb(xz: 1, xy: 2) } }`, `{ ... on Tz { ia } }`, `query($v: Nz){ t1 }`, `{ ia { ... on Ty { ia } } }`, `{ na(z: VZ) }`,
	// several invalid fields in one input object literal / variable
	`{ na(x: {pa: "a", pb: "b", pc: "c", pd: "d", pe: VZ, pf: ["x"]}) }`, `{ na(x: {}) }`, `{ na(y: {pa: "s", pb: {pa: 1}}) }`, `{ na(x: {pa:1, pb:2, pc:3, pd:4, za:1, zb:2, zc:3}) }`,
	`query($v: Na){ na(x: $v) }`, `query($v: Na = {pa: "a", pb: "b"}){ na(x: $v) }`,
	// several failing deferred results / field errors in one response
	`{ t1 t2 t3 t4 t5 }`, `{ ta { ia ic id } tb { ia ic id } }`, `{ la { ia ib ic id } }`,
	// introspection lists
	`{ __schema { types { name kind } } }`, `{ __type(name: "Ta") { fields { name args { name } } interfaces { name } } }`, `{ __type(name: "Ia") { fields { name } possibleTypes { name } } }`,
	`{ __type(name: "Na") { inputFields { name } } }`, `{ __type(name: "Ea") { enumValues { name } } }`, `{ __type(name: "Ua") { possibleTypes { name } } }`, `{ __schema { directives { name args { name } locations } } }`,
	`{ __type(name: "Q") { fields { name args { name type { name } } } } }`,
	// plain valid requests
	`{ fa fb fc ta { ia ib } ua { ... on Ta { ia } ... on Tb { ib } } }`, `{ na(x: {pa:1, pb:2, pc:3, pd:4, pe: VA, pf: [1,2]}, z: VB) }`,
	// the order in which possible types are asked, before and after they were listed
	`{ ub { __typename ... on Ta { ia } ... on Td { ib } } lb { __typename } ia { __typename } }`, `{ __type(name: "Ub") { possibleTypes { name } } a: __type(name: "Ia") { possibleTypes { name } } }`,
	// an internal value that several enum names share
	`{ al als }`, `{ __type(name: "Al") { enumValues { name } } al }`,
	// several rules at once
	`query A { fx ...F } query A { fy } fragment F on Q { ...F ta } fragment G on Zz { a }`,
}

var detVars = []map[string]interface{}{nil, {"v": map[string]interface{}{"pa": "a", "pb": "b", "pc": "c", "za": 1, "zb": 2}}, {"v": map[string]interface{}{}}}

// detSchema builds a fresh instance per case: a request served for an earlier case must not be
// able to hide what an interleaved request does to shared schema state.
func detSchema() (*build.Built, error) {
	m := detModel()
	w := &ref.World{S: m, Salt: 3, LooseTypeOf: true, Outcomes: map[string]ref.Outcome{
		"t1": {Kind: "thunk_err"}, "t2": {Kind: "thunk_err"}, "t3": {Kind: "err"}, "t4": {Kind: "thunk_err"}, "t5": {Kind: "thunk_err"},
		"ta/ic": {Kind: "thunk_err"}, "ta/id": {Kind: "thunk_err"}, "tb/ic": {Kind: "thunk_err"}, "tb/id": {Kind: "err"},
		"la/0/ic": {Kind: "thunk_err"}, "la/1/ic": {Kind: "thunk_err"}, "la/0/id": {Kind: "thunk_err"}, "la/2/id": {Kind: "err"},
	}}
	return build.New(m, w, build.Options{})
}

func respJSON(res *graphql.Result) string {
	b, err := json.Marshal(res)
	if err != nil {
		return "<<marshal: " + err.Error() + ">>"
	}
	return string(b)
}

func validationJSON(s *graphql.Schema, text string) string {
	doc, err := parseText(text)
	if err != nil {
		return "syntax: " + err.Error()
	}
	vr := graphql.ValidateDocument(s, doc, nil)
	b, _ := json.Marshal(vr.Errors)
	return string(b)
}

var digestMu sync.Mutex
var digestW *bufio.Writer
var digestN int

func digest(kind, text, out string) {
	path := os.Getenv("VERIF_DIGEST_OUT")
	if path == "" {
		return
	}
	digestMu.Lock()
	defer digestMu.Unlock()
	if digestW == nil {
		f, err := os.Create(path)
		if err != nil {
			return
		}
		digestW = bufio.NewWriter(f)
	}
	h := sha256.Sum256([]byte(out))
	req, _ := json.Marshal(text)
	fmt.Fprintf(digestW, "%d\t%s\t%s\t%s\n", digestN, kind, hex.EncodeToString(h[:8]), req)
	digestN++
	digestW.Flush()
}

const c12K = 12

func c12Oracle(c *DetCase) (msg string, multi bool) {
	var b *build.Built
	var err error
	if c.Schema == nil {
		b, err = detSchema()
	} else {
		c.World.S = c.Schema
		b, err = build.New(c.Schema, c.World, build.Options{})
	}
	if err != nil {
		return "HARNESS: " + err.Error(), false
	}
	vars := map[string]interface{}{}
	for k, v := range c.Vars {
		vars[k] = v.ToGo()
	}
	sess := func() context.Context {
		if c.World != nil {
			return build.WithSession(context.Background(), &build.Session{W: c.World})
		}
		return context.Background()
	}
	do := func() string {
		return respJSON(graphql.Do(graphql.Params{Schema: b.Schema, RequestString: c.Text, OperationName: c.OpName, VariableValues: vars, Context: sess()}))
	}
	first := do()
	firstV := validationJSON(&b.Schema, c.Text)
	multi = strings.Count(first, `"message"`) >= 2 || strings.Contains(first, "Did you mean") || strings.Contains(first, `"__schema"`) || strings.Contains(first, `"__type"`)
	digest("do", c.Text, first)
	digest("validate", c.Text, firstV)
	var pc *graphql.PlanCache
	if c.Cache {
		pc = graphql.NewPlanCache(graphql.PlanCacheOptions{MaxEntries: c.CacheSize})
	}
	firstCached := ""
	var altFirst []string
	cached := func() string {
		pr := pc.Get(&b.Schema, c.Text, c.OpName)
		if pr.Plan == nil {
			return respJSON(&graphql.Result{Errors: pr.Errors})
		}
		return respJSON(graphql.ExecutePlan(pr.Plan, graphql.ExecuteParams{Schema: b.Schema, OperationName: c.OpName, Args: vars, Context: sess()}))
	}
	if pc != nil {
		// the first answer through the cache, before anything else was served by that entry
		firstCached = cached()
		digest("cached", c.Text, firstCached)
		if firstCached != first {
			return fmt.Sprintf("the same request answered through the plan cache differs from the answer without a cache\n  request: %s\n  without: %s\n  cached:  %s", c.Text, first, firstCached), multi
		}
	}
	for k := 0; k < c12K; k++ {
		for _, o := range c.Others {
			graphql.Do(graphql.Params{Schema: b.Schema, RequestString: o, Context: sess()})
			if pc != nil && c.CacheSize > 0 {
				if pr := pc.Get(&b.Schema, o, ""); pr.Plan != nil {
					graphql.ExecutePlan(pr.Plan, graphql.ExecuteParams{Schema: b.Schema, Context: sess()})
				}
			}
		}
		for _, nb := range c.Neighbours {
			nv := map[string]interface{}{}
			for k, v := range nb.Vars {
				nv[k] = v.ToGo()
			}
			graphql.Do(graphql.Params{Schema: b.Schema, RequestString: nb.Text, OperationName: nb.OpName, VariableValues: nv, Context: sess()})
			if pc != nil {
				if pr := pc.Get(&b.Schema, nb.Text, nb.OpName); pr.Plan != nil {
					for k, v := range pr.SynthArgs {
						nv[k] = v
					}
					graphql.ExecutePlan(pr.Plan, graphql.ExecuteParams{Schema: b.Schema, OperationName: nb.OpName, Args: nv, Context: sess()})
				}
			}
		}
		for i, av := range c.AltVars {
			alt := map[string]interface{}{}
			for k, v := range av {
				alt[k] = v.ToGo()
			}
			got := respJSON(graphql.Do(graphql.Params{Schema: b.Schema, RequestString: c.Text, OperationName: c.OpName, VariableValues: alt, Context: sess()}))
			if len(altFirst) <= i {
				altFirst = append(altFirst, got)
			} else if got != altFirst[i] {
				return fmt.Sprintf("repetition %d of the same request (variable set %d) gave a different response\n  request: %s\n  first: %s\n  now:   %s", k+1, i+1, c.Text, altFirst[i], got), multi
			}
			if pc != nil {
				if pr := pc.Get(&b.Schema, c.Text, c.OpName); pr.Plan != nil {
					got := respJSON(graphql.ExecutePlan(pr.Plan, graphql.ExecuteParams{Schema: b.Schema, OperationName: c.OpName, Args: alt, Context: sess()}))
					if got != altFirst[i] {
						return fmt.Sprintf("the same request (variable set %d) answered through a plan-cache entry that served other variable values before differs from its answer without a cache\n  request: %s\n  variables: %s\n  without: %s\n  cached:  %s", i+1, c.Text, canonJSON(alt), altFirst[i], got), multi
					}
				}
			}
		}
		if got := do(); got != first {
			return fmt.Sprintf("repetition %d of the same request gave a different response\n  request: %s\n  first: %s\n  now:   %s", k+1, c.Text, first, got), multi
		}
		if got := validationJSON(&b.Schema, c.Text); got != firstV {
			return fmt.Sprintf("repetition %d of ValidateDocument gave a different error list\n  request: %s\n  first: %s\n  now:   %s", k+1, c.Text, firstV, got), multi
		}
		if pc != nil {
			if got := cached(); got != firstCached {
				return fmt.Sprintf("serving the same request through the plan cache gave a different response on lookup %d\n  request: %s\n  first: %s\n  now:   %s", k+2, c.Text, firstCached, got), multi
			}
		}
	}
	return "", multi
}

// TestC12_Fixed: the requests aimed at map-iteration sites.
func TestC12_Fixed(t *testing.T) {
	if replayFile() != "" {
		t.Skip()
	}
	for i, text := range detRequests {
		for j, v := range detVars {
			if j > 0 && !strings.Contains(text, "$v") {
				continue
			}
			c := &DetCase{Text: text, Others: []string{detRequests[(i+1)%len(detRequests)], detRequests[(i+7)%len(detRequests)]}, Cache: i%2 == 0, CacheSize: []int{0, 1, 2}[(i/2)%3]}
			if v != nil {
				c.Vars = map[string]*model.Val{}
				b, _ := json.Marshal(v["v"])
				c.Vars["v"] = jsonToVal(b)
			}
			msg, multi := c12Oracle(c)
			stats.R.Class("fixed_request")
			stats.R.Case(caseKey(c), multi, func() interface{} { return c.Text })
			if msg != "" {
				violation(t, "C12", "fixed", c, "%s", msg)
			}
		}
	}
}

func jsonToVal(b []byte) *model.Val {
	var x interface{}
	json.Unmarshal(b, &x)
	var conv func(x interface{}) *model.Val
	conv = func(x interface{}) *model.Val {
		switch v := x.(type) {
		case nil:
			return model.Null()
		case bool:
			return model.Bool(v)
		case float64:
			if v == float64(int64(v)) {
				return model.Int(int64(v))
			}
			return model.Float(v)
		case string:
			return model.Str(v)
		case []interface{}:
			l := model.List()
			for _, e := range v {
				l.L = append(l.L, conv(e))
			}
			return l
		case map[string]interface{}:
			o := model.Obj()
			var keys []string
			for k := range v {
				keys = append(keys, k)
			}
			sortStrings(keys)
			for _, k := range keys {
				o.O = append(o.O, model.F(k, conv(v[k])))
			}
			return o
		}
		return model.Null()
	}
	return conv(x)
}

func sortStrings(s []string) {
	for i := 1; i < len(s); i++ {
		for j := i; j > 0 && s[j] < s[j-1]; j-- {
			s[j], s[j-1] = s[j-1], s[j]
		}
	}
}

// TestC12_Gen: bulk requests from the execution generators (valid, failing at execution,
// invalid variables) repeated against their own schema.
func TestC12_Gen(t *testing.T) {
	var rc DetCase
	if loadReplay(t, "C12", &rc) {
		if msg, _ := c12Oracle(&rc); msg != "" {
			t.Fatalf("VERIF-FAIL property=C12 sub=repeat replay=%s :: %s", replayFile(), msg)
		}
		return
	}
	rapid.Check(t, func(rt *rapid.T) {
		ec, _ := genExecCase(rt, gen.SchemaOpts{Mutation: true}, gen.DocOpts{Budget: 25}, gen.WorldOpts{Adversarial: 40, NoPropagation: false})
		ec.fix()
		text := model.Print(ec.Doc, ec.Layout).Text
		c := &DetCase{Schema: ec.Schema, World: ec.World, Text: text, OpName: ec.OpName, Vars: ec.Vars, AltVars: ec.AltVars, Cache: gen.Chance(rt, 50, "cache"), CacheSize: gen.Uniform(rt, 4, "cacheSize")}
		if gen.Chance(rt, 50, "others") {
			c.Others = []string{`{ __typename }`, `{ nope }`,
				`{ __schema { types { name possibleTypes { name } interfaces { name } fields { name args { name } } enumValues { name } inputFields { name } } directives { name args { name } } } }`}
		}
		ec.World.LooseTypeOf = gen.Chance(rt, 30, "looseTypeOf")
		if gen.Chance(rt, 50, "neighbours") {
			for i, n := 0, gen.Intn(rt, 1, 2, "nNeighbours"); i < n; i++ {
				d2, op2, _ := gen.Doc(rt, ec.Schema, gen.DocOpts{Budget: 20})
				c.Neighbours = append(c.Neighbours, NeighbourReq{Text: model.Print(d2, nil).Text, OpName: op2, Vars: gen.Variables(rt, ec.Schema, d2)})
			}
		}
		msg, multi := c12Oracle(c)
		stats.R.Class("generated_request")
		stats.R.Case(caseKey(c), multi, func() interface{} { return c.Text })
		if msg != "" {
			violation(rt, "C12", "repeat", c, "%s", msg)
		}
	})
}
