package props

import (
	"sync"

	"github.com/graphql-go/graphql"

	"verif/build"
	"verif/model"
	"verif/ref"
)

// kitchenModel is a fixed schema with every kind of type, cyclic references, mutation and
// subscription roots. Used where the property quantifies over requests, not over schemas.
func kitchenModel() *model.Schema {
	t := model.T
	arg := func(n, ty string, def *model.Val) *model.ArgDef {
		return &model.ArgDef{Name: n, Type: t(ty), Default: def}
	}
	f := func(n, ty string, args ...*model.ArgDef) *model.FieldDef {
		return &model.FieldDef{Name: n, Type: t(ty), Args: args}
	}
	return &model.Schema{Query: "Q", Mutation: "M", Subscription: "S", Types: []*model.TypeDef{
		{Kind: model.KScalar, Name: "C"},
		{Kind: model.KEnum, Name: "E", Values: []*model.EnumVal{{Name: "V0", Internal: model.Int(10)}, {Name: "V1", Internal: model.Int(11)}, {Name: "V2", Internal: model.Int(12)}}},
		{Kind: model.KInput, Name: "N", InputFields: []*model.ArgDef{arg("a", "Int", model.Int(7)), arg("b", "String!", nil), arg("n", "N", nil), arg("l", "[N]", nil), arg("e", "E", model.Enum("V1"))}},
		{Kind: model.KIface, Name: "I", HasResolveType: true, Fields: []*model.FieldDef{f("a", "String"), f("i", "I")}},
		{Kind: model.KObject, Name: "O", Interfaces: []string{"I"}, Fields: []*model.FieldDef{f("a", "String"), f("i", "I"), f("o", "O"), f("x", "Int", arg("y", "Int", nil)), f("nn", "String!"), f("l", "[O]"), f("u", "U")}},
		{Kind: model.KObject, Name: "P", Interfaces: []string{"I"}, HasIsTypeOf: true, Fields: []*model.FieldDef{f("a", "String"), f("i", "I"), f("p", "Int"), f("e", "E")}},
		{Kind: model.KUnion, Name: "U", Members: []string{"O", "P"}, HasResolveType: true},
		{Kind: model.KObject, Name: "Q", Fields: []*model.FieldDef{f("a", "String"), f("o", "O"), f("l", "[O!]!"), f("i", "I"), f("u", "U"), f("ul", "[U]"), f("e", "E"),
			f("n", "String", arg("x", "N", nil), arg("y", "[Int!]", nil), arg("z", "E", model.Enum("V0")), arg("w", "C", nil)),
			f("self", "Q"), f("nn", "String!"), f("f", "Float"), f("id", "ID"), f("b", "Boolean"), f("int", "Int"), f("req", "String", arg("r", "Int!", nil)), f("ll", "[[Int]]"),
			f("many", "String", arg("v", "[N]", nil), arg("vv", "[[N!]]", nil)),
			f("strs", "String", arg("a", "[String]", nil), arg("b", "[String]", nil), arg("c", "N", nil), arg("d", "N", nil))}},
		{Kind: model.KObject, Name: "M", Fields: []*model.FieldDef{f("a", "String"), f("set", "Int", arg("x", "Int", nil)), f("o", "O")}},
		{Kind: model.KObject, Name: "S", Fields: []*model.FieldDef{f("a", "String"), f("ev", "O", arg("n", "Int", nil))}},
	}}
}

var kitchenVocabulary = []string{"many", "v", "vv", "strs", "c", "d", "a", "o", "l", "i", "u", "ul", "e", "n", "self", "nn", "f", "id", "b", "int", "req", "ll", "x", "y", "z", "w", "r", "p", "set", "ev",
	"Q", "O", "P", "I", "U", "E", "N", "C", "M", "S", "V0", "V1", "Int", "String", "Boolean", "ID", "Float", "skip", "include", "if", "deprecated", "__typename", "__schema", "__type", "name", "types", "fields", "kind",
	"on", "true", "false", "null", "query", "mutation", "subscription", "fragment", "F", "G", "v", "k1"}

var (
	kitchenOnce  sync.Once
	kitchenBuilt *build.Built
	kitchenErr   error
)

// kitchen builds the kitchen schema once per process (a schema value is meant to be shared).
func kitchen() (*build.Built, error) {
	kitchenOnce.Do(func() {
		m := kitchenModel()
		w := &ref.World{S: m, Salt: 7, NullRate: 6, MaxList: 2, ThunkRate: 4} // a quarter of the fields and list elements are deferred values
		kitchenBuilt, kitchenErr = build.New(m, w, build.Options{Subscribe: func(defType, field string) graphql.FieldResolveFn {
			return func(p graphql.ResolveParams) (interface{}, error) {
				ch := make(chan interface{}, 2)
				ch <- &ref.Tok{Type: "S", ID: "ev0"}
				ch <- &ref.Tok{Type: "S", ID: "ev1"}
				close(ch)
				return ch, nil
			}
		}})
	})
	return kitchenBuilt, kitchenErr
}
