package props

import (
	"context"
	"encoding/json"
	"fmt"
	"os"
	"path/filepath"
	"runtime"
	"sync"
	"sync/atomic"
	"testing"
	"time"

	"github.com/graphql-go/graphql"
	"pgregory.net/rapid"

	"verif/build"
	"verif/gen"
	"verif/model"
	"verif/ref"
	"verif/stats"
)

// C07 — one schema, plan and plan cache can serve concurrent requests safely.
// Run from a binary built with -race: the race detector is the oracle for unordered
// accesses (GORACE=halt_on_error=1; the driver reads its report), and every goroutine's
// response is compared with a sequential baseline on a private instance.

type ConcOp struct {
	Kind  string `json:"kind"` // do | validate | cacheGet | execPlan | reset | burst
	Query int    `json:"query"`
	Vars  int    `json:"vars,omitempty"` // index into c07Valuations
}

// c07Valuations: variable values for the requests that declare $s / $t (others ignore them);
// different valuations of variable-driven @skip/@include make one shared plan build its
// per-valuation variants on several goroutines at once.
var c07Valuations = []map[string]interface{}{
	nil, {"s": true}, {"s": false}, {"t": false}, {"s": true, "t": false}, {"s": false, "t": true},
}

type ConcCase struct {
	Scripts   [][]ConcOp `json:"scripts"` // one per goroutine
	Normalize bool       `json:"normalize"`
	Procs     int        `json:"procs,omitempty"`
}

var c07Queries = []string{
	`{ e n(z: V1) }`,
	`{ n(x: {b: "s", e: V2}, z: V0) e }`,
	`{ i { a ... on O { x(y: 1) } ... on P { p e } } }`,
	`{ u { ... on O { a } ... on P { p } } ul { ... on O { i { a } } ... on P { e } } }`,
	`{ l { i { a i { a ... on P { e } } } u { ... on P { p } } } }`,
	`{ o { i { i { i { a } } } l { u { ... on O { nn } } } } }`,
	`query($v: E = V2, $s: Boolean = true) { n(z: $v) a @skip(if: $s) e }`,
	`query($s: Boolean = false, $t: Boolean = true) { i { a ... on O { x(y: 1) @include(if: $t) } ... on P { p @skip(if: $s) e } } e @skip(if: $s) ul { ... on O { a @include(if: $t) } ... on P { p } } }`,
	`{ __schema { types { name possibleTypes { name } enumValues { name } } } }`,
	`{ __type(name: "I") { possibleTypes { name } } __type2: __type(name: "E") { enumValues { name } } }`,
	// literal neighbours: under normalisation these share one cache entry, each with its own literal values
	`{ e n(z: V2) }`,
	`{ e n(z: V0) }`,
	`{ n(x: {b: "t", e: V2}, z: V0) e }`,
	`{ n(x: {b: "s", e: V1}, z: V1) e }`,
	`{ n(x: {b: "u", e: V0}, z: V2) e }`,
	`mutation { set(x: 1) o { i { a } } }`,
	// abstract types with exactly one possible type (J: only O implements it; U1: one member) below other abstract fields
	`{ ul { ... on O { j { a ... on O { x(y: 3) } } u1 { ... on P { p } } } ... on P { u1 { ... on P { e u1 { ... on P { p } } } } } } }`,
	`{ i { a ... on O { j { a } u1 { ... on P { p e } } } ... on P { u1 { ... on P { p } } } } j { a ... on O { u { ... on P { u1 { ... on P { e } } } } } } }`,
	`{ nope }`,
	`{ n(z: NOPE) }`,
}

// sharedPlanQuery is the document behind the shared prepared plan.
const sharedPlanQuery = `query($s: Boolean = false, $t: Boolean = true) { e @skip(if: $s) i { a ... on O { x(y: 2) @include(if: $t) u { ... on P { e } } } ... on P { p e @skip(if: $s) } } ul { ... on O { a j { a @include(if: $t) } } ... on P { p @include(if: $t) u1 { ... on P { e } } } } n(x: {b: "p"}, z: V2) }`

// c07Model is the kitchen schema with one covariant interface implementation (P.i: P where
// the interface says I): checking it makes NewSchema fill the possible-type table for I, the
// state later lookups for other abstract types extend.
func c07Model() *model.Schema {
	m := kitchenModel()
	for _, td := range m.Types {
		if td.Name == "P" {
			for _, f := range td.Fields {
				if f.Name == "i" {
					f.Type = model.T("P")
				}
			}
		}
	}
	// abstract types with exactly one possible type, reachable below other abstract fields: interface J implemented
	// by O only, union U1 with the single member P
	m.Types = append(m.Types,
		&model.TypeDef{Kind: model.KIface, Name: "J", HasResolveType: true, Fields: []*model.FieldDef{{Name: "a", Type: model.T("String")}}},
		&model.TypeDef{Kind: model.KUnion, Name: "U1", Members: []string{"P"}, HasResolveType: true})
	for _, td := range m.Types {
		switch td.Name {
		case "O":
			td.Interfaces = append(td.Interfaces, "J")
			td.Fields = append(td.Fields, &model.FieldDef{Name: "j", Type: model.T("J")}, &model.FieldDef{Name: "u1", Type: model.T("U1")})
		case "P":
			td.Fields = append(td.Fields, &model.FieldDef{Name: "u1", Type: model.T("U1")})
		case "Q":
			td.Fields = append(td.Fields, &model.FieldDef{Name: "j", Type: model.T("J")})
		}
	}
	return m
}

func c07Instance() (*build.Built, *ref.World, error) {
	m := c07Model()
	w := &ref.World{S: m, Salt: 21, MaxList: 6}
	b, err := build.New(m, w, build.Options{})
	return b, w, err
}

func c07Run(b *build.Built, w *ref.World, pc *graphql.PlanCache, plan *graphql.Plan, op ConcOp) string {
	ctx := build.WithSession(context.Background(), &build.Session{W: w})
	q := c07Queries[op.Query%len(c07Queries)]
	vars := c07Valuations[op.Vars%len(c07Valuations)]
	switch op.Kind {
	case "do":
		return respJSON(graphql.Do(graphql.Params{Schema: b.Schema, RequestString: q, VariableValues: vars, Context: ctx}))
	case "validate":
		doc, err := parseText(q)
		if err != nil {
			return "syntax"
		}
		vr := graphql.ValidateDocument(&b.Schema, doc, nil)
		out, _ := json.Marshal(vr.Errors)
		return string(out)
	case "cacheGet":
		pr := pc.Get(&b.Schema, q, "")
		if pr.Plan == nil {
			return respJSON(&graphql.Result{Errors: pr.Errors})
		}
		args := map[string]interface{}{}
		for k, v := range vars {
			args[k] = v
		}
		for k, v := range pr.SynthArgs {
			args[k] = v
		}
		return respJSON(graphql.ExecutePlan(pr.Plan, graphql.ExecuteParams{Schema: b.Schema, Args: args, Context: ctx}))
	case "execPlan":
		return respJSON(graphql.ExecutePlan(plan, graphql.ExecuteParams{Schema: b.Schema, Args: vars, Context: ctx}))
	case "burst":
		// the shared plan many times in a row (lists of mixed runtime types through the same
		// abstract field plans, from several goroutines): every answer must be the same
		first := ""
		for i := 0; i < 40; i++ {
			r := respJSON(graphql.ExecutePlan(plan, graphql.ExecuteParams{Schema: b.Schema, Args: vars, Context: build.WithSession(context.Background(), &build.Session{W: w})}))
			if i == 0 {
				first = r
			} else if r != first {
				return "execution " + fmt.Sprint(i+1) + " of a burst differs: " + r + " (first: " + first + ")"
			}
		}
		return first
	case "reset":
		pc.Reset()
		return "reset"
	}
	return ""
}

func c07Oracle(c *ConcCase) (msg string, overlapped bool) {
	if c.Procs > 0 {
		defer runtime.GOMAXPROCS(runtime.GOMAXPROCS(c.Procs))
	}
	// the shared, cold instance
	b, w, err := c07Instance()
	if err != nil {
		return "HARNESS: " + err.Error(), false
	}
	// a plan prepared on a separate parse so that planning itself does not warm the schema much
	doc, _ := parseText(sharedPlanQuery)
	plan, err := graphql.PlanQuery(&b.Schema, doc, "")
	if err != nil {
		return "HARNESS: PlanQuery: " + err.Error(), false
	}
	pc := graphql.NewPlanCache(graphql.PlanCacheOptions{MaxEntries: 3, Normalize: c.Normalize})
	results := make([][]string, len(c.Scripts))
	var panics atomic.Value
	var started, finished int64
	var maxOverlap int64
	start := make(chan struct{})
	var wg sync.WaitGroup
	for g := range c.Scripts {
		g := g
		results[g] = make([]string, len(c.Scripts[g]))
		wg.Add(1)
		go func() {
			defer wg.Done()
			defer func() {
				if r := recover(); r != nil {
					panics.Store(fmt.Sprintf("goroutine %d panicked: %v", g, r))
				}
			}()
			<-start
			for i, op := range c.Scripts[g] {
				s := atomic.AddInt64(&started, 1)
				f := atomic.LoadInt64(&finished)
				if d := s - f; d > atomic.LoadInt64(&maxOverlap) {
					atomic.StoreInt64(&maxOverlap, d)
				}
				results[g][i] = c07Run(b, w, pc, plan, op)
				atomic.AddInt64(&finished, 1)
			}
		}()
	}
	close(start)
	done := make(chan struct{})
	go func() { wg.Wait(); close(done) }()
	select {
	case <-done:
	case <-time.After(120 * time.Second):
		// the blocked goroutines stay blocked (and may hold locks of shared state): report and stop this process at once
		fatalViolation("C07", "concurrent", c, "goroutines did not finish within 120 s: %d of %d operations returned (deadlock)", atomic.LoadInt64(&finished), atomic.LoadInt64(&started))
	}
	if p, _ := panics.Load().(string); p != "" {
		return p, true
	}
	overlapped = atomic.LoadInt64(&maxOverlap) >= 2
	// sequential baseline on a private instance
	b2, w2, err := c07Instance()
	if err != nil {
		return "HARNESS: " + err.Error(), overlapped
	}
	doc2, _ := parseText(sharedPlanQuery)
	plan2, _ := graphql.PlanQuery(&b2.Schema, doc2, "")
	pc2 := graphql.NewPlanCache(graphql.PlanCacheOptions{MaxEntries: 3, Normalize: c.Normalize})
	for g := range c.Scripts {
		for i, op := range c.Scripts[g] {
			want := c07Run(b2, w2, pc2, plan2, op)
			if results[g][i] != want {
				return fmt.Sprintf("goroutine %d, operation %d (%s %s): response under concurrency differs from the response of the same request run alone\n  concurrent: %s\n  alone:      %s",
					g, i, op.Kind, c07Queries[op.Query%len(c07Queries)], results[g][i], want), overlapped
			}
		}
	}
	return "", overlapped
}

func TestC07(t *testing.T) {
	var rc ConcCase
	if loadReplay(t, "C07", &rc) {
		for i := 0; i < 20; i++ { // schedules vary: repeat the history
			if msg, _ := c07Oracle(&rc); msg != "" {
				t.Fatalf("VERIF-FAIL property=C07 sub=concurrent replay=%s :: %s", replayFile(), msg)
			}
		}
		return
	}
	kinds := []string{"do", "do", "do", "validate", "cacheGet", "cacheGet", "execPlan", "execPlan", "reset", "burst"}
	cur := filepath.Join(os.Getenv("VERIF_REPLAY_DIR"), fmt.Sprintf("C07-current-s%d.json", envInt("VERIF_SHARD", 0)))
	rapid.Check(t, func(rt *rapid.T) {
		c := &ConcCase{Normalize: gen.Chance(rt, 50, "normalize")}
		c.Procs = []int{0, 2, 4}[gen.Uniform(rt, 3, "procs")]
		g := []int{2, 4, 8, 16}[gen.Uniform(rt, 4, "goroutines")]
		for i := 0; i < g; i++ {
			var script []ConcOp
			for j, n := 0, gen.Intn(rt, 3, 10, "ops"); j < n; j++ {
				script = append(script, ConcOp{Kind: kinds[gen.Uniform(rt, len(kinds), "kind")], Query: gen.Uniform(rt, len(c07Queries), "query"), Vars: gen.Uniform(rt, len(c07Valuations), "vars")})
			}
			c.Scripts = append(c.Scripts, script)
		}
		// remember the running case: a race report halts the process, this file is its replay
		if os.Getenv("VERIF_REPLAY_DIR") != "" {
			os.MkdirAll(filepath.Dir(cur), 0o755)
			env := replayEnvelope{Property: "C07", Sub: "concurrent", Observed: "data race reported while this case was running (see the log)"}
			env.Case, _ = json.Marshal(c)
			b, _ := json.Marshal(env)
			os.WriteFile(cur, b, 0o644)
		}
		msg, overlapped := c07Oracle(c)
		stats.R.Class(fmt.Sprintf("goroutines_%d", g))
		if overlapped {
			stats.R.Class("requests_overlapped")
		}
		stats.R.Case(caseKey(c), overlapped, func() interface{} { return c })
		if msg != "" {
			violation(rt, "C07", "concurrent", c, "%s", msg)
		}
	})
	os.Remove(cur)
}
