package props

import (
	"fmt"
	"os"
	"strings"
	"testing"

	"github.com/graphql-go/graphql/language/ast"
	"github.com/graphql-go/graphql/language/printer"
	"pgregory.net/rapid"

	"verif/stats"
	"verif/syn"
)

// C08 — printing an AST and parsing the text back yields the same AST.

func printLib(node ast.Node) (out string, panicked string) {
	defer func() {
		if r := recover(); r != nil {
			panicked = fmt.Sprint(r)
		}
	}()
	s, _ := printer.Print(node).(string)
	return s, ""
}

// c08Oracle: for text the library parses: print -> parse -> same AST; print stable; AST untouched.
// class is "" when the text is not parseable (nothing to check).
func c08Oracle(tc *TextCase) (msg, class string) {
	a1, err := libParse([]byte(tc.Text))
	if err != nil {
		return "", "unparseable"
	}
	if _, rerr := syn.ParseDocument([]byte(tc.Text)); rerr != nil {
		// accepted by the library but not derivable from the grammar: C03's business (known
		// finding KF-C03-typeref); the round-trip property quantifies over grammatical documents
		return "", "not_in_grammar"
	}
	before := syn.FromLib(a1)
	beforeDump := before.Dump(true)
	p1, pan := printLib(a1)
	if pan != "" {
		return fmt.Sprintf("printer panicked: %s\n  input: %q", pan, tc.Text), "panic"
	}
	if after := syn.FromLib(a1).Dump(true); after != beforeDump {
		return fmt.Sprintf("Print modified the AST it was given\n  input: %q\n  before: %s\n  after:  %s", tc.Text, beforeDump, after), "ast_modified"
	}
	a2, err := libParse([]byte(p1))
	if err != nil {
		return fmt.Sprintf("printed text does not parse: %s\n  input:   %q\n  printed: %q", oneLine(err.Error()), tc.Text, p1), "print_unparseable"
	}
	n2 := syn.FromLib(a2)
	if d := syn.Diff(before, n2, false); d != "" {
		return fmt.Sprintf("AST changed across print+parse: %s\n  input:   %q\n  printed: %q", d, tc.Text, p1), "roundtrip_differs"
	}
	p2, pan := printLib(a2)
	if pan != "" {
		return fmt.Sprintf("printer panicked on the re-parsed AST: %s\n  printed: %q", pan, p1), "panic"
	}
	if p2 != p1 {
		return fmt.Sprintf("printing is not stable after one round\n  first:  %q\n  second: %q", p1, p2), "unstable"
	}
	return "", "roundtrip_ok"
}

func c08Nontrivial(tc *TextCase) bool {
	// a string/description with a character outside plain printable ASCII, or a type-system
	// definition with a description or directive
	for _, r := range tc.Text {
		if r > '~' || (r < ' ' && r != '\n' && r != '\r' && r != '\t') {
			return true
		}
	}
	return strings.Contains(tc.Text, `\`) || strings.Contains(tc.Text, `"""`) ||
		((strings.Contains(tc.Text, "type") || strings.Contains(tc.Text, "enum") || strings.Contains(tc.Text, "input")) && strings.ContainsAny(tc.Text, `"@`))
}

func TestC08_Gen(t *testing.T) {
	var rc TextCase
	if loadReplay(t, "C08", &rc) {
		if msg, _ := c08Oracle(&rc); msg != "" {
			t.Fatalf("VERIF-FAIL property=C08 sub=gen replay=%s :: %s", replayFile(), msg)
		}
		return
	}
	rapid.Check(t, func(rt *rapid.T) {
		kind := []string{"exec", "schema", "mixed"}[rapid.IntRange(0, 2).Draw(rt, "kind")]
		toks := syn.GenDocumentTokens(rt, kind)
		tc := &TextCase{Text: syn.Render(rt, toks, false)}
		msg, class := c08Oracle(tc)
		stats.R.Class(class)
		stats.R.Class("kind_" + kind)
		stats.R.Case(tc.Text, class != "unparseable" && class != "not_in_grammar" && c08Nontrivial(tc), func() interface{} { return tc.Text })
		if msg != "" {
			violation(rt, "C08", "gen", tc, "%s", msg)
		}
	})
}

func TestC08_Corpus(t *testing.T) {
	if replayFile() != "" {
		t.Skip()
	}
	var texts []string
	for _, f := range []string{"/repo/kitchen-sink.graphql", "/repo/schema-kitchen-sink.graphql", "/repo/schema-all-descriptions.graphql"} {
		if b, err := os.ReadFile(f); err == nil {
			texts = append(texts, string(b))
		}
	}
	texts = append(texts, hostileTexts...)
	for _, s := range texts {
		tc := &TextCase{Text: s}
		msg, class := c08Oracle(tc)
		stats.R.Class(class)
		stats.R.Case(tc.Text, class != "unparseable", func() interface{} { return tc.Text })
		if msg != "" {
			violation(t, "C08", "corpus", tc, "%s", msg)
		}
	}
}

func FuzzC08(f *testing.F) {
	for _, s := range hostileTexts {
		f.Add(s)
	}
	for _, p := range []string{"/repo/kitchen-sink.graphql", "/repo/schema-kitchen-sink.graphql"} {
		if b, err := os.ReadFile(p); err == nil {
			f.Add(string(b))
		}
	}
	f.Fuzz(func(t *testing.T, s string) {
		if len(s) > 1<<14 || (known("KF-C03-offsets") && offsetsAffected([]byte(s))) {
			return
		}
		tc := &TextCase{Text: s}
		msg, class := c08Oracle(tc)
		stats.R.Class(class)
		stats.R.Case(tc.Text, class != "unparseable", func() interface{} { return tc.Text })
		if msg != "" {
			violation(t, "C08", "fuzz", tc, "%s", msg)
		}
	})
}
