package props

import (
	"fmt"
	"testing"

	"github.com/graphql-go/graphql"
	"pgregory.net/rapid"

	"verif/build"
	"verif/gen"
	"verif/model"
	"verif/ref"
	"verif/stats"
)

// C01 — execution returns the response the execution algorithm prescribes (DESIGN §4 C01).

func genExecCase(t *rapid.T, so gen.SchemaOpts, do gen.DocOpts, wo gen.WorldOpts) (*ExecCase, *gen.DocStats) {
	s := gen.Schema(t, so)
	d, op, st := gen.Doc(t, s, do)
	vars := gen.Variables(t, s, d)
	w, regime := gen.World(t, s, d, op, vars, wo)
	c := &ExecCase{Schema: s, Doc: d, OpName: op, Vars: vars, World: w, Regime: regime}
	declares := false
	for _, o := range d.Operations() {
		declares = declares || len(o.Vars) > 0
	}
	c.TypedSlices = declares && gen.Chance(t, 25, "typedSlices")
	if declares && gen.Chance(t, 60, "altVars") {
		for i, n := 0, gen.Intn(t, 1, 2, "nAltVars"); i < n; i++ {
			c.AltVars = append(c.AltVars, gen.Variables(t, s, d))
		}
	}
	if rapid.IntRange(0, 3).Draw(t, "layoutKind") == 0 {
		c.Layout = &model.Layout{Seps: rapid.SliceOfN(rapid.IntRange(0, model.NumASCIISeparators-1), 1, 7).Draw(t, "seps")}
	}
	return c, st
}

// execOracle runs the three entry paths against the reference interpreter.
func execOracle(c *ExecCase) (string, *ref.Result) {
	c.fix()
	text := model.Print(c.Doc, c.Layout).Text
	c.Text = text
	b, err := build.New(c.Schema, c.World, build.Options{})
	if err != nil {
		return "HARNESS: generated schema rejected by NewSchema: " + err.Error(), nil
	}
	want := ref.Execute(c.Schema, c.Doc, c.OpName, c.Vars, c.World)
	var plan *graphql.Plan
	for _, entry := range []string{"do", "execute", "plan", "planzero"} {
		lr, err := runEntry(b, c, text, entry, &plan)
		if err != nil {
			return fmt.Sprintf("HARNESS(%s): %v\n%s", entry, err, text), want
		}
		if entry == "do" && lr.Res != nil && lr.Res.Data == nil && want.ReqError == "" && len(lr.Res.Errors) > 0 && len(lr.Res.Errors[0].Path) == 0 && len(lr.Res.Errors[0].Locations) > 0 && want.Data != nil {
			// the library rejected (validation) a document the generator built as valid
			return fmt.Sprintf("GENERATED-DOCUMENT-REJECTED: %s\n%s", lr.Res.Errors[0].Message, text), want
		}
		if d := compareExec(want, lr.Res); d != "" {
			return fmt.Sprintf("entry %s: %s\n  document: %s\n  variables: %s", entry, d, text, canonJSON(c.goVars())), want
		}
	}
	// the prepared plan again with other values of the variables, then with the first ones: every
	// execution is answered as the algorithm prescribes for its own variables
	for i := 0; i <= len(c.AltVars) && plan != nil && len(c.AltVars) > 0; i++ {
		c2 := *c
		wantI := want
		if i < len(c.AltVars) {
			c2.Vars = c.AltVars[i]
			wantI = ref.Execute(c.Schema, c.Doc, c.OpName, c2.Vars, c.World)
		}
		lr, err := runEntry(b, &c2, text, "plan", &plan)
		if err != nil {
			return fmt.Sprintf("HARNESS(plan reuse): %v\n%s", err, text), want
		}
		if d := compareExec(wantI, lr.Res); d != "" {
			return fmt.Sprintf("entry plan, execution %d of one prepared plan (earlier executions used other variable values): %s\n  document: %s\n  variables: %s\n  variables of the earlier executions: %s", i+3, d, text, canonJSON(c2.goVars()), canonJSON(c.goVars())), want
		}
	}
	return "", want
}

func c01Nontrivial(st *gen.DocStats, want *ref.Result) (bool, []string) {
	var cls []string
	if st != nil {
		if st.DupKeys > 0 {
			cls = append(cls, "dup_response_key")
		}
		if st.Reentries > 0 {
			cls = append(cls, "field_leading_back_into_its_own_fragment")
		}
		if st.MultiSpread > 0 {
			cls = append(cls, "fragment_spread_twice")
		}
		if st.VarDirs > 0 {
			cls = append(cls, "variable_directive")
		}
		if st.BothDirs > 0 {
			cls = append(cls, "skip_and_include_on_one_node")
		}
		if st.Ops > 1 {
			cls = append(cls, "multi_operation")
		}
	}
	nt := len(cls) > 0
	if want != nil {
		for _, m := range want.AbstractTypes {
			if len(m) >= 2 {
				cls = append(cls, "abstract_two_runtime_types")
				nt = true
				break
			}
		}
		if want.MaxPropagation >= 2 {
			cls = append(cls, "null_propagates_2_levels")
			nt = true
		}
		if want.Thunks > 0 {
			cls = append(cls, "thunks")
		}
		if len(want.Errors) > 0 {
			cls = append(cls, "field_errors")
		}
		if want.ReqError != "" {
			cls = append(cls, "request_error")
		}
	}
	return nt, cls
}

func TestC01(t *testing.T) {
	var rc ExecCase
	if loadReplay(t, "C01", &rc) {
		if msg, _ := execOracle(&rc); msg != "" {
			t.Fatalf("VERIF-FAIL property=C01 sub=exec replay=%s :: %s", replayFile(), msg)
		}
		return
	}
	rapid.Check(t, func(rt *rapid.T) {
		c, st := genExecCase(rt, gen.SchemaOpts{Mutation: true}, gen.DocOpts{}, gen.WorldOpts{})
		msg, want := execOracle(c)
		nt, cls := c01Nontrivial(st, want)
		for _, k := range cls {
			stats.R.Class(k)
		}
		stats.R.Class("regime_" + c.Regime)
		stats.R.Case(caseKey(c), nt, func() interface{} {
			return map[string]interface{}{"document": c.Text, "variables": c.goVars(), "outcomes": c.World.Outcomes, "classes": cls}
		})
		if msg != "" {
			violation(rt, "C01", "exec", c, "%s", msg)
		}
	})
}
