package props

import (
	"fmt"
	"sort"
	"strings"
	"testing"

	"github.com/graphql-go/graphql"
	"pgregory.net/rapid"

	"verif/build"
	"verif/gen"
	"verif/model"
	"verif/ref"
	"verif/stats"
)

// C02 — validation accepts exactly the documents that satisfy every validation rule.

type ValCase struct {
	Schema    *model.Schema `json:"schema"`
	Doc       *model.Doc    `json:"doc"`
	Layout    *model.Layout `json:"layout,omitempty"`
	Operators []string      `json:"operators,omitempty"` // injected violations (informational + ambiguity filter)
	Text      string        `json:"text,omitempty"`
}

// unspecifiedRules lists, for a case, the rules whose verdict the reference does not pin
// (edition-reading questions, DESIGN §3.2): they are not compared.
func unspecifiedRules(c *ValCase) map[string]string {
	out := map[string]string{}
	for _, op := range c.Operators {
		switch {
		case strings.Contains(op, "OnNonComposite"):
			// the ported edition also runs PossibleFragmentSpreads on fragments whose condition is not composite
			out["PossibleFragmentSpreads"] = "fragment on a non-composite type"
		case strings.HasPrefix(op, "overlap/typenameAgainstOtherShape"):
			// graphql-js of that edition does not shape-check the __typename meta field
			out["OverlappingFieldsCanBeMerged"] = "__typename against a field of another shape"
		}
	}
	// a field with two arguments of one name: "same arguments" is then decided by whichever copy a
	// lookup by name finds, so the overlap verdict depends on the direction of the comparison
	var dupArgs func(ss []*model.Sel) bool
	dupArgs = func(ss []*model.Sel) bool {
		for _, x := range ss {
			names := map[string]bool{}
			for _, a := range x.Args {
				if names[a.Name] {
					return true
				}
				names[a.Name] = true
			}
			if dupArgs(x.Sel) {
				return true
			}
		}
		return false
	}
	for _, def := range c.Doc.Defs {
		if dupArgs(def.Sel) {
			out["OverlappingFieldsCanBeMerged"] = "a field with duplicate argument names"
		}
	}
	// a response key that stands for __typename in one place and for another field elsewhere
	// (several injections can produce it without the operator aimed at it): the edition's
	// reference implementation does not shape-check the meta field
	typenameKeys, otherKeys := map[string]bool{}, map[string]bool{}
	var keysOf func(ss []*model.Sel)
	keysOf = func(ss []*model.Sel) {
		for _, x := range ss {
			if x.K == "field" {
				if x.Name == "__typename" {
					typenameKeys[x.Key()] = true
				} else {
					otherKeys[x.Key()] = true
				}
			}
			keysOf(x.Sel)
		}
	}
	for _, def := range c.Doc.Defs {
		keysOf(def.Sel)
	}
	for k := range typenameKeys {
		if otherKeys[k] {
			out["OverlappingFieldsCanBeMerged"] = "__typename against a field of another shape"
		}
	}
	// Same-named fragments / variables with different definitions: the spec does not say
	// which definition a reference resolves to (the reference takes the first, the library the last)
	seen := map[string]string{}
	for _, f := range c.Doc.Fragments() {
		txt := model.Print(&model.Doc{Defs: []*model.Def{f}}, nil).Text
		if prev, ok := seen[f.Name]; ok && prev != txt {
			for _, r := range []string{"PossibleFragmentSpreads", "OverlappingFieldsCanBeMerged", "NoFragmentCycles", "NoUnusedFragments", "NoUndefinedVariables",
				"NoUnusedVariables", "VariablesInAllowedPosition", "KnownFragmentNames"} {
				out[r] = "same-named fragments with different bodies"
			}
		}
		seen[f.Name] = txt
	}
	for _, op := range c.Doc.Operations() {
		vs := map[string]string{}
		for _, v := range op.Vars {
			txt := v.Type.String()
			if v.Default != nil {
				txt += "=" + model.ValString(v.Default)
			}
			if prev, ok := vs[v.Name]; ok && prev != txt {
				for _, r := range []string{"VariablesInAllowedPosition", "DefaultValuesOfCorrectType", "VariablesAreInputTypes", "KnownTypeNames"} {
					out[r] = "same-named variables with different definitions"
				}
			}
			vs[v.Name] = txt
		}
	}
	return out
}

func posSet(pr *model.Printed, nodes []interface{}) map[string]bool {
	ok := map[string]bool{}
	ls := lineStarts(pr.Text)
	for _, n := range nodes {
		off, has := pr.Pos[n]
		if !has {
			continue
		}
		l, col := model.LineCol(pr.Text, off)
		ok[fmt.Sprintf("%d:%d", l, col)] = true
		ok[fmt.Sprintf("%d:%d", l, off-ls[l-1]+1)] = true
	}
	return ok
}

func c02Oracle(c *ValCase, b *build.Built) (msg string, violated []string) {
	pr := model.Print(c.Doc, c.Layout)
	c.Text = pr.Text
	var err error
	if b == nil {
		b, err = build.New(c.Schema, &ref.World{S: c.Schema}, build.Options{})
		if err != nil {
			return "HARNESS: schema rejected: " + err.Error(), nil
		}
	}
	doc, perr := parseText(pr.Text)
	if perr != nil {
		return fmt.Sprintf("HARNESS: generated document does not parse: %v\n%s", perr, pr.Text), nil
	}
	want := ref.Validate(c.Schema, c.Doc)
	violated = ref.Violated(want)
	unspec := unspecifiedRules(c)
	validate := func(rules []graphql.ValidationRuleFn) (vr graphql.ValidationResult, pan string) {
		defer func() {
			if r := recover(); r != nil {
				pan = fmt.Sprint(r)
			}
		}()
		return graphql.ValidateDocument(&b.Schema, doc, rules), ""
	}
	if len(graphql.SpecifiedRules) != len(ref.RuleNames) {
		return fmt.Sprintf("SpecifiedRules has %d rules, the edition has %d", len(graphql.SpecifiedRules), len(ref.RuleNames)), violated
	}
	for i, name := range ref.RuleNames {
		vr, pan := validate([]graphql.ValidationRuleFn{graphql.SpecifiedRules[i]})
		if pan != "" {
			return fmt.Sprintf("rule %s panicked: %s\n  document: %s", name, pan, pr.Text), violated
		}
		if _, skip := unspec[name]; skip {
			stats.R.Exclude("ambiguous:" + unspec[name])
			continue
		}
		wantV := want[name]
		if name == "UniqueOperationNames" && len(vr.Errors) > 0 && len(wantV) == 0 && anonymousOps(c.Doc) >= 2 && known("KF-C02-unique-anonymous") {
			stats.R.KnownHit("KF-C02-unique-anonymous")
			continue
		}
		if (len(vr.Errors) > 0) != (len(wantV) > 0) {
			if len(wantV) > 0 {
				return fmt.Sprintf("rule %s alone reports nothing, but the document violates it: %s\n  document: %s", name, wantV[0].Msg, pr.Text), violated
			}
			return fmt.Sprintf("rule %s alone reports %q, but the document satisfies the rule\n  document: %s", name, vr.Errors[0].Message, pr.Text), violated
		}
		if vr.IsValid != (len(vr.Errors) == 0) {
			return fmt.Sprintf("rule %s: IsValid=%v with %d errors", name, vr.IsValid, len(vr.Errors)), violated
		}
		if len(wantV) > 0 && !sameNamedDefinitions(c.Doc) {
			// at least one reported location is the start of a node the rule may blame (with two
			// definitions of one name, even identical ones, either copy's nodes may be blamed:
			// only the verdict is compared then)
			var nodes []interface{}
			for _, v := range wantV {
				nodes = append(nodes, v.Nodes...)
			}
			okPos := posSet(pr, nodes)
			hit := false
			var got []string
			for _, e := range vr.Errors {
				if len(e.Locations) == 0 {
					return fmt.Sprintf("rule %s: error %q carries no location\n  document: %s", name, e.Message, pr.Text), violated
				}
				for _, l := range e.Locations {
					got = append(got, fmt.Sprintf("%d:%d", l.Line, l.Column))
					if okPos[fmt.Sprintf("%d:%d", l.Line, l.Column)] {
						hit = true
					}
				}
			}
			if !hit {
				var okl []string
				for k := range okPos {
					okl = append(okl, k)
				}
				sort.Strings(okl)
				return fmt.Sprintf("rule %s: none of the reported locations %v is the start of an offending node (acceptable: %v; %s)\n  document: %q", name, got, okl, wantV[0].Msg, pr.Text), violated
			}
		}
	}
	// all rules together
	vr, pan := validate(nil)
	if pan != "" {
		return fmt.Sprintf("ValidateDocument panicked: %s\n  document: %s", pan, pr.Text), violated
	}
	wantValid := len(violated) == 0
	definitelyInvalid := !wantValid && !onlyUnspec(violated, unspec)
	if len(unspec) == 0 && wantValid && !vr.IsValid {
		return fmt.Sprintf("document satisfies every rule but is rejected: %q\n  document: %s", vr.Errors[0].Message, pr.Text), violated
	}
	if definitelyInvalid {
		if vr.IsValid {
			return fmt.Sprintf("document violates %v but is accepted\n  document: %s", violated, pr.Text), violated
		}
		// Do: no data and at least one error
		res := graphql.Do(graphql.Params{Schema: b.Schema, RequestString: pr.Text})
		if res.Data != nil || len(res.Errors) == 0 {
			return fmt.Sprintf("Do answered an invalid document (violates %v): data=%s errors=%d\n  document: %s", violated, canonJSON(res.Data), len(res.Errors), pr.Text), violated
		}
	}
	return "", violated
}

func sameNamedDefinitions(d *model.Doc) bool {
	seen := map[string]bool{}
	for _, f := range d.Fragments() {
		if seen["f:"+f.Name] {
			return true
		}
		seen["f:"+f.Name] = true
	}
	for _, op := range d.Operations() {
		if op.Name != "" && seen["o:"+op.Name] {
			return true
		}
		seen["o:"+op.Name] = true
	}
	return false
}

func anonymousOps(d *model.Doc) int {
	n := 0
	for _, op := range d.Operations() {
		if op.Name == "" {
			n++
		}
	}
	return n
}

func init() {
	registerKnown(&knownFinding{ID: "KF-C02-unique-anonymous", Prop: "C02",
		What: "UniqueOperationNames reports a clash of the name \"\" for anonymous operations",
		Repro: func() bool {
			b, err := kitchen()
			if err != nil {
				return false
			}
			doc, err := parseText(`{a}{b}`)
			if err != nil {
				return false
			}
			for i, n := range ref.RuleNames {
				if n == "UniqueOperationNames" {
					return len(graphql.ValidateDocument(&b.Schema, doc, []graphql.ValidationRuleFn{graphql.SpecifiedRules[i]}).Errors) > 0
				}
			}
			return false
		}})
}

func onlyUnspec(violated []string, unspec map[string]string) bool {
	for _, v := range violated {
		if _, ok := unspec[v]; !ok {
			return false
		}
	}
	return true
}

func TestC02_Gen(t *testing.T) {
	var rc ValCase
	if loadReplay(t, "C02", &rc) {
		if msg, _ := c02Oracle(&rc, nil); msg != "" {
			t.Fatalf("VERIF-FAIL property=C02 sub=rules replay=%s :: %s", replayFile(), msg)
		}
		return
	}
	nOps := gen.NumInjectionOperators()
	rapid.Check(t, func(rt *rapid.T) {
		s := gen.Schema(rt, gen.SchemaOpts{Mutation: true, Directives: true})
		d, _, st := gen.Doc(rt, s, gen.DocOpts{Budget: 25})
		c := &ValCase{Schema: s, Doc: d}
		if gen.Chance(rt, 40, "layout") {
			c.Layout = &model.Layout{Seps: rapid.SliceOfN(rapid.IntRange(0, model.NumASCIISeparators-1), 1, 7).Draw(rt, "seps")}
		}
		nInject := []int{0, 1, 1, 1, 2, 2, 3, 4, 5, 6}[gen.Uniform(rt, 10, "nInject")]
		for i := 0; i < nInject; i++ {
			op := rapid.IntRange(0, nOps-1).Draw(rt, "operator")
			// spread the draws evenly over the catalogue instead of rapid's small-value bias
			op = (op*7919 + gen.Uniform(rt, 256, "opMix")) % nOps
			if nd, inj, ok := gen.InjectViolation(rt, s, c.Doc, op); ok {
				c.Doc = nd
				c.Operators = append(c.Operators, inj.Operator)
			}
		}
		msg, violated := c02Oracle(c, nil)
		for _, r := range violated {
			stats.R.Class("violates_" + r)
		}
		if len(violated) == 0 {
			stats.R.Class("valid")
		}
		for _, o := range c.Operators {
			stats.R.Class("op_" + strings.SplitN(o, "/", 2)[0])
		}
		nt := len(violated) > 0 || (st.Fragments >= 2 && st.DupKeys > 0)
		stats.R.Case(caseKey(c), nt, func() interface{} {
			return map[string]interface{}{"document": c.Text, "operators": c.Operators, "violates": violated}
		})
		if msg != "" {
			violation(rt, "C02", "rules", c, "%s\n  injected: %v", msg, c.Operators)
		}
	})
}

// ---------------------------------------------------------------------------------------------
// bounded exhaustive enumeration of fragment topologies (cycles, unused, overlap through chains)

func fragEnumSchema() *model.Schema {
	t := model.T
	return &model.Schema{Query: "Q", Types: []*model.TypeDef{
		{Kind: model.KObject, Name: "Q", Fields: []*model.FieldDef{{Name: "a", Type: t("Int")}, {Name: "b", Type: t("Int")}, {Name: "c", Type: t("String")}, {Name: "q", Type: t("Q")}}},
	}}
}

func fragEnumAlphabet() [][]*model.Sel {
	f := func(alias, name string) *model.Sel { return &model.Sel{K: "field", Alias: alias, Name: name} }
	q := func(inner *model.Sel) *model.Sel { return &model.Sel{K: "field", Name: "q", Sel: []*model.Sel{inner}} }
	return [][]*model.Sel{
		{f("x", "a")}, {f("x", "b")}, {f("x", "c")}, {q(f("x", "a"))}, {q(f("x", "b"))}, {f("y", "a")},
	}
}

func TestC02_Enum(t *testing.T) {
	if replayFile() != "" {
		t.Skip()
	}
	s := fragEnumSchema()
	b, err := build.New(s, &ref.World{S: s}, build.Options{})
	if err != nil {
		t.Fatalf("HARNESS: %v", err)
	}
	alpha := fragEnumAlphabet()
	k := envInt("VERIF_C02_FRAGS", 2)  // number of fragments
	na := envInt("VERIF_C02_ALPHA", 6) // alphabet size used
	sh, shards := shard()
	part := envInt("VERIF_C02_PARTS", 1) // quick takes 1/parts of the space, chosen by seed
	seed := envInt("VERIF_SEED", 1)
	// a "body" = one alphabet element + a subset of the k fragments spread after it
	nBody := na * (1 << k)
	total := 1
	for i := 0; i <= k; i++ {
		total *= nBody
	}
	names := []string{"F1", "F2", "F3"}
	mkBody := func(code int) []*model.Sel {
		a := code % na
		set := code / na
		var sel []*model.Sel
		for _, x := range alpha[a] {
			cp := *x
			sel = append(sel, &cp)
		}
		for j := 0; j < k; j++ {
			if set&(1<<j) != 0 {
				sel = append(sel, &model.Sel{K: "spread", Name: names[j]})
			}
		}
		return sel
	}
	count := 0
	for idx := (seed%part)*shards + sh; idx < total; idx += part * shards {
		x := idx
		d := &model.Doc{}
		d.Defs = append(d.Defs, &model.Def{Kind: "query", Shorthand: true, Sel: mkBody(x % nBody)})
		x /= nBody
		for j := 0; j < k; j++ {
			d.Defs = append(d.Defs, &model.Def{Kind: "fragment", Name: names[j], TypeCond: "Q", Sel: mkBody(x % nBody)})
			x /= nBody
		}
		c := &ValCase{Schema: s, Doc: d}
		msg, violated := c02Oracle(c, b)
		count++
		for _, r := range violated {
			stats.R.Class("enum_violates_" + r)
		}
		stats.R.Case(c.Text, true, func() interface{} { return c.Text })
		if msg != "" {
			violation(t, "C02", "enum", c, "%s", msg)
		}
	}
	stats.R.SetExhaustive(fmt.Sprintf("fragment topologies: query + %d fragments, bodies = one of %d selections x any subset of spreads", k, na), part == 1)
}

// ---------------------------------------------------------------------------------------------
// bounded exhaustive enumeration of comparisons under mutually exclusive / identical parents:
// { pet { ... on A { owner { X } } ... on B { owner { Y } } ... on C { owner { Z } } } } with
// A,B,C over {Dog, Cat} and X,Y,Z over plain fields, aliased fields and two fragments. The same
// pair (fields, fragment) is reached first under exclusive and later under non-exclusive
// parents (and vice versa), which is what the rule's memo tables have to keep apart.

func exclusiveEnumSchema() *model.Schema {
	t := model.T
	human := []*model.FieldDef{{Name: "name", Type: t("String")}, {Name: "nick", Type: t("String")}, {Name: "age", Type: t("Int")}}
	pet := func() []*model.FieldDef {
		return []*model.FieldDef{{Name: "owner", Type: t("Human")}, {Name: "name", Type: t("String")}}
	}
	return &model.Schema{Query: "Q", Types: []*model.TypeDef{
		{Kind: model.KObject, Name: "Human", Fields: human},
		{Kind: model.KIface, Name: "Pet", HasResolveType: true, Fields: pet()},
		{Kind: model.KObject, Name: "Dog", Interfaces: []string{"Pet"}, Fields: pet()},
		{Kind: model.KObject, Name: "Cat", Interfaces: []string{"Pet"}, Fields: pet()},
		{Kind: model.KObject, Name: "Q", Fields: []*model.FieldDef{{Name: "pet", Type: t("Pet")}}},
	}}
}

func TestC02_EnumExclusive(t *testing.T) {
	if replayFile() != "" {
		t.Skip()
	}
	s := exclusiveEnumSchema()
	b, err := build.New(s, &ref.World{S: s}, build.Options{})
	if err != nil {
		t.Fatalf("HARNESS: %v", err)
	}
	f := func(alias, name string) *model.Sel { return &model.Sel{K: "field", Alias: alias, Name: name} }
	bodies := func() [][]*model.Sel {
		return [][]*model.Sel{
			{f("", "name")}, {f("name", "nick")}, {f("name", "age")}, {f("", "nick")},
			{{K: "spread", Name: "X"}}, {{K: "spread", Name: "Y"}},
		}
	}
	types := []string{"Dog", "Cat"}
	frags := func() []*model.Def {
		return []*model.Def{
			{Kind: "fragment", Name: "X", TypeCond: "Human", Sel: []*model.Sel{f("name", "nick")}},
			{Kind: "fragment", Name: "Y", TypeCond: "Human", Sel: []*model.Sel{f("", "name"), {K: "spread", Name: "X"}}},
		}
	}
	sh, shards := shard()
	nb := len(bodies())
	total := 8 * nb * nb * nb
	for idx := sh; idx < total; idx += shards {
		x := idx
		var branches []*model.Sel
		usedX, usedY := false, false
		for k := 0; k < 3; k++ {
			ty := types[x%2]
			x /= 2
			body := bodies()[x%nb]
			x /= nb
			if body[0].K == "spread" {
				usedX = usedX || body[0].Name == "X" || body[0].Name == "Y"
				usedY = usedY || body[0].Name == "Y"
			}
			branches = append(branches, &model.Sel{K: "inline", TypeCond: ty, Sel: []*model.Sel{{K: "field", Name: "owner", Sel: body}}})
		}
		d := &model.Doc{Defs: []*model.Def{{Kind: "query", Shorthand: true, Sel: []*model.Sel{{K: "field", Name: "pet", Sel: branches}}}}}
		fr := frags()
		if usedX {
			d.Defs = append(d.Defs, fr[0])
		}
		if usedY {
			d.Defs = append(d.Defs, fr[1])
		}
		c := &ValCase{Schema: s, Doc: d}
		msg, violated := c02Oracle(c, b)
		for _, r := range violated {
			stats.R.Class("exclusive_enum_violates_" + r)
		}
		stats.R.Case(c.Text, true, func() interface{} { return c.Text })
		if msg != "" {
			violation(t, "C02", "exclusive", c, "%s", msg)
		}
	}
	stats.R.SetExhaustive("three inline fragments on {Dog,Cat} x owner sub-selections from 6 bodies (plain, aliased, fragment, fragment chain)", true)
}
