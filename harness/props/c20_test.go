package props

import (
	"context"
	"fmt"
	"reflect"
	"sort"
	"strconv"
	"strings"
	"testing"

	"github.com/graphql-go/graphql"
	"github.com/graphql-go/graphql/language/ast"
	"pgregory.net/rapid"

	"verif/build"
	"verif/gen"
	"verif/model"
	"verif/ref"
	"verif/stats"
)

// C20 — resolvers are invoked once per selected field with accurate parameters.

// ReuseCase: one document planned once and executed several times with different variables,
// worlds (resolver behaviours), roots and context markers.
type ReuseCase struct {
	Base   ExecCase   `json:"base"`
	Runs   []ReuseRun `json:"runs"`
	Mutate bool       `json:"mutate"`
}

type ReuseRun struct {
	Vars  map[string]*model.Val `json:"vars"`
	World *ref.World            `json:"world"`
}

// compareCalls checks the callback log of one execution against the reference's expectation.
func compareCalls(c *ExecCase, pr *model.Printed, b *build.Built, want *ref.Result, lr libRun, entry string) string {
	if want.ReqError != "" {
		for _, rec := range lr.Sess.Snapshot() {
			return fmt.Sprintf("request must fail before execution (%s) but %s %v was invoked", want.ReqError, rec.Kind, rec.Path)
		}
		return ""
	}
	calls := lr.Sess.Snapshot()
	// callbacks that were not handed the caller's context record themselves in the schema's
	// fallback session
	if b.Default != nil {
		for _, rec := range b.Default.Snapshot() {
			return fmt.Sprintf("%s of %s at %v: the caller's context did not reach the callback (it was handed %s)", rec.Kind, rec.DefType, rec.Path, "a context without the request's values, or none")
		}
	}
	got := map[string][]build.CallRec{}
	for _, rec := range calls {
		if !rec.CtxSession {
			return fmt.Sprintf("%s at %v: the caller's context did not reach the callback", rec.Kind, rec.Path)
		}
		if rec.Kind == "resolve" {
			k := ref.PathKey(rec.Path)
			got[k] = append(got[k], rec)
		}
	}
	wantByPath := map[string]ref.Call{}
	for _, w := range want.Calls {
		wantByPath[ref.PathKey(w.Path)] = w
	}
	var keys []string
	for k := range got {
		keys = append(keys, k)
	}
	sort.Strings(keys)
	for _, k := range keys {
		if len(got[k]) > 1 {
			return fmt.Sprintf("field at %s resolved %d times", k, len(got[k]))
		}
		if _, ok := wantByPath[k]; !ok {
			return fmt.Sprintf("resolver invoked at %s, which the execution algorithm never reaches", k)
		}
	}
	op := c.Doc.Operation(c.OpName)
	fragNames := map[string]bool{}
	for _, f := range c.Doc.Fragments() {
		fragNames[f.Name] = true
	}
	for _, w := range want.Calls {
		k := ref.PathKey(w.Path)
		recs := got[k]
		if len(recs) == 0 {
			return fmt.Sprintf("selected field at %s (%s.%s) was never resolved", k, w.ParentType, w.Field)
		}
		rec := recs[0]
		where := fmt.Sprintf("%s.%s at %s", w.ParentType, w.Field, k)
		// source
		switch w.SourceID {
		case "":
			if !sameRef(rec.Source, lr.Root) {
				return fmt.Sprintf("%s: Source is %v, want the request's root value", where, rec.Source)
			}
		case "?":
		default:
			t, ok := rec.Source.(*ref.Tok)
			if !ok || t == nil || t.ID != w.SourceID {
				return fmt.Sprintf("%s: Source is %v, want the value resolved at %s", where, rec.Source, w.SourceID)
			}
			if t.Type != w.ParentType {
				return fmt.Sprintf("%s: Source %v is not of the runtime type %s", where, t, w.ParentType)
			}
		}
		if a, b := model.Canon(rec.Args), model.Canon(w.Args); a != b {
			return fmt.Sprintf("%s: Args = %s, want %s", where, a, b)
		}
		in := rec.Info
		if in.FieldName != w.Field {
			return fmt.Sprintf("%s: Info.FieldName = %q", where, in.FieldName)
		}
		if in.ReturnType == nil || in.ReturnType.String() != w.ReturnType {
			return fmt.Sprintf("%s: Info.ReturnType = %v, want %s", where, in.ReturnType, w.ReturnType)
		}
		if in.ParentType == nil || in.ParentType.Name() != w.ParentType {
			return fmt.Sprintf("%s: Info.ParentType = %v, want runtime type %s", where, in.ParentType, w.ParentType)
		}
		if pk := ref.PathKey(in.Path.AsArray()); pk != k {
			return fmt.Sprintf("%s: Info.Path = %s", where, pk)
		}
		// occurrences: every included one among them, all of them occurrences of this key
		inc := map[int]bool{}
		for _, o := range w.Occ {
			inc[pr.Pos[o]] = true
		}
		key := w.Path[len(w.Path)-1]
		if len(in.FieldASTs) == 0 {
			return fmt.Sprintf("%s: Info.FieldASTs is empty", where)
		}
		for _, fa := range in.FieldASTs {
			if fa == nil || fa.Name == nil {
				return fmt.Sprintf("%s: nil entry in Info.FieldASTs", where)
			}
			rk := fa.Name.Value
			if fa.Alias != nil && fa.Alias.Value != "" {
				rk = fa.Alias.Value
			}
			if rk != key || fa.Name.Value != w.Field {
				return fmt.Sprintf("%s: Info.FieldASTs contains %s (key %s)", where, fa.Name.Value, rk)
			}
			if fa.Loc != nil {
				delete(inc, fa.Loc.Start)
			}
		}
		if len(inc) > 0 {
			return fmt.Sprintf("%s: Info.FieldASTs misses %d included occurrence(s) (%d given)", where, len(inc), len(in.FieldASTs))
		}
		// operation, fragments, variables, root, schema
		od, ok := in.Operation.(*ast.OperationDefinition)
		if !ok || od == nil {
			return fmt.Sprintf("%s: Info.Operation is %T", where, in.Operation)
		}
		if od.Loc != nil && od.Loc.Start != pr.Pos[op] {
			return fmt.Sprintf("%s: Info.Operation starts at %d, the selected operation at %d", where, od.Loc.Start, pr.Pos[op])
		}
		if len(in.Fragments) != len(fragNames) {
			return fmt.Sprintf("%s: Info.Fragments has %d entries, document has %d fragments", where, len(in.Fragments), len(fragNames))
		}
		for n := range in.Fragments {
			if !fragNames[n] {
				return fmt.Sprintf("%s: Info.Fragments has unknown %q", where, n)
			}
		}
		if a, b := model.Canon(dropNil(in.VariableValues)), model.Canon(want.Vars); a != b {
			return fmt.Sprintf("%s: Info.VariableValues = %s, want %s", where, a, b)
		}
		if !sameRef(in.RootValue, lr.Root) {
			return fmt.Sprintf("%s: Info.RootValue = %v, want the request's root", where, in.RootValue)
		}
		if in.Schema.QueryType() != b.Schema.QueryType() {
			return fmt.Sprintf("%s: Info.Schema is not the schema of the request", where)
		}
	}
	// type decisions: Info is the field's (Path = the field's path, without list indices); the
	// value is the element being completed.
	fieldKey := func(path []interface{}) string {
		for len(path) > 0 {
			if _, isIdx := path[len(path)-1].(int); !isIdx {
				break
			}
			path = path[:len(path)-1]
		}
		return ref.PathKey(path)
	}
	wantRT := map[string]int{}
	wantAbs := map[string]string{}
	for _, tc := range want.TypeCalls {
		if tc.ViaResolveType {
			wantRT[fieldKey(tc.Path)]++
			wantAbs[fieldKey(tc.Path)] = tc.Abstract
		}
	}
	gotRT := map[string]int{}
	for _, rec := range calls {
		if rec.Kind != "resolveType" && rec.Kind != "isTypeOf" {
			continue
		}
		k := ref.PathKey(rec.Path)
		if t, ok := rec.Value.(*ref.Tok); ok && t != nil {
			if fieldKey(pathFromKey(t.ID)) != k {
				return fmt.Sprintf("%s with Info.Path %s was given the value %v", rec.Kind, k, t)
			}
		}
		if _, ok := wantByPath[k]; !ok {
			return fmt.Sprintf("%s invoked with Info.Path %s, which is not an executed field", rec.Kind, k)
		}
		if rec.Info.FieldName != wantByPath[k].Field {
			return fmt.Sprintf("%s at %s: Info.FieldName = %q", rec.Kind, k, rec.Info.FieldName)
		}
		if rec.Kind == "resolveType" {
			gotRT[k]++
			if wantAbs[k] != rec.DefType {
				return fmt.Sprintf("resolveType of %s invoked at %s, where no value of that type is completed", rec.DefType, k)
			}
		}
	}
	for k, n := range wantRT {
		if gotRT[k] != n {
			return fmt.Sprintf("resolveType of %s under field %s invoked %d times for %d values", wantAbs[k], k, gotRT[k], n)
		}
	}
	return ""
}

// pathFromKey parses "a/0/b" back into a path (digits-only segments are indices; response keys
// never start with a digit).
func pathFromKey(k string) []interface{} {
	var out []interface{}
	if k == "" {
		return out
	}
	for _, seg := range strings.Split(k, "/") {
		if n, err := strconv.Atoi(seg); err == nil {
			out = append(out, n)
		} else {
			out = append(out, seg)
		}
	}
	return out
}

func dropNil(m map[string]interface{}) map[string]interface{} {
	out := map[string]interface{}{}
	for k, v := range m {
		if v != nil {
			out[k] = v
		}
	}
	return out
}

func sameRef(a, b interface{}) bool {
	if a == nil || b == nil {
		return a == nil && b == nil
	}
	va, vb := reflect.ValueOf(a), reflect.ValueOf(b)
	if va.Kind() != vb.Kind() {
		return false
	}
	switch va.Kind() {
	case reflect.Map, reflect.Ptr, reflect.Slice:
		return va.Pointer() == vb.Pointer()
	}
	return reflect.DeepEqual(a, b)
}

func c20Oracle(rc *ReuseCase) (string, []*ref.Result) {
	c := &rc.Base
	c.fix()
	pr := model.Print(c.Doc, c.Layout)
	c.Text = pr.Text
	b, err := build.New(c.Schema, c.World, build.Options{})
	if err != nil {
		return "HARNESS: generated schema rejected by NewSchema: " + err.Error(), nil
	}
	var wants []*ref.Result
	// single executions through every entry path
	want := ref.Execute(c.Schema, c.Doc, c.OpName, c.Vars, c.World)
	wants = append(wants, want)
	var plan *graphql.Plan
	for _, entry := range []string{"do", "execute", "plan"} {
		lr, err := runEntry(b, c, pr.Text, entry, &plan)
		if err != nil {
			return fmt.Sprintf("HARNESS(%s): %v\n%s", entry, err, pr.Text), wants
		}
		if m := compareCalls(c, pr, b, want, lr, entry); m != "" {
			return fmt.Sprintf("entry %s: %s\n  document: %s\n  variables: %s", entry, m, pr.Text, canonJSON(c.goVars())), wants
		}
	}
	// reuse history on the same plan
	if plan == nil {
		return "", wants
	}
	for i, run := range rc.Runs {
		run.World.S = c.Schema
		rcase := *c
		rcase.Vars, rcase.World = run.Vars, run.World
		want := ref.Execute(c.Schema, c.Doc, c.OpName, run.Vars, run.World)
		wants = append(wants, want)
		sess := &build.Session{W: run.World, Marker: fmt.Sprintf("reuse%d", i), Mutate: rc.Mutate}
		root := &ref.Tok{Type: "root", ID: ""}
		res := graphql.ExecutePlan(plan, graphql.ExecuteParams{Schema: b.Schema, Root: root, OperationName: c.OpName,
			Args: rcase.goVars(), Context: build.WithSession(context.Background(), sess)})
		lr := libRun{Res: res, Sess: sess, Root: root}
		if m := compareCalls(&rcase, pr, b, want, lr, "reuse"); m != "" {
			return fmt.Sprintf("reuse #%d of one plan: %s\n  document: %s\n  variables: %s", i, m, pr.Text, canonJSON(rcase.goVars())), wants
		}
		if d := compareExec(want, res); d != "" {
			return fmt.Sprintf("reuse #%d of one plan: %s\n  document: %s\n  variables: %s", i, d, pr.Text, canonJSON(rcase.goVars())), wants
		}
	}
	return "", wants
}

func TestC20(t *testing.T) {
	var rc ReuseCase
	if loadReplay(t, "C20", &rc) {
		if msg, _ := c20Oracle(&rc); msg != "" {
			t.Fatalf("VERIF-FAIL property=C20 sub=calls replay=%s :: %s", replayFile(), msg)
		}
		return
	}
	rapid.Check(t, func(rt *rapid.T) {
		c, st := genExecCase(rt, gen.SchemaOpts{Mutation: true}, gen.DocOpts{}, gen.WorldOpts{})
		rc := &ReuseCase{Base: *c, Mutate: gen.Chance(rt, 50, "mutateArgs")}
		for i, n := 0, gen.Intn(rt, 0, 3, "nReuse"); i < n; i++ {
			vars := gen.Variables(rt, c.Schema, c.Doc)
			w, _ := gen.World(rt, c.Schema, c.Doc, c.OpName, vars, gen.WorldOpts{})
			rc.Runs = append(rc.Runs, ReuseRun{Vars: vars, World: w})
		}
		msg, wants := c20Oracle(rc)
		nt := false
		var cls []string
		if len(wants) > 0 && wants[0] != nil {
			depth2, abstract2 := false, false
			for _, call := range wants[0].Calls {
				idx := 0
				for _, p := range call.Path {
					if _, ok := p.(int); ok {
						idx++
					}
				}
				if idx >= 2 {
					depth2 = true
				}
			}
			for _, m := range wants[0].AbstractTypes {
				if len(m) >= 2 {
					abstract2 = true
				}
			}
			if depth2 {
				cls = append(cls, "list_depth_2")
			}
			if abstract2 {
				cls = append(cls, "abstract_two_types")
			}
			if len(rc.Runs) >= 1 {
				cls = append(cls, "plan_reused")
			}
			if st.DupKeys > 0 {
				cls = append(cls, "merged_occurrences")
			}
			nt = depth2 || abstract2 || len(rc.Runs) >= 1
			stats.R.ClassN("resolver_calls_checked", int64(len(wants[0].Calls)))
		}
		for _, k := range cls {
			stats.R.Class(k)
		}
		stats.R.Case(caseKey(rc), nt, func() interface{} {
			return map[string]interface{}{"document": rc.Base.Text, "variables": rc.Base.goVars(), "reuse_runs": len(rc.Runs), "classes": cls}
		})
		if msg != "" {
			violation(rt, "C20", "calls", rc, "%s", msg)
		}
	})
}
