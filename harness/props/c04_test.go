package props

import (
	"encoding/json"
	"fmt"
	"strings"
	"testing"

	"github.com/graphql-go/graphql"
	"pgregory.net/rapid"

	"verif/build"
	"verif/gen"
	"verif/model"
	"verif/ref"
	"verif/stats"
)

// C04 — responses are well-formed for schema and query whatever resolvers return.

func init() {
	registerKnown(&knownFinding{ID: "KF-C04-thunk-nonnull", Prop: "C04",
		What:  "a deferred result (thunk) that fails or yields null in a non-null position nulls all of data and loses earlier errors",
		Repro: reproThunkNonNull})
	registerKnown(&knownFinding{ID: "KF-C04-inf", Prop: "C04",
		What:  "a Float resolver returning +Inf makes the result unserialisable",
		Repro: reproInf})
}

// reproThunkNonNull: { a  o { t } } with a failing, t: String! a thunk that fails.
// Prescribed: data {a:null, o:null}, errors for a and for o.t.
func reproThunkNonNull() bool {
	s := &model.Schema{Query: "Q", Types: []*model.TypeDef{
		{Kind: model.KObject, Name: "O", Fields: []*model.FieldDef{{Name: "t", Type: model.T("String!")}}},
		{Kind: model.KObject, Name: "Q", Fields: []*model.FieldDef{{Name: "a", Type: model.T("String")}, {Name: "o", Type: model.T("O")}}},
	}}
	w := &ref.World{S: s, Outcomes: map[string]ref.Outcome{"a": {Kind: "err"}, "o/t": {Kind: "thunk_err"}}}
	b, err := build.New(s, w, build.Options{})
	if err != nil {
		return false
	}
	res := graphql.Do(graphql.Params{Schema: b.Schema, RequestString: `{ a o { t } }`})
	return !(canonJSON(res.Data) == `{"a":null,"o":null}` && len(res.Errors) == 2)
}

func reproInf() bool {
	s := &model.Schema{Query: "Q", Types: []*model.TypeDef{
		{Kind: model.KObject, Name: "Q", Fields: []*model.FieldDef{{Name: "f", Type: model.T("Float")}}},
	}}
	w := &ref.World{S: s, Outcomes: map[string]ref.Outcome{"f": {Kind: "inf"}}}
	b, err := build.New(s, w, build.Options{})
	if err != nil {
		return false
	}
	res := graphql.Do(graphql.Params{Schema: b.Schema, RequestString: `{ f }`})
	_, merr := json.Marshal(res)
	return merr != nil
}

// c04Oracle: no panic, result serialisable, response conforms to schema and query, and equals
// the reference response (catches raw values leaking, lost errors, over-propagation).
func c04Oracle(c *ExecCase) (msg string, want *ref.Result) {
	c.fix()
	text := model.Print(c.Doc, c.Layout).Text
	c.Text = text
	b, err := build.New(c.Schema, c.World, build.Options{})
	if err != nil {
		return "HARNESS: generated schema rejected by NewSchema: " + err.Error(), nil
	}
	want = ref.Execute(c.Schema, c.Doc, c.OpName, c.Vars, c.World)
	op := c.Doc.Operation(c.OpName)
	var cvars map[string]interface{}
	if op != nil {
		cvars, _ = ref.CoerceVariables(c.Schema, op.Vars, c.Vars)
	}
	var plan *graphql.Plan
	for _, entry := range []string{"do", "execute", "plan"} {
		var lr libRun
		var perr error
		func() {
			defer func() {
				if r := recover(); r != nil {
					msg = fmt.Sprintf("entry %s: panic escaped: %v\n  document: %s", entry, r, text)
				}
			}()
			lr, perr = runEntry(b, c, text, entry, &plan)
		}()
		if msg != "" {
			return msg, want
		}
		if perr != nil {
			return fmt.Sprintf("HARNESS(%s): %v\n%s", entry, perr, text), want
		}
		raw, merr := json.Marshal(lr.Res)
		if merr != nil {
			return fmt.Sprintf("entry %s: result is not serialisable: %v\n  document: %s\n  outcomes: %v", entry, merr, text, c.World.Outcomes), want
		}
		var seen struct {
			Data   interface{} `json:"data"`
			Errors []struct {
				Message string        `json:"message"`
				Path    []interface{} `json:"path"`
			} `json:"errors"`
		}
		if err := json.Unmarshal(raw, &seen); err != nil {
			return fmt.Sprintf("entry %s: result JSON does not decode: %v", entry, err), want
		}
		if want.ReqError == "" {
			var paths [][]interface{}
			for _, e := range seen.Errors {
				if len(e.Path) == 0 && seen.Data != nil {
					return fmt.Sprintf("entry %s: error without a path next to data: %q\n  document: %s", entry, e.Message, text), want
				}
				paths = append(paths, e.Path)
			}
			if m := ref.Conform(c.Schema, c.Doc, c.OpName, cvars, seen.Data, paths); m != "" {
				return fmt.Sprintf("entry %s: response does not conform: %s\n  response: %s\n  document: %s\n  outcomes: %v", entry, m, raw, text, c.World.Outcomes), want
			}
		}
		if d := compareExec(want, lr.Res); d != "" {
			return fmt.Sprintf("entry %s: %s\n  document: %s\n  variables: %s\n  outcomes: %v", entry, d, text, canonJSON(c.goVars()), c.World.Outcomes), want
		}
	}
	return "", want
}

func TestC04(t *testing.T) {
	var rc ExecCase
	if loadReplay(t, "C04", &rc) {
		if msg, _ := c04Oracle(&rc); msg != "" {
			t.Fatalf("VERIF-FAIL property=C04 sub=wellformed replay=%s :: %s", replayFile(), msg)
		}
		return
	}
	regressCases(t, "C04", func() interface{} { return &ExecCase{} }, func(name string, c interface{}) {
		if msg, _ := c04Oracle(c.(*ExecCase)); msg != "" {
			violation(t, "C04", "regress", c, "regression case %s: %s", name, msg)
		}
		stats.R.Class("regression_case")
	})
	kfInf := known("KF-C04-inf")
	kfThunk := known("KF-C04-thunk-nonnull")
	_ = kfThunk // deferred failures in non-null positions are never generated (DESIGN §3.4: ambiguous order)
	rapid.Check(t, func(rt *rapid.T) {
		c, _ := genExecCase(rt, gen.SchemaOpts{Mutation: true}, gen.DocOpts{Budget: 25},
			gen.WorldOpts{Adversarial: 50, Hostile: true, AllowInf: !kfInf})
		if kfInf {
			stats.R.Exclude("KF-C04-inf(+Inf never returned by Float resolvers)")
		}
		msg, want := c04Oracle(c)
		kinds := map[string]bool{}
		deep := false
		for k, o := range c.World.Outcomes {
			kinds[o.Kind] = true
			if strings.Contains(k, "/") {
				deep = true
			}
		}
		nt := false
		if want != nil {
			nt = len(c.World.Outcomes) > 0 && deep && (len(want.Errors) > 0 || want.Thunks > 0)
			if want.MaxPropagation >= 1 {
				stats.R.Class("null_propagated")
			}
			if want.Data == nil && want.ReqError == "" {
				stats.R.Class("data_null")
			}
		}
		for k := range kinds {
			stats.R.Class("outcome_" + k)
		}
		stats.R.Class("regime_" + c.Regime)
		stats.R.Case(caseKey(c), nt, func() interface{} {
			return map[string]interface{}{"document": c.Text, "outcomes": c.World.Outcomes, "variables": c.goVars()}
		})
		if msg != "" {
			violation(rt, "C04", "wellformed", c, "%s", msg)
		}
	})
}
