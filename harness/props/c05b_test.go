package props

import (
	"fmt"
	"testing"

	"github.com/graphql-go/graphql"
	"pgregory.net/rapid"

	"verif/gen"
	"verif/model"
	"verif/ref"
	"verif/stats"
)

// C05, input objects extended after construction: InputObject.AddFieldConfig adds a field to a type that a schema already
// uses (and that requests may already have been validated against). From then on the field is part of the type: variable
// values are checked and coerced with it like with any other field (DESIGN 13.1g).

type LateFieldCase struct {
	LateType model.TypeRef `json:"lateType"`
	LateDef  *model.Val    `json:"lateDefault,omitempty"`
	WarmUp   bool          `json:"warmUp"`    // a request is served before the field is added
	Place    int           `json:"placement"` // 0: x: In   1: o: Outer (o.in)   2: o: Outer (o.l[...])
	Value    *model.Val    `json:"value,omitempty"`
	Bad      string        `json:"bad,omitempty"`
}

func lateModel(c *LateFieldCase, withLate bool) *model.Schema {
	t := model.T
	in := &model.TypeDef{Kind: model.KInput, Name: "In", InputFields: []*model.ArgDef{{Name: "a", Type: t("Int")}}}
	if withLate {
		in.InputFields = append(in.InputFields, &model.ArgDef{Name: "late", Type: c.LateType, Default: c.LateDef})
	}
	return &model.Schema{Query: "Q", Types: []*model.TypeDef{
		{Kind: model.KEnum, Name: "E", Values: []*model.EnumVal{{Name: "A", Internal: model.Int(1)}, {Name: "B", Internal: model.Int(2)}}},
		in,
		{Kind: model.KInput, Name: "Outer", InputFields: []*model.ArgDef{{Name: "in", Type: t("In")}, {Name: "l", Type: t("[In]")}}},
		{Kind: model.KObject, Name: "Q", Fields: []*model.FieldDef{{Name: "probe", Type: t("String"), Args: []*model.ArgDef{{Name: "x", Type: t("In")}, {Name: "o", Type: t("Outer")}}},
			{Name: "i", Type: t("Int")}, {Name: "f", Type: t("Float")}, {Name: "s", Type: t("String")}, {Name: "b", Type: t("Boolean")}, {Name: "d", Type: t("ID")}}},
	}}
}

func c05LateOracle(c *LateFieldCase) (msg string, valid bool) {
	full := lateModel(c, true)
	// library types by hand: plain field maps (AddFieldConfig does not work on thunks)
	e := graphql.NewEnum(graphql.EnumConfig{Name: "E", Values: graphql.EnumValueConfigMap{"A": {Value: 1}, "B": {Value: 2}}})
	in := graphql.NewInputObject(graphql.InputObjectConfig{Name: "In", Fields: graphql.InputObjectConfigFieldMap{"a": {Type: graphql.Int}}})
	outer := graphql.NewInputObject(graphql.InputObjectConfig{Name: "Outer", Fields: graphql.InputObjectConfigFieldMap{"in": {Type: in}, "l": {Type: graphql.NewList(in)}}})
	var calls []map[string]interface{}
	leaf := func(ty graphql.Output) *graphql.Field {
		return &graphql.Field{Type: ty, Resolve: func(p graphql.ResolveParams) (interface{}, error) { return nil, nil }}
	}
	q := graphql.NewObject(graphql.ObjectConfig{Name: "Q", Fields: graphql.Fields{
		"probe": &graphql.Field{Type: graphql.String, Args: graphql.FieldConfigArgument{"x": {Type: in}, "o": {Type: outer}},
			Resolve: func(p graphql.ResolveParams) (interface{}, error) {
				calls = append(calls, p.Args)
				return "ok", nil
			}},
		"i": leaf(graphql.Int), "f": leaf(graphql.Float), "s": leaf(graphql.String), "b": leaf(graphql.Boolean), "d": leaf(graphql.ID)}})
	schema, err := graphql.NewSchema(graphql.SchemaConfig{Query: q, Types: []graphql.Type{e}})
	if err != nil {
		return "HARNESS: " + err.Error(), false
	}
	argName, argType := "x", model.T("In")
	if c.Place > 0 {
		argName, argType = "o", model.T("Outer")
	}
	text := fmt.Sprintf("query($v: %s) { probe(%s: $v) }", argType, argName)
	if c.WarmUp {
		graphql.Do(graphql.Params{Schema: schema, RequestString: text, VariableValues: map[string]interface{}{"v": map[string]interface{}{}}})
		calls = nil
	}
	var lateType graphql.Input
	switch c.LateType.Name {
	case "Int":
		lateType = graphql.Int
	case "Float":
		lateType = graphql.Float
	case "String":
		lateType = graphql.String
	default:
		lateType = e
	}
	for i := len(c.LateType.Wrap) - 1; i >= 0; i-- {
		if c.LateType.Wrap[i] == '!' {
			lateType = graphql.NewNonNull(lateType)
		} else {
			lateType = graphql.NewList(lateType)
		}
	}
	in.AddFieldConfig("late", &graphql.InputObjectFieldConfig{Type: lateType, DefaultValue: ref.DefaultGo(full, c.LateType, c.LateDef)})
	if err := in.Error(); err != nil {
		return "HARNESS: AddFieldConfig: " + err.Error(), false
	}
	// the value under test sits at the drawn place
	val := c.Value
	switch c.Place {
	case 1:
		val = model.Obj(model.F("in", c.Value))
	case 2:
		val = model.Obj(model.F("l", model.List(model.Obj(model.F("a", model.Int(1))), c.Value)))
	}
	if c.LateType.NonNull() && c.Place == 2 {
		// the plain first element lacks the required field too: give it one
		val.O[0].V.L[0].O = append(val.O[0].V.L[0].O, model.F("late", goodLate(c.LateType)))
	}
	inputs := map[string]*model.Val{"v": val}
	valid = ref.ValidVarValue(full, argType, val)
	res := graphql.Do(graphql.Params{Schema: schema, RequestString: text, VariableValues: map[string]interface{}{"v": val.ToGo()}})
	where := fmt.Sprintf("field `late: %s` added to In after the schema was built (request served before: %v); %s with v = %s", c.LateType, c.WarmUp, text, model.ValString(val))
	if !valid {
		if res.Data != nil || len(res.Errors) == 0 {
			return fmt.Sprintf("the variable value does not coerce (%s) but the request was answered: data=%s errors=%d\n  %s", c.Bad, canonJSON(res.Data), len(res.Errors), where), valid
		}
		if len(calls) > 0 {
			return fmt.Sprintf("the variable value does not coerce (%s) but the resolver ran with %s\n  %s", c.Bad, model.Canon(calls[0]), where), valid
		}
		return "", valid
	}
	vd := []*model.VarDef{{Name: "v", Type: argType}}
	cvars, verr := ref.CoerceVariables(full, vd, inputs)
	if verr != nil {
		return "HARNESS: reference rejects a value it called valid", valid
	}
	want := ref.ArgValues(full, full.Type("Q").Field("probe").Args, []*model.Arg{{Name: argName, Val: model.Var("v")}}, cvars)
	if len(res.Errors) > 0 {
		return fmt.Sprintf("request failed: %s\n  %s", res.Errors[0].Message, where), valid
	}
	if len(calls) != 1 {
		return fmt.Sprintf("the resolver ran %d times\n  %s", len(calls), where), valid
	}
	if a, b := model.Canon(calls[0]), model.Canon(want); a != b {
		return fmt.Sprintf("resolver received Args %s, input coercion yields %s\n  %s", a, b, where), valid
	}
	return "", valid
}

func goodLate(t model.TypeRef) *model.Val {
	var v *model.Val
	switch t.Name {
	case "Int":
		v = model.Int(3)
	case "Float":
		v = model.Float(1.5)
	case "String":
		v = model.Str("s")
	default:
		v = model.Str("A")
	}
	for _, w := range t.Wrap {
		if w == '[' {
			v = model.List(v)
		}
	}
	return v
}

func TestC05_LateField(t *testing.T) {
	var rc LateFieldCase
	if loadReplay(t, "C05", &rc, "latefield") {
		if msg, _ := c05LateOracle(&rc); msg != "" {
			t.Fatalf("VERIF-FAIL property=C05 sub=latefield replay=%s :: %s", replayFile(), msg)
		}
		return
	}
	types := []model.TypeRef{model.T("Int"), model.T("Int!"), model.T("Float"), model.T("Float!"), model.T("E"), model.T("E!"), model.T("[Int]"), model.T("[Int!]!"), model.T("String!")}
	rapid.Check(t, func(rt *rapid.T) {
		c := &LateFieldCase{LateType: types[gen.Uniform(rt, len(types), "lateType")], WarmUp: gen.Chance(rt, 50, "warmUp"), Place: gen.Uniform(rt, 3, "place")}
		full := lateModel(c, true)
		if !c.LateType.NonNull() && gen.Chance(rt, 30, "lateDefault") {
			c.LateDef = gen.RuntimeValue(rt, full, c.LateType, 2, true)
			full = lateModel(c, true)
		}
		c.Value = gen.RuntimeValue(rt, full, model.T("In"), 3, false)
		if c.Value == nil || c.Value.K != "obj" {
			c.Value = model.Obj()
		}
		// make sure the added field is there in half of the cases (RuntimeValue leaves optional fields out at will)
		has := false
		for _, f := range c.Value.O {
			has = has || f.N == "late"
		}
		if !has && (c.LateType.NonNull() || gen.Chance(rt, 50, "withLate")) {
			c.Value.O = append(c.Value.O, model.F("late", goodLate(c.LateType)))
		}
		if gen.Chance(rt, 60, "corrupt") {
			if bad, kind := gen.Corrupt(rt, full, model.T("In"), c.Value); bad != nil && bad.K == "obj" {
				c.Value, c.Bad = bad, kind
			}
		}
		msg, valid := c05LateOracle(c)
		if valid {
			stats.R.Class("latefield_conformant")
		} else {
			stats.R.Class("latefield_invalid:" + c.Bad)
		}
		stats.R.Case(caseKey(c), true, func() interface{} { return c })
		if msg != "" {
			violation(rt, "C05", "latefield", c, "%s", msg)
		}
	})
}
