package props

import (
	"context"
	"errors"
	"fmt"
	"runtime"
	"strings"
	"sync"
	"testing"
	"time"

	"github.com/graphql-go/graphql"
	"pgregory.net/rapid"

	"verif/build"
	"verif/gen"
	"verif/model"
	"verif/ref"
	"verif/stats"
)

// C16 — cancellation and deadlines yield either the full response or the context error.
// Expiry is a logical event: the harness owns the context and opens resolver gates one at a
// time, so "the k-th resolver is blocked" is a fact, not a sleep.

type CancelCase struct {
	Query      string `json:"query"`                // index into c16Queries, as text
	N          int    `json:"n"`                    // gated resolver invocations in the query
	CancelAt   int    `json:"cancelAt"`             // -1 before the call; 0..N-1 while that resolver is blocked; N after the last returned; N+1 never; N+2 racing the last gate
	Kind       string `json:"kind"`                 // cancel | deadline
	Entry      string `json:"entry"`                // do | plan
	Observe    []int  `json:"observe,omitempty"`    // gated resolvers that watch the context and fail when it ends
	StockCtx   bool   `json:"stockCtx,omitempty"`   // use context.WithCancel / WithDeadline instead of the harness context
	OwnTimeout []int  `json:"ownTimeout,omitempty"` // gated resolvers that, once released, fail with their own sub-context's deadline error (the request's context is not involved)
	Cause      bool   `json:"cause,omitempty"`      // with StockCtx: the cancellation / deadline carries a cause (WithCancelCause / WithDeadlineCause)
}

// manualCtx is a context whose Done channel the harness closes.
type manualCtx struct {
	context.Context
	done chan struct{}
	mu   sync.Mutex
	err  error
}

func (c *manualCtx) Done() <-chan struct{} { return c.done }
func (c *manualCtx) Err() error {
	c.mu.Lock()
	defer c.mu.Unlock()
	return c.err
}
func (c *manualCtx) Deadline() (time.Time, bool) { return time.Time{}, false }
func (c *manualCtx) end(err error) {
	c.mu.Lock()
	if c.err == nil {
		c.err = err
		close(c.done)
	}
	c.mu.Unlock()
}

func c16Model() *model.Schema {
	t := model.T
	f := func(n, ty string) *model.FieldDef { return &model.FieldDef{Name: n, Type: t(ty)} }
	return &model.Schema{Query: "Q", Mutation: "M", Types: []*model.TypeDef{
		{Kind: model.KObject, Name: "M", Fields: []*model.FieldDef{f("g0", "String"), f("g1", "String"), f("g2", "String"), f("o", "O"), f("free", "String")}},
		{Kind: model.KObject, Name: "O", Fields: []*model.FieldDef{f("g", "String"), f("h", "String"), f("o", "O")}},
		{Kind: model.KObject, Name: "Q", Fields: []*model.FieldDef{f("g0", "String"), f("g1", "String"), f("g2", "String"), f("g3", "String"), f("o", "O"), f("l", "[O]"), f("free", "String")}},
	}}
}

// queries with their gated resolver invocations in execution order (response paths)
var c16Queries = []struct {
	Text  string
	Gates []string
}{
	{`{ g0 }`, []string{"g0"}},
	{`{ g0 g1 g2 }`, []string{"g0", "g1", "g2"}},
	{`{ free g0 o { g h } g1 }`, []string{"g0", "o/g", "o/h", "g1"}},
	{`{ o { g o { g h } } g3 }`, []string{"o/g", "o/o/g", "o/o/h", "g3"}},
	{`{ l { g } g0 }`, []string{"l/0/g", "l/1/g", "g0"}},
	{`{ g0 g1 g2 g3 o { g h } }`, []string{"g0", "g1", "g2", "g3", "o/g", "o/h"}},
	// mutations: top-level fields run one after the other
	{`mutation { g0 }`, []string{"g0"}},
	{`mutation { g0 g1 g2 }`, []string{"g0", "g1", "g2"}},
	{`mutation { free g0 o { g h } g1 }`, []string{"g0", "o/g", "o/h", "g1"}},
}

func libGoroutines() int {
	buf := make([]byte, 1<<20)
	n := runtime.Stack(buf, true)
	cnt := 0
	for _, g := range strings.Split(string(buf[:n]), "\n\n") {
		if strings.Contains(g, "github.com/graphql-go/graphql.") && !strings.Contains(g, "verif/props.c16Oracle(") && !strings.Contains(g, "props.libGoroutines") {
			cnt++
		}
	}
	return cnt
}

func c16Oracle(c *CancelCase) (msg string) {
	var q *struct {
		Text  string
		Gates []string
	}
	for i := range c16Queries {
		if c16Queries[i].Text == c.Query {
			q = &c16Queries[i]
		}
	}
	if q == nil {
		return "HARNESS: unknown query"
	}
	n := len(q.Gates)
	m := c16Model()
	// a world in which every gated path exists (list lengths come from the salt)
	var w *ref.World
	qdoc := c16Doc(q.Text)
	for salt := 0; salt < 200 && w == nil; salt++ {
		cand := &ref.World{S: m, Salt: salt, MaxList: 2, Outcomes: map[string]ref.Outcome{}}
		have := map[string]bool{}
		for _, call := range ref.Execute(m, qdoc, "", nil, cand).Calls {
			have[ref.PathKey(call.Path)] = true
		}
		ok := true
		for _, g := range q.Gates {
			ok = ok && have[g]
		}
		if ok && len(have) == len(q.Gates)+strings.Count(q.Text, "free")+strings.Count(q.Text, " o ")+strings.Count(q.Text, "l {") {
			w = cand
		}
	}
	if w == nil {
		return "HARNESS: no world in which all gated paths exist"
	}
	b, err := build.New(m, w, build.Options{})
	if err != nil {
		return "HARNESS: " + err.Error()
	}
	baseline := libGoroutines()
	gateIdx := map[string]int{}
	for i, g := range q.Gates {
		gateIdx[g] = i
	}
	entered := make([]chan struct{}, n)
	gates := make([]chan struct{}, n)
	for i := range gates {
		entered[i] = make(chan struct{})
		gates[i] = make(chan struct{})
	}
	observe := map[int]bool{}
	for _, o := range c.Observe {
		observe[o] = true
	}
	ownTimeout := map[int]bool{}
	for _, o := range c.OwnTimeout {
		if !observe[o] && o < n {
			ownTimeout[o] = true
			w.Outcomes[q.Gates[o]] = ref.Outcome{Kind: "err_ctx"}
		}
	}
	var ctx context.Context
	var end func()
	wantErr := context.Canceled
	if c.Kind == "deadline" {
		wantErr = context.DeadlineExceeded
	}
	if c.StockCtx && c.Cause {
		// the context records why it ended; the request's error is still the context's error
		cause := errors.New("E:cause - client went away")
		if c.Kind == "deadline" && c.CancelAt == -1 {
			cc, cancel := context.WithDeadlineCause(context.Background(), time.Now().Add(-time.Second), cause)
			ctx, end = cc, cancel
		} else {
			cc, cancel := context.WithCancelCause(context.Background())
			ctx, end = cc, func() { cancel(cause) }
			wantErr = context.Canceled
		}
	} else if c.StockCtx {
		if c.Kind == "deadline" {
			if c.CancelAt == -1 {
				cc, cancel := context.WithDeadline(context.Background(), time.Now().Add(-time.Second))
				ctx, end = cc, cancel
			} else {
				// a stock deadline context cannot be expired on demand: cancel it instead
				cc, cancel := context.WithCancel(context.Background())
				ctx, end = cc, cancel
				wantErr = context.Canceled
			}
		} else {
			cc, cancel := context.WithCancel(context.Background())
			ctx, end = cc, cancel
		}
	} else {
		mc := &manualCtx{Context: context.Background(), done: make(chan struct{})}
		ctx, end = mc, func() { mc.end(wantErr) }
	}
	var failedMu sync.Mutex
	failed := map[string]bool{}
	sess := &build.Session{W: w}
	sess.Hook = func(kind, defType, field string, path []interface{}, p *graphql.ResolveParams) {
		if kind != "resolve" {
			return
		}
		k, ok := gateIdx[ref.PathKey(path)]
		if !ok {
			return
		}
		close(entered[k])
		if observe[k] {
			select {
			case <-gates[k]:
			case <-p.Context.Done():
				failedMu.Lock()
				failed[ref.PathKey(path)] = true
				failedMu.Unlock()
				panic(fmt.Errorf("E:%s observed %v", ref.PathKey(path), p.Context.Err()))
			}
			return
		}
		<-gates[k]
		if ownTimeout[k] {
			// the resolver then fails with its own sub-context's deadline error (World outcome
			// err_ctx below): an ordinary field error
			failedMu.Lock()
			failed[ref.PathKey(path)] = true
			failedMu.Unlock()
		}
	}
	rctx := build.WithSession(ctx, sess)
	if c.CancelAt == -1 {
		end()
	}
	resCh := make(chan *graphql.Result, 1)
	go func() {
		if c.Entry == "plan" {
			doc, _ := parseText(q.Text)
			plan, perr := graphql.PlanQuery(&b.Schema, doc, "")
			if perr != nil {
				resCh <- &graphql.Result{}
				return
			}
			resCh <- graphql.ExecutePlan(plan, graphql.ExecuteParams{Schema: b.Schema, Context: rctx})
			return
		}
		resCh <- graphql.Do(graphql.Params{Schema: b.Schema, RequestString: q.Text, Context: rctx})
	}()
	opened := 0
	openUpTo := func(k int) string { // open gates 0..k-1, waiting for each resolver to be entered first
		for ; opened < k; opened++ {
			select {
			case <-entered[opened]:
			case <-time.After(20 * time.Second):
				return fmt.Sprintf("resolver #%d (%s) was never entered although all earlier gates are open", opened, q.Gates[opened])
			}
			close(gates[opened])
		}
		return ""
	}
	defer func() {
		// let whatever still runs finish, then take the census
		for ; opened < n; opened++ {
			select {
			case <-gates[opened]:
			default:
				close(gates[opened])
			}
		}
		if msg != "" {
			return
		}
		deadline := time.Now().Add(10 * time.Second)
		for libGoroutines() > baseline {
			if time.Now().After(deadline) {
				msg = fmt.Sprintf("%d goroutine(s) of the library are still alive 10 s after the call returned and all resolvers were released", libGoroutines()-baseline)
				return
			}
			time.Sleep(2 * time.Millisecond)
		}
	}()
	var res *graphql.Result
	wait := func(what string) string {
		select {
		case res = <-resCh:
			return ""
		case <-time.After(20 * time.Second):
			return what
		}
	}
	isCtxError := func(r *graphql.Result) bool {
		return r.Data == nil && len(r.Errors) == 1 && r.Errors[0].Message == wantErr.Error()
	}
	isComplete := func(r *graphql.Result) string {
		if r.Data == nil {
			return fmt.Sprintf("no data and errors %v", r.Errors)
		}
		// every gated field must be present in data; failed (observing) resolvers are null with an error
		for _, g := range q.Gates {
			cur := r.Data
			for _, step := range strings.Split(g, "/") {
				switch x := cur.(type) {
				case map[string]interface{}:
					v, ok := x[step]
					if !ok {
						return fmt.Sprintf("data lacks %s: partially filled tree %s", g, canonJSON(r.Data))
					}
					cur = v
				case []interface{}:
					var i int
					fmt.Sscanf(step, "%d", &i)
					if i >= len(x) {
						return fmt.Sprintf("data lacks %s", g)
					}
					cur = x[i]
				default:
					return fmt.Sprintf("data lacks %s: %s", g, canonJSON(r.Data))
				}
			}
		}
		failedMu.Lock()
		nf := len(failed)
		failedMu.Unlock()
		if len(r.Errors) != nf {
			return fmt.Sprintf("%d resolver(s) failed but the response carries %d error(s): %v", nf, len(r.Errors), r.Errors)
		}
		return ""
	}
	switch {
	case c.CancelAt >= -1 && c.CancelAt < n:
		// cancelled before the call, or while resolver CancelAt is blocked
		if c.CancelAt >= 0 {
			if m := openUpTo(c.CancelAt); m != "" {
				return m
			}
			select {
			case <-entered[c.CancelAt]:
			case <-time.After(20 * time.Second):
				return fmt.Sprintf("resolver #%d was never entered", c.CancelAt)
			}
			end()
		}
		if m := wait(fmt.Sprintf("the call did not return within 20 s after the context ended while resolver #%d (%s) is still blocked: it waits for its resolvers", c.CancelAt, q.Gates[maxInt(c.CancelAt, 0)])); m != "" {
			return m
		}
		if (observe[c.CancelAt] && c.CancelAt >= 0) || (c.CancelAt == -1 && observe[0]) {
			// the blocked resolver noticed the cancellation itself: completion races the context. The same holds when
			// the context ended before the call and the first gated resolver watches it: it returns at once, the
			// execution may finish before the caller's wait on the context is reached, and then the complete response
			// (with that resolver's own error) is one of the two answers the property allows
			if !isCtxError(res) {
				if m := isComplete(res); m != "" {
					return "after cancellation the caller got neither the context error nor a complete response: " + m
				}
			}
			return ""
		}
		if !isCtxError(res) {
			return fmt.Sprintf("context ended (%v) while resolver #%d was blocked: want no data and exactly the context's error, got data=%s errors=%v", wantErr, c.CancelAt, canonJSON(res.Data), res.Errors)
		}
	case c.CancelAt == n || c.CancelAt == n+1:
		if m := openUpTo(n); m != "" {
			return m
		}
		if m := wait("the call did not return within 20 s although every resolver was released"); m != "" {
			return m
		}
		if c.CancelAt == n {
			end() // after completion: must not matter
		}
		if m := isComplete(res); m != "" {
			return "no cancellation before completion, but the response is not the complete normal response: " + m
		}
		if len(res.Errors) != 0 && len(ownTimeout) == 0 {
			return fmt.Sprintf("uncancelled execution returned errors: %v", res.Errors)
		}
	default: // racing the last gate
		if m := openUpTo(n - 1); m != "" {
			return m
		}
		select {
		case <-entered[n-1]:
		case <-time.After(20 * time.Second):
			return "last resolver never entered"
		}
		go end()
		close(gates[n-1])
		opened = n
		if m := wait("the call did not return within 20 s in the racing schedule"); m != "" {
			return m
		}
		if !isCtxError(res) {
			if m := isComplete(res); m != "" {
				return "cancellation racing completion gave neither the context error nor the complete response: " + m
			}
		}
	}
	return ""
}

func maxInt(a, b int) int {
	if a > b {
		return a
	}
	return b
}

func TestC16(t *testing.T) {
	var rc CancelCase
	if loadReplay(t, "C16", &rc, "cancel") {
		for i := 0; i < 10; i++ {
			if msg := c16Oracle(&rc); msg != "" {
				t.Fatalf("VERIF-FAIL property=C16 sub=cancel replay=%s :: %s", replayFile(), msg)
			}
		}
		return
	}
	rapid.Check(t, func(rt *rapid.T) {
		q := c16Queries[gen.Uniform(rt, len(c16Queries), "query")]
		n := len(q.Gates)
		c := &CancelCase{Query: q.Text, N: n, Kind: []string{"cancel", "deadline"}[gen.Uniform(rt, 2, "kind")], Entry: []string{"do", "plan"}[gen.Uniform(rt, 2, "entry")]}
		c.CancelAt = gen.Uniform(rt, n+4, "cancelAt") - 1
		c.StockCtx = gen.Chance(rt, 35, "stockCtx")
		c.Cause = c.StockCtx && gen.Chance(rt, 50, "cause")
		for i := 0; i < n; i++ {
			if gen.Chance(rt, 25, "observe") {
				c.Observe = append(c.Observe, i)
			} else if gen.Chance(rt, 20, "ownTimeout") {
				c.OwnTimeout = append(c.OwnTimeout, i)
			}
		}
		msg := c16Oracle(c)
		interior := (c.CancelAt > 0 && c.CancelAt < n) || c.CancelAt == n+2
		stats.R.Class(fmt.Sprintf("cancel_point_%s", map[bool]string{true: "interior_or_racing", false: "edge"}[interior]))
		stats.R.Class("kind_" + c.Kind)
		stats.R.Case(caseKey(c), interior, func() interface{} { return c })
		if msg != "" {
			violation(rt, "C16", "cancel", c, "%s\n  query: %s (gated resolvers %v)", msg, q.Text, q.Gates)
		}
	})
}

// c16Doc builds the model document of one of the fixed queries (fields only).
func c16Doc(text string) *model.Doc {
	kind := "query"
	if strings.HasPrefix(text, "mutation") {
		kind, text = "mutation", strings.TrimPrefix(text, "mutation")
	}
	toks := strings.Fields(strings.NewReplacer("{", " { ", "}", " } ").Replace(text))
	pos := 0
	var parse func() []*model.Sel
	parse = func() []*model.Sel {
		var out []*model.Sel
		pos++ // {
		for pos < len(toks) && toks[pos] != "}" {
			s := &model.Sel{K: "field", Name: toks[pos]}
			pos++
			if pos < len(toks) && toks[pos] == "{" {
				s.Sel = parse()
			}
			out = append(out, s)
		}
		pos++ // }
		return out
	}
	return &model.Doc{Defs: []*model.Def{{Kind: kind, Shorthand: kind == "query", Sel: parse()}}}
}
