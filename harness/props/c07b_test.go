package props

import (
	"encoding/json"
	"fmt"
	"sync"
	"testing"

	"github.com/graphql-go/graphql"

	"verif/stats"
)

// C07, a type extended between requests: Object.AddFieldConfig makes the type rebuild its field table lazily; with
// nothing in flight during the change, the first requests afterwards may arrive on several goroutines at once. The
// race detector is the oracle for the rebuild; every response must be the one the request gets when run alone.
func TestC07_AddField(t *testing.T) {
	if replayFile() != "" {
		t.Skip()
	}
	trials := 6
	if thorough() {
		trials = 40
	}
	fields := graphql.Fields{}
	for i := 0; i < 300; i++ {
		fields[fmt.Sprintf("f%d", i)] = &graphql.Field{Type: graphql.String, Resolve: func(p graphql.ResolveParams) (interface{}, error) { return "x", nil }}
	}
	iface := graphql.NewInterface(graphql.InterfaceConfig{Name: "I", Fields: graphql.Fields{"f0": &graphql.Field{Type: graphql.String}},
		ResolveType: func(p graphql.ResolveTypeParams) *graphql.Object { return nil }})
	q := graphql.NewObject(graphql.ObjectConfig{Name: "Q", Fields: fields, Interfaces: []*graphql.Interface{iface}})
	schema, err := graphql.NewSchema(graphql.SchemaConfig{Query: q})
	if err != nil {
		t.Fatalf("HARNESS: %v", err)
	}
	for trial := 0; trial < trials; trial++ {
		name := fmt.Sprintf("late%d", trial)
		// nothing is in flight while the types change
		q.AddFieldConfig(name, &graphql.Field{Type: graphql.String, Resolve: func(p graphql.ResolveParams) (interface{}, error) { return "late", nil }})
		iface.AddFieldConfig("g"+name, &graphql.Field{Type: graphql.String})
		q.AddFieldConfig("g"+name, &graphql.Field{Type: graphql.String, Resolve: func(p graphql.ResolveParams) (interface{}, error) { return "g", nil }})
		text := fmt.Sprintf("{ %s f0 ... on I { g%s } }", name, name)
		want := fmt.Sprintf(`{"data":{"f0":"x","g%s":"g","%s":"late"}}`, name, name)
		got := make([]string, 8)
		var wg sync.WaitGroup
		start := make(chan struct{})
		for g := range got {
			g := g
			wg.Add(1)
			go func() {
				defer wg.Done()
				<-start
				got[g] = respJSON(graphql.Do(graphql.Params{Schema: schema, RequestString: text}))
			}()
		}
		close(start)
		wg.Wait()
		stats.R.Class("first_requests_after_AddFieldConfig")
		stats.R.Case(fmt.Sprintf("addfield/%d", trial), true, func() interface{} { return text })
		for g, r := range got {
			if canonJSONText(r) != canonJSONText(want) {
				violation(t, "C07", "addfield", map[string]interface{}{"trial": trial, "text": text},
					"goroutine %d of 8 issuing the first requests after AddFieldConfig(%q): response %s, the same request run alone gives %s", g, name, r, want)
			}
		}
	}
}

// canonJSONText re-encodes a JSON text with sorted keys.
func canonJSONText(s string) string {
	var v interface{}
	if err := json.Unmarshal([]byte(s), &v); err != nil {
		return s
	}
	return canonJSON(v)
}
