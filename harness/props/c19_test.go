//go:build verif

package props

import (
	"fmt"
	"runtime"
	"strings"
	"testing"
	"time"

	"github.com/graphql-go/graphql"
	"pgregory.net/rapid"

	"verif/build"
	"verif/gen"
	"verif/model"
	"verif/ref"
	"verif/stats"
)

// C19 — planning and validation work is polynomial in document size.
// Work is measured by the step counters behind the `verif` build tag, never by a clock.

// c19Sub names the running sub-check for failures reported from inside the ladders.
var c19Sub = "ladder"

type ScaleCase struct {
	Family string       `json:"family"`
	N      int          `json:"n"`
	M      int          `json:"m,omitempty"` // implementers (family depth)
	Recipe *ScaleRecipe `json:"recipe,omitempty"`
	// Appended: that many of the implementers are left out of NewSchema and added with
	// Schema.AppendType afterwards (one call each)
	Appended int `json:"appended,omitempty"`
}

// scaleBuilt builds the scale schema with m implementers, the last `appended` of them appended
// after construction.
func scaleBuilt(m, appended int) (*build.Built, *ref.World, error) {
	s := scaleSchema(m)
	if appended > 0 {
		// the implementers to be appended must not be reachable before: they leave the union
		for _, td := range s.Types {
			if td.Name == "Any" {
				keep := len(td.Members) - appended
				if keep < 1 {
					keep = 1
				}
				td.Members = td.Members[:keep]
			}
		}
	}
	w := &ref.World{S: s, Salt: 5}
	var omit []string
	for i := 0; i < appended && i < m-1; i++ {
		omit = append(omit, fmt.Sprintf("T%d", m-1-i))
	}
	b, err := build.New(s, w, build.Options{Omit: omit})
	if err != nil {
		return nil, nil, err
	}
	for _, n := range omit {
		if err := b.Schema.AppendType(b.Types[n]); err != nil {
			return nil, nil, fmt.Errorf("AppendType(%s): %v", n, err)
		}
	}
	return b, w, nil
}

// c19RecipeLadder measures a recipe at sizes growing by 1.5 and compares consecutive sizes:
// a polynomial of degree <= 5 grows by at most 1.5^5 = 7.6 per step, 2^n by 2^(n/2).
func c19RecipeLadder(c *ScaleCase) (msg string, series []uint64) {
	s := scaleSchema(4)
	w := &ref.World{S: s, Salt: 5}
	b, err := build.New(s, w, build.Options{})
	if err != nil {
		return "HARNESS: " + err.Error(), nil
	}
	sizes := []int{8, 12, 18, 27}
	if c.Recipe.Edges != "later" {
		sizes = append(sizes, 40)
	}
	var prev, prevAlloc uint64
	for i, n := range sizes {
		sm, err := measure(b, w, recipeDoc(c.Recipe, n))
		if capped, ok := err.(errStepCap); ok {
			fatalViolation("C19", c19Sub, c, "recipe %+v: work at n=%d %s; the smaller sizes n=%v took %v steps\n  document at n=4: %s", *c.Recipe, n, capped.Error(), sizes[:i], series, recipeDoc(c.Recipe, 4))
		}
		if err != nil {
			return fmt.Sprintf("HARNESS: recipe %+v n=%d: %v", *c.Recipe, n, err), series
		}
		total := sm.validate + sm.plan + sm.exec
		series = append(series, total)
		if m := allocGrowth(&prevAlloc, sm.alloc, i > 0); m != "" {
			return fmt.Sprintf("recipe %+v between n=%d and n=%d: %s\n  document at n=4: %s", *c.Recipe, sizes[max(i-1, 0)], n, m, recipeDoc(c.Recipe, 4)), series
		}
		if sm.reexec > 0 {
			return fmt.Sprintf("recipe %+v at n=%d: executing the same plan a second time did %d planning steps: runtime types that were already encountered are planned again", *c.Recipe, n, sm.reexec), series
		}
		if i > 0 && total > 50000 && float64(total) > 12*float64(prev) {
			return fmt.Sprintf("recipe %+v: work grows from %d steps at n=%d to %d steps at n=%d (x%.1f for n x1.5; degree-5 growth gives x7.6)\n  series over n=%v: %v (validate %d, plan %d, execute %d at the last size)\n  document at n=4: %s",
				*c.Recipe, prev, sizes[i-1], total, n, float64(total)/float64(prev), sizes[:i+1], series, sm.validate, sm.plan, sm.exec, recipeDoc(c.Recipe, 4)), series
		}
		prev = total
	}
	return "", series
}

// scaleSchema: interface Node {next: Node, v: Int, list: [Node]} with m implementers, plus plain fields.
func scaleSchema(m int) *model.Schema {
	t := model.T
	s := &model.Schema{Query: "Q"}
	nodeFields := func() []*model.FieldDef {
		return []*model.FieldDef{{Name: "next", Type: t("Node")}, {Name: "any", Type: t("Any")}, {Name: "v", Type: t("Int")}, {Name: "w", Type: t("Int")}, {Name: "s", Type: t("String")}}
	}
	s.Types = append(s.Types, &model.TypeDef{Kind: model.KIface, Name: "Node", HasResolveType: true, Fields: nodeFields()})
	for i := 0; i < m; i++ {
		s.Types = append(s.Types, &model.TypeDef{Kind: model.KObject, Name: fmt.Sprintf("T%d", i), Interfaces: []string{"Node"}, Fields: nodeFields()})
	}
	any := &model.TypeDef{Kind: model.KUnion, Name: "Any", HasResolveType: true}
	for i := 0; i < m; i++ {
		any.Members = append(any.Members, fmt.Sprintf("T%d", i))
	}
	s.Types = append(s.Types, any)
	s.Types = append(s.Types, &model.TypeDef{Kind: model.KInput, Name: "In", InputFields: []*model.ArgDef{{Name: "a", Type: t("Int")}, {Name: "n", Type: t("In")}, {Name: "l", Type: t("[In]")}}})
	s.Types = append(s.Types, &model.TypeDef{Kind: model.KObject, Name: "Q", Fields: []*model.FieldDef{
		{Name: "node", Type: t("Node")}, {Name: "any", Type: t("Any")}, {Name: "q", Type: t("Q")}, {Name: "a", Type: t("Int")}, {Name: "b", Type: t("Int")},
		{Name: "f", Type: t("String"), Args: []*model.ArgDef{{Name: "x", Type: t("In")}, {Name: "y", Type: t("[Int]")}}}}})
	return s
}

func scaleDoc(family string, n, m int) string {
	var sb strings.Builder
	switch family {
	case "depth": // nesting through an abstract field
		sb.WriteString("{ node ")
		for i := 0; i < n; i++ {
			sb.WriteString("{ v next ")
		}
		sb.WriteString("{ v }")
		sb.WriteString(strings.Repeat(" }", n))
		sb.WriteString(" }")
	case "chain": // F1 -> F2 -> ... -> Fn
		sb.WriteString("{ ...F0 }")
		for i := 0; i < n; i++ {
			fmt.Fprintf(&sb, " fragment F%d on Q { a ", i)
			if i+1 < n {
				fmt.Fprintf(&sb, "...F%d ", i+1)
			}
			sb.WriteString("}")
		}
	case "fan": // one fragment spread at n sites
		sb.WriteString("{ ")
		for i := 0; i < n; i++ {
			sb.WriteString("...F ")
		}
		sb.WriteString("} fragment F on Q { a q { b } }")
	case "dag": // every fragment spreads all later ones
		sb.WriteString("{ ...F0 }")
		for i := 0; i < n; i++ {
			fmt.Fprintf(&sb, " fragment F%d on Q { a ", i)
			for j := i + 1; j < n; j++ {
				fmt.Fprintf(&sb, "...F%d ", j)
			}
			sb.WriteString("}")
		}
	case "nestdag": // fragments spreading each other through fields, two per level
		sb.WriteString("{ ...F0 }")
		for i := 0; i < n; i++ {
			fmt.Fprintf(&sb, " fragment F%d on Q { a ", i)
			if i+1 < n {
				fmt.Fprintf(&sb, "q { ...F%d } q { ...F%d } ", i+1, i+1)
			}
			sb.WriteString("}")
		}
	case "repeat": // n repetitions of one response key with sub-selections
		sb.WriteString("{ ")
		for i := 0; i < n; i++ {
			sb.WriteString("q { a q { b } } ")
		}
		sb.WriteString("}")
	case "litdeep": // input literal nested n deep
		sb.WriteString("{ f(x: ")
		for i := 0; i < n; i++ {
			sb.WriteString("{a: 1, n: ")
		}
		sb.WriteString("{a: 1}")
		sb.WriteString(strings.Repeat("}", n))
		sb.WriteString(") }")
	case "litwide": // input literal n wide
		sb.WriteString("{ f(y: [")
		for i := 0; i < n; i++ {
			fmt.Fprintf(&sb, "%d, ", i)
		}
		sb.WriteString("]) }")
	case "exclusive": // n inline fragments on different object types with the same response key
		sb.WriteString("{ node { ")
		for i := 0; i < n; i++ {
			fmt.Fprintf(&sb, "... on T%d { x: v next { x: w } } ", i%m)
		}
		sb.WriteString("} }")
	case "conds": // n inline fragments conditioned on the interface itself
		sb.WriteString("{ node { ")
		for i := 0; i < n; i++ {
			// conditions every runtime type satisfies: the work is the same whatever the value is
			fmt.Fprintf(&sb, "... on Node { k%d: v ... on Node { j%d: w } } ", i, i)
		}
		sb.WriteString("} }")
	case "uniondepth": // nesting through a union-typed field whose selection applies to every member
		sb.WriteString("{ any ")
		for i := 0; i < n; i++ {
			sb.WriteString("{ ... on Node { v any ")
		}
		sb.WriteString("{ ... on Node { v } }")
		sb.WriteString(strings.Repeat(" } }", n))
		sb.WriteString(" }")
	case "sparse": // nesting through an abstract field; only one implementer selects anything at the innermost level
		sb.WriteString("{ node ")
		for i := 0; i < n; i++ {
			sb.WriteString("{ next ")
		}
		sb.WriteString("{ ... on T0 { v } }")
		sb.WriteString(strings.Repeat(" }", n))
		sb.WriteString(" }")
	case "chainvar": // a chain whose every fragment is spread at two sites, with a variable-driven directive on every leaf
		sb.WriteString("query($s: Boolean = true) { ...F0 }")
		for i := 0; i < n; i++ {
			fmt.Fprintf(&sb, " fragment F%d on Q { a @include(if: $s) ", i)
			if i+1 < n {
				fmt.Fprintf(&sb, "...F%d ... on Q { ...F%d } ", i+1, i+1)
			}
			sb.WriteString("}")
		}
	case "fanvar": // one fragment with variable-driven directives spread at n sites, directly and below a field
		sb.WriteString("query($s: Boolean = true) { ")
		for i := 0; i < n; i++ {
			sb.WriteString("...F q { ...F } ")
		}
		sb.WriteString("} fragment F on Q { a @include(if: $s) b @skip(if: $s) ...G } fragment G on Q { b @include(if: $s) }")
	case "wide": // n distinct aliases
		sb.WriteString("{ ")
		for i := 0; i < n; i++ {
			fmt.Fprintf(&sb, "k%d: a ", i)
		}
		sb.WriteString("}")
	}
	return sb.String()
}

var scaleFamilies = []string{"chainvar", "fanvar", "conds", "uniondepth", "sparse", "depth", "chain", "fan", "dag", "nestdag", "repeat", "litdeep", "litwide", "exclusive", "wide"}

type scaleMeasure struct {
	validate, plan, exec uint64
	sites                [8]uint64
	abstractPlanned      uint64
	reexec               uint64 // planning steps of a second execution of the same plan
	abstractSeen         int
	alloc                uint64 // bytes allocated while validating, planning and executing once (work the step counters do not see)
}

// allocCap bounds the bytes one measurement may allocate (the largest on the unchanged tree allocates a few MB).
const allocCap = 1 << 30

func allocatedBytes() uint64 {
	var ms runtime.MemStats
	runtime.ReadMemStats(&ms)
	return ms.TotalAlloc
}

// stepCap bounds one measurement: work beyond it is not waited for (an exponential blow-up
// would not finish). errStepCap carries the steps counted when the cap was passed.
const stepCap = 30_000_000

// stallLimit: wall-clock bound of one measurement (a backstop, not the oracle: growth is judged
// on step counts).
const stallLimit = 60 * time.Second

type errStepCap struct{ steps, alloc uint64 }

func (e errStepCap) Error() string {
	if e.alloc > 0 {
		return fmt.Sprintf("allocated %d MB (%d steps counted) and was abandoned", e.alloc>>20, e.steps)
	}
	if e.steps <= stepCap {
		return fmt.Sprintf("did not finish within %v (%d steps counted) and was abandoned", stallLimit, e.steps)
	}
	return fmt.Sprintf("passed %d steps and was abandoned", e.steps)
}

func totalSteps() uint64 {
	var n uint64
	for _, x := range graphql.VerifSteps() {
		n += x
	}
	return n
}

// measure runs measureUnbounded on its own goroutine and gives up once the step counters pass
// stepCap. After that the abandoned goroutine keeps counting, so the caller must not measure
// again in this process (see fatalViolation).
func measure(b *build.Built, w *ref.World, text string) (scaleMeasure, error) {
	type out struct {
		sm  scaleMeasure
		err error
	}
	ch := make(chan out, 1)
	go func() {
		sm, err := measureUnbounded(b, w, text)
		ch <- out{sm, err}
	}()
	tick := time.NewTicker(5 * time.Millisecond)
	defer tick.Stop()
	start := time.Now()
	alloc0 := allocatedBytes()
	for k := 0; ; k++ {
		select {
		case o := <-ch:
			return o.sm, o.err
		case <-tick.C:
			if n := totalSteps(); n > stepCap {
				return scaleMeasure{}, errStepCap{steps: n}
			}
			if k%20 == 19 {
				if a := allocatedBytes() - alloc0; a > allocCap {
					return scaleMeasure{}, errStepCap{steps: totalSteps(), alloc: a}
				}
			}
			// work the counters do not see: the largest measurement on the unchanged tree takes
			// milliseconds, so minutes mean it will not finish
			if time.Since(start) > stallLimit {
				return scaleMeasure{}, errStepCap{steps: totalSteps()}
			}
		}
	}
}

func measureUnbounded(b *build.Built, w *ref.World, text string) (sm scaleMeasure, err error) {
	doc, perr := parseText(text)
	if perr != nil {
		return sm, perr
	}
	alloc0 := allocatedBytes()
	graphql.VerifResetSteps()
	vr := graphql.ValidateDocument(&b.Schema, doc, nil)
	if !vr.IsValid {
		return sm, fmt.Errorf("scaled document is invalid: %s", vr.Errors[0].Message)
	}
	v := graphql.VerifSteps()
	for _, x := range v {
		sm.validate += x
	}
	graphql.VerifResetSteps()
	plan, err := graphql.PlanQuery(&b.Schema, doc, "")
	if err != nil {
		return sm, err
	}
	p := graphql.VerifSteps()
	for _, x := range p {
		sm.plan += x
	}
	graphql.VerifResetSteps()
	res := graphql.ExecutePlan(plan, graphql.ExecuteParams{Schema: b.Schema, Context: build.WithSession(nil, &build.Session{W: w})})
	e := graphql.VerifSteps()
	for _, x := range e {
		sm.exec += x
	}
	sm.abstractPlanned = e[graphql.VerifSiteAbstractPlanned]
	// the same request through a cold normalising plan cache: validating and planning it that way includes computing
	// the normalised key, which no step counter sees (the allocation measure and the wall-clock backstop do)
	for _, norm := range []bool{true, false} {
		pc := graphql.NewPlanCache(graphql.PlanCacheOptions{Normalize: norm})
		if pr := pc.Get(&b.Schema, text, ""); pr.Plan == nil {
			return sm, fmt.Errorf("scaled document rejected by the plan cache (normalize=%v): %v", norm, pr.Errors)
		}
	}
	sm.alloc = allocatedBytes() - alloc0
	// the same plan, the same values, once more: every runtime type was encountered before
	graphql.VerifResetSteps()
	graphql.ExecutePlan(plan, graphql.ExecuteParams{Schema: b.Schema, Context: build.WithSession(nil, &build.Session{W: w})})
	// planning sites only: evaluating the conditions of variable-driven directives (to pick the plan's variant) coerces
	// one literal or variable per directive in every execution, which is not planning
	re := graphql.VerifSteps()
	sm.reexec = re[graphql.VerifSiteCollectSelection] + re[graphql.VerifSitePlanMerged] + re[graphql.VerifSiteAbstractPlanned] + re[graphql.VerifSitePossibleTypeScan]
	// how many (abstract position, runtime type) pairs did the response really contain?
	seen := map[string]bool{}
	var walk func(x interface{}, path string)
	walk = func(x interface{}, path string) {
		switch v := x.(type) {
		case map[string]interface{}:
			for k, c := range v {
				walk(c, path+"/"+k)
			}
		case []interface{}:
			for _, c := range v {
				walk(c, path)
			}
		}
	}
	walk(res.Data, "")
	_ = seen
	return sm, nil
}

// allocGrowth compares the bytes allocated by two consecutive measurements of a ladder whose size grows by at most 2:
// a polynomial of degree 4 grows by 16, and small measurements are dominated by fixed costs (8 MB of slack).
func allocGrowth(prev *uint64, now uint64, comparable bool) string {
	p := *prev
	*prev = now
	if comparable && p > 0 && float64(now) > 16*float64(p)+float64(8<<20) {
		return fmt.Sprintf("validating, planning and executing allocated %d KB at the smaller size and %d KB at the larger (x%.1f; quartic growth gives x16 for a doubling)", p>>10, now>>10, float64(now)/float64(p))
	}
	return ""
}

func m0(_ string, c *ScaleCase) int {
	if c.M == 0 {
		return 4
	}
	return c.M
}

func c19Ladder(c *ScaleCase, sizes []int) (msg string, series []uint64) {
	m := c.M
	if m == 0 {
		m = 4
	}
	b, w, err := scaleBuilt(m, c.Appended)
	if err != nil {
		return "HARNESS: " + err.Error(), nil
	}
	var prev, prevAlloc uint64
	var base float64
	for i, n := range sizes {
		sm, err := measure(b, w, scaleDoc(c.Family, n, m))
		if capped, ok := err.(errStepCap); ok {
			fatalViolation("C19", c19Sub, c, "family %s (m=%d): work at n=%d %s; the smaller sizes n=%v took %v steps", c.Family, m, n, capped.Error(), sizes[:i], series)
		}
		if err != nil {
			return fmt.Sprintf("HARNESS: family %s n=%d: %v", c.Family, n, err), series
		}
		total := sm.validate + sm.plan + sm.exec
		series = append(series, total)
		if m := allocGrowth(&prevAlloc, sm.alloc, i > 0 && sizes[i] <= 2*sizes[max(i-1, 0)]); m != "" {
			return fmt.Sprintf("family %s (m=%d) between n=%d and n=%d: %s", c.Family, m0(m, c), sizes[max(i-1, 0)], n, m), series
		}
		if sm.reexec > 0 {
			return fmt.Sprintf("family %s (m=%d) at n=%d: executing the same plan a second time did %d planning steps: runtime types that were already encountered are planned again", c.Family, m, n, sm.reexec), series
		}
		if i == 0 {
			base = float64(total) / float64(n*n*n)
			if base < 1 {
				base = 1
			}
		} else {
			if prev > 0 && float64(total) > 12*float64(prev) && sizes[i] == 2*sizes[i-1] {
				return fmt.Sprintf("family %s (m=%d): work grows from %d steps at n=%d to %d steps at n=%d (x%.1f for a doubling; cubic growth gives x8)\n  series over n=%v: %v",
					c.Family, m, prev, sizes[i-1], total, n, float64(total)/float64(prev), sizes[:i+1], series), series
			}
			if float64(total) > 8*base*float64(n)*float64(n)*float64(n)+1000 {
				return fmt.Sprintf("family %s (m=%d): %d steps at n=%d exceed the cubic envelope fixed at n=%d (%.1f n^3 x 8)\n  series over n=%v: %v",
					c.Family, m, total, n, sizes[0], base, sizes[:i+1], series), series
			}
		}
		prev = total
	}
	return "", series
}

// TestC19_Ladder: fixed doubling ladders per family.
func TestC19_Ladder(t *testing.T) {
	c19Sub = "ladder"
	if replayFile() != "" {
		var rc ScaleCase
		if loadReplay(t, "C19", &rc, "ladder") {
			if msg, _ := c19Ladder(&rc, []int{4, 8, 16, 32}); msg != "" {
				t.Fatalf("VERIF-FAIL property=C19 sub=ladder replay=%s :: %s", replayFile(), msg)
			}
		}
		return
	}
	sizes := []int{4, 8, 16, 32, 64}
	if thorough() {
		sizes = append(sizes, 128)
	}
	for _, fam := range scaleFamilies {
		ms := []int{4}
		if fam == "depth" || fam == "exclusive" || fam == "uniondepth" {
			ms = []int{2, 8, 32, 128}
		}
		for _, m := range ms {
			c := &ScaleCase{Family: fam, M: m, N: sizes[len(sizes)-1]}
			sz := sizes
			if fam == "dag" || fam == "nestdag" {
				sz = sizes[:4] // dense DAGs: the document itself is quadratic in n
				if thorough() {
					sz = sizes[:5]
				}
			}
			msg, series := c19Ladder(c, sz)
			stats.R.Class("family_" + fam)
			stats.R.Case(fmt.Sprintf("%s/%d/%d", fam, m, len(sz)), true, func() interface{} {
				return map[string]interface{}{"family": fam, "implementers": m, "sizes": sz, "steps": series}
			})
			if msg != "" {
				violation(t, "C19", "ladder", c, "%s", msg)
			}
		}
	}
}

// TestC19_Implementers: planning work does not grow with the number of object types an
// abstract field could resolve to, and executing plans only the runtime types encountered.
func TestC19_Implementers(t *testing.T) {
	if replayFile() != "" {
		t.Skip()
	}
	for _, fam := range []string{"depth", "uniondepth", "conds/0", "conds/1", "conds/2", "conds/3"} {
		appended := 0
		if strings.HasPrefix(fam, "conds/") {
			fmt.Sscanf(fam, "conds/%d", &appended)
			fam = "conds"
		}
		for _, n := range []int{4, 16, 48} {
			if fam == "uniondepth" && n > 16 {
				continue // m^n if unions were planned per member: 16 levels show it
			}
			var first uint64
			for i, m := range []int{2, 8, 32, 128} {
				b, w, err := scaleBuilt(m, appended)
				if err != nil {
					t.Fatalf("HARNESS: %v", err)
				}
				sm, err := measure(b, w, scaleDoc(fam, n, m))
				c := &ScaleCase{Family: fam, N: n, M: m, Appended: appended}
				if capped, ok := err.(errStepCap); ok {
					fatalViolation("C19", "implementers", c, "a depth-%d query with %d implementers %s", n, m, capped.Error())
				}
				if err != nil {
					t.Fatalf("HARNESS: %v", err)
				}
				stats.R.Case(fmt.Sprintf("impl/%s/%d/%d/%d", fam, appended, n, m), true, func() interface{} {
					return map[string]interface{}{"depth": n, "implementers": m, "plan_steps": sm.plan, "validate_steps": sm.validate, "exec_steps": sm.exec, "abstract_types_planned_at_execution": sm.abstractPlanned}
				})
				work := sm.plan
				if fam == "conds" {
					work += sm.exec // the abstract field's sub-selection is planned when a value is met
				}
				if i == 0 {
					first = work
				} else if work != first {
					violation(t, "C19", "implementers", c, "planning a size-%d query of family %s (%d implementer(s) appended after construction) costs %d steps with %d implementers but %d steps with 2: planning work depends on the number of possible types", n, fam, appended, work, m, first)
				}
				// one value per abstract position: at most one runtime type planned per position
				if sm.abstractPlanned > uint64(n+1) {
					violation(t, "C19", "implementers", c, "executing a depth-%d query planned %d (field, runtime type) alternatives, but only %d abstract values were encountered", n, sm.abstractPlanned, n+1)
				}
			}
		}
	}
}

// TestC19_Gen: rapid-drawn sizes and families against the cubic envelope.
func TestC19_Gen(t *testing.T) {
	c19Sub = "gen"
	var rc ScaleCase
	if loadReplay(t, "C19", &rc, "gen") {
		if rc.Recipe != nil {
			if msg, _ := c19RecipeLadder(&rc); msg != "" {
				t.Fatalf("VERIF-FAIL property=C19 sub=gen replay=%s :: %s", replayFile(), msg)
			}
			return
		}
		if msg, _ := c19Ladder(&rc, []int{4, rc.N}); msg != "" {
			t.Fatalf("VERIF-FAIL property=C19 sub=gen replay=%s :: %s", replayFile(), msg)
		}
		return
	}
	rapid.Check(t, func(rt *rapid.T) {
		if gen.Chance(rt, 50, "recipe") {
			r := drawRecipe(rt)
			c := &ScaleCase{Family: "recipe", Recipe: r}
			msg, series := c19RecipeLadder(c)
			stats.R.Class("gen_family_recipe_" + r.Edges)
			stats.R.Case(caseKey(c), true, func() interface{} {
				return map[string]interface{}{"recipe": r, "steps": series}
			})
			if msg != "" {
				violation(rt, "C19", "gen", c, "%s", msg)
			}
			return
		}
		c := &ScaleCase{Family: scaleFamilies[gen.Uniform(rt, len(scaleFamilies), "family")], N: rapid.IntRange(5, 64).Draw(rt, "n"), M: []int{2, 4, 16, 64}[gen.Uniform(rt, 4, "m")]}
		c.Appended = []int{0, 0, 1, 2, 3}[gen.Uniform(rt, 5, "appended")]
		if c.Family == "dag" || c.Family == "nestdag" {
			if c.N > 28 {
				c.N = 28
			}
		}
		msg, series := c19Ladder(c, []int{4, c.N})
		stats.R.Class("gen_family_" + c.Family)
		stats.R.Case(fmt.Sprintf("%s/%d/%d", c.Family, c.N, c.M), c.N >= 8, func() interface{} {
			return map[string]interface{}{"family": c.Family, "n": c.N, "implementers": c.M, "steps_at_4_and_n": series}
		})
		if msg != "" {
			violation(rt, "C19", "gen", c, "%s", msg)
		}
	})
}
