package props

import (
	"context"
	"fmt"
	"testing"
	"time"

	"github.com/graphql-go/graphql"
	"pgregory.net/rapid"

	"verif/build"
	"verif/gen"
	"verif/ref"
	"verif/stats"
)

// One prepared plan / one cache entry served with every valuation of seven variable-driven
// @skip/@include directives (more valuations than the plan keeps variants for), in a drawn
// order, several times over: every execution returns, and returns what the request gives from
// scratch.

const valuationsQuery = `query V($a: Boolean!, $b: Boolean!, $c: Boolean!, $d: Boolean!, $e: Boolean!, $f: Boolean!, $g: Boolean!) {
  a @include(if: $a) e @skip(if: $b)
  o @include(if: $c) { a nn @skip(if: $d) i { a ... on P { p @include(if: $e) } } }
  i { a ... on O { x(y: 3) @include(if: $f) u @skip(if: $g) { ... on P { e } ... on O { a } } } ... on P { p e @include(if: $a) } }
  ul @skip(if: $g) { ... on O { a @include(if: $b) } ... on P { p } }
  n(x: {b: "v"}, z: V1) @include(if: $d)
}`

type ValuationsCase struct {
	Order  []int `json:"order"` // valuations (bit masks 0..127) in the order served
	Cache  bool  `json:"cache"` // through PlanCache.Get instead of one PlanQuery result
	Normal bool  `json:"normalize"`
}

func valuationVars(mask int) map[string]interface{} {
	out := map[string]interface{}{}
	for i, n := range []string{"a", "b", "c", "d", "e", "f", "g"} {
		out[n] = mask&(1<<uint(i)) != 0
	}
	return out
}

// valuationsOracle returns a message and whether the failure is a call that did not return.
func valuationsOracle(c *ValuationsCase) (msg string, hung bool) {
	sameResponseSkipLocations = c.Cache && c.Normal && known("KF-C06-normalized-locations")
	defer func() { sameResponseSkipLocations = false }()
	m := kitchenModel()
	w := &ref.World{S: m, Salt: 13, MaxList: 2}
	b, err := build.New(m, w, build.Options{})
	if err != nil {
		return "HARNESS: " + err.Error(), false
	}
	ctx := func() context.Context { return build.WithSession(context.Background(), &build.Session{W: w}) }
	var plan *graphql.Plan
	var pc *graphql.PlanCache
	if c.Cache {
		pc = graphql.NewPlanCache(graphql.PlanCacheOptions{Normalize: c.Normal})
	} else {
		doc, perr := parseText(valuationsQuery)
		if perr != nil {
			return "HARNESS: " + perr.Error(), false
		}
		plan, err = graphql.PlanQuery(&b.Schema, doc, "V")
		if err != nil {
			return "HARNESS: PlanQuery: " + err.Error(), false
		}
	}
	for step, mask := range c.Order {
		vars := valuationVars(mask)
		done := make(chan *graphql.Result, 1)
		go func() {
			p, args := plan, map[string]interface{}{}
			for k, v := range vars {
				args[k] = v
			}
			if pc != nil {
				pr := pc.Get(&b.Schema, valuationsQuery, "V")
				if pr.Plan == nil {
					done <- &graphql.Result{Errors: pr.Errors}
					return
				}
				p = pr.Plan
				for k, v := range pr.SynthArgs {
					args[k] = v
				}
			}
			done <- graphql.ExecutePlan(p, graphql.ExecuteParams{Schema: b.Schema, OperationName: "V", Args: args, Context: ctx()})
		}()
		var got *graphql.Result
		select {
		case got = <-done:
		case <-time.After(30 * time.Second):
			return fmt.Sprintf("execution %d of one prepared plan (valuation %07b, %d distinct valuations served before) did not return within 30 s", step+1, mask, distinctBefore(c.Order, step)), true
		}
		want := graphql.Do(graphql.Params{Schema: b.Schema, RequestString: valuationsQuery, OperationName: "V", VariableValues: vars, Context: ctx()})
		if want.Data == nil {
			return "HARNESS: the valuations query is rejected: " + respJSON(want), false
		}
		if d := sameResponse(got, want); d != "" {
			return fmt.Sprintf("execution %d of one prepared plan (valuation %07b, %d distinct valuations served before): response differs from parsing, validating and executing from scratch: %s", step+1, mask, distinctBefore(c.Order, step), d), false
		}
	}
	return "", false
}

func distinctBefore(order []int, step int) int {
	seen := map[int]bool{}
	for _, m := range order[:step] {
		seen[m] = true
	}
	return len(seen)
}

func drawValuationsCase(rt *rapid.T) *ValuationsCase {
	c := &ValuationsCase{Cache: gen.Chance(rt, 50, "cache"), Normal: gen.Chance(rt, 50, "normalize")}
	// all 128 valuations starting at a drawn point with a drawn odd stride (a permutation), then
	// a drawn tail of repeats
	start, stride := gen.Uniform(rt, 128, "start"), 2*gen.Uniform(rt, 64, "stride")+1
	for i := 0; i < 128; i++ {
		c.Order = append(c.Order, (start+i*stride)%128)
	}
	for i, n := 0, gen.Intn(rt, 0, 40, "tail"); i < n; i++ {
		c.Order = append(c.Order, gen.Uniform(rt, 128, "again"))
	}
	return c
}

func valuationsTest(t *testing.T, prop, sub string, onlyHangs bool) {
	var rc ValuationsCase
	if loadReplay(t, prop, &rc, sub) {
		if msg, hung := valuationsOracle(&rc); msg != "" && (hung || !onlyHangs) {
			t.Fatalf("VERIF-FAIL property=%s sub=%s replay=%s :: %s", prop, sub, replayFile(), msg)
		}
		return
	}
	n := 0
	rapid.Check(t, func(rt *rapid.T) {
		if n >= 6 { // each case is 128+ executions: a handful per run
			return
		}
		n++
		c := drawValuationsCase(rt)
		msg, hung := valuationsOracle(c)
		stats.R.Class("plan_reused_over_all_valuations")
		stats.R.Case(caseKey(c), true, func() interface{} {
			return map[string]interface{}{"cache": c.Cache, "normalize": c.Normal, "executions": len(c.Order)}
		})
		if hung {
			fatalViolation(prop, sub, c, "%s", msg)
		}
		if msg != "" && !onlyHangs {
			violation(rt, prop, sub, c, "%s", msg)
		}
	})
}

func TestC06_Valuations(t *testing.T) { valuationsTest(t, "C06", "valuations", false) }
func TestC09_Valuations(t *testing.T) { valuationsTest(t, "C09", "valuations", true) }
