package props

import (
	"context"
	"encoding/json"
	"fmt"
	"testing"
	"time"

	"github.com/graphql-go/graphql"
	"github.com/graphql-go/graphql/language/ast"
	"pgregory.net/rapid"

	"verif/gen"
	"verif/stats"
)

// C16, cancellation during variable coercion: the variables of the request have a custom
// scalar type whose ParseValue the harness gates. Every ParseValue call announces itself and
// waits for its own release, so "the context ended while the k-th coercion call is blocked"
// is a fact. The order and number of ParseValue calls are the library's business: the harness
// counts arrivals and never assumes which variable a call belongs to.

type CoerceCancelCase struct {
	Vars     []string `json:"vars"`     // type of each variable: Gate | [Gate] | In
	CancelAt int      `json:"cancelAt"` // the context ends while the CancelAt-th ParseValue call (0-based, arrival order) is blocked; beyond the last call = never
	Kind     string   `json:"kind"`     // cancel | deadline
	Entry    string   `json:"entry"`    // do | plan
	Resolver bool     `json:"resolver"` // the selection also has a gated resolver after coercion
}

func c16CoerceOracle(c *CoerceCancelCase) (msg string, blockedInCoercion bool) {
	arrivals := make(chan chan struct{}, 64)
	gate := graphql.NewScalar(graphql.ScalarConfig{
		Name:      "Gate",
		Serialize: func(v interface{}) interface{} { return v },
		ParseValue: func(v interface{}) interface{} {
			rel := make(chan struct{})
			arrivals <- rel
			<-rel
			return v
		},
		ParseLiteral: func(v ast.Value) interface{} {
			if s, ok := v.(*ast.StringValue); ok {
				return s.Value
			}
			return nil
		},
	})
	in := graphql.NewInputObject(graphql.InputObjectConfig{Name: "In", Fields: graphql.InputObjectConfigFieldMap{
		"g": &graphql.InputObjectFieldConfig{Type: gate},
		"s": &graphql.InputObjectFieldConfig{Type: graphql.String},
	}})
	resolverArrivals := make(chan chan struct{}, 4)
	args := graphql.FieldConfigArgument{}
	vars := map[string]interface{}{}
	want := map[string]interface{}{}
	decl, use := "", ""
	for i, ty := range c.Vars {
		name := fmt.Sprintf("v%d", i)
		var t graphql.Input
		var val interface{}
		switch ty {
		case "[Gate]":
			t, val = graphql.NewList(gate), []interface{}{fmt.Sprintf("a%d", i), fmt.Sprintf("b%d", i)}
		case "In":
			t, val = in, map[string]interface{}{"g": fmt.Sprintf("g%d", i), "s": "plain"}
		default:
			t, val = gate, fmt.Sprintf("k%d", i)
		}
		args[name] = &graphql.ArgumentConfig{Type: t}
		vars[name] = val
		want[name] = val
		decl += fmt.Sprintf("$%s: %s ", name, ty)
		use += fmt.Sprintf("%s: $%s ", name, name)
	}
	q := graphql.NewObject(graphql.ObjectConfig{Name: "Q", Fields: graphql.Fields{
		"echo": &graphql.Field{Type: graphql.String, Args: args, Resolve: func(p graphql.ResolveParams) (interface{}, error) {
			b, _ := json.Marshal(p.Args)
			return string(b), nil
		}},
		"slow": &graphql.Field{Type: graphql.String, Resolve: func(p graphql.ResolveParams) (interface{}, error) {
			rel := make(chan struct{})
			resolverArrivals <- rel
			<-rel
			return "done", nil
		}},
	}})
	schema, err := graphql.NewSchema(graphql.SchemaConfig{Query: q})
	if err != nil {
		return "HARNESS: " + err.Error(), false
	}
	text := "query(" + decl + ") { echo(" + use + ")"
	if c.Resolver {
		text += " slow"
	}
	text += " }"
	wantJSON, _ := json.Marshal(want)
	wantData := map[string]interface{}{"echo": string(wantJSON)}
	if c.Resolver {
		wantData["slow"] = "done"
	}
	baseline := libGoroutines()
	wantErr := context.Canceled
	if c.Kind == "deadline" {
		wantErr = context.DeadlineExceeded
	}
	mc := &manualCtx{Context: context.Background(), done: make(chan struct{})}
	resCh := make(chan *graphql.Result, 1)
	go func() {
		if c.Entry == "plan" {
			doc, perr := parseText(text)
			if perr != nil {
				resCh <- &graphql.Result{}
				return
			}
			plan, perr := graphql.PlanQuery(&schema, doc, "")
			if perr != nil {
				resCh <- &graphql.Result{}
				return
			}
			resCh <- graphql.ExecutePlan(plan, graphql.ExecuteParams{Schema: schema, Args: vars, Context: mc})
			return
		}
		resCh <- graphql.Do(graphql.Params{Schema: schema, RequestString: text, VariableValues: vars, Context: mc})
	}()
	// whatever is still blocked when the oracle leaves is released, then the census is taken
	stopDrain := make(chan struct{})
	defer func() {
		go func() {
			for {
				select {
				case rel := <-arrivals:
					close(rel)
				case rel := <-resolverArrivals:
					close(rel)
				case <-stopDrain:
					return
				}
			}
		}()
		deadline := time.Now().Add(10 * time.Second)
		for libGoroutines() > baseline {
			if time.Now().After(deadline) {
				if msg == "" {
					msg = fmt.Sprintf("%d goroutine(s) of the library are still alive 10 s after the call returned and every ParseValue / resolver was released", libGoroutines()-baseline)
				}
				break
			}
			time.Sleep(2 * time.Millisecond)
		}
		close(stopDrain)
	}()
	var res *graphql.Result
	calls := 0
	for res == nil {
		select {
		case rel := <-arrivals:
			if calls == c.CancelAt {
				// the context ends while this ParseValue call is blocked
				blockedInCoercion = true
				mc.end(wantErr)
				select {
				case res = <-resCh:
				case <-time.After(20 * time.Second):
					close(rel)
					return fmt.Sprintf("the call did not return within 20 s after the context ended while ParseValue call #%d of variable coercion is still blocked: it waits for coercion to finish", calls), true
				}
				close(rel)
				if res.Data != nil || len(res.Errors) != 1 || res.Errors[0].Message != wantErr.Error() {
					return fmt.Sprintf("context ended (%v) while ParseValue call #%d was blocked: want no data and exactly the context's error, got data=%s errors=%v", wantErr, calls, canonJSON(res.Data), res.Errors), true
				}
				return "", true
			}
			calls++
			close(rel)
		case rel := <-resolverArrivals:
			close(rel)
		case res = <-resCh:
		case <-time.After(20 * time.Second):
			return "the call neither returned nor entered another ParseValue / resolver within 20 s", false
		}
	}
	// no cancellation happened: the complete normal response
	if len(res.Errors) != 0 || canonJSON(res.Data) != canonJSON(wantData) {
		return fmt.Sprintf("no cancellation (only %d ParseValue calls happened), but the response is data=%s errors=%v, want %s", calls, canonJSON(res.Data), res.Errors, canonJSON(wantData)), false
	}
	return "", false
}

func TestC16_Coercion(t *testing.T) {
	var rc CoerceCancelCase
	if loadReplay(t, "C16", &rc, "coercion") {
		for i := 0; i < 5; i++ {
			if msg, _ := c16CoerceOracle(&rc); msg != "" {
				t.Fatalf("VERIF-FAIL property=C16 sub=coercion replay=%s :: %s", replayFile(), msg)
			}
		}
		return
	}
	rapid.Check(t, func(rt *rapid.T) {
		c := &CoerceCancelCase{Kind: []string{"cancel", "deadline"}[gen.Uniform(rt, 2, "kind")], Entry: []string{"do", "plan"}[gen.Uniform(rt, 2, "entry")], Resolver: gen.Chance(rt, 40, "resolver")}
		for i, n := 0, gen.Intn(rt, 1, 3, "nVars"); i < n; i++ {
			c.Vars = append(c.Vars, []string{"Gate", "Gate", "[Gate]", "In"}[gen.Uniform(rt, 4, "varType")])
		}
		c.CancelAt = gen.Uniform(rt, 14, "cancelAt")
		msg, blocked := c16CoerceOracle(c)
		stats.R.Class(map[bool]string{true: "cancel_during_coercion", false: "coercion_completed"}[blocked])
		stats.R.Case(caseKey(c), blocked, func() interface{} { return c })
		if msg != "" {
			violation(rt, "C16", "coercion", c, "%s", msg)
		}
	})
}
