package props

import (
	"context"
	"encoding/json"
	"fmt"
	"sort"
	"strings"

	"github.com/graphql-go/graphql"
	"github.com/graphql-go/graphql/language/ast"
	"github.com/graphql-go/graphql/language/parser"
	"github.com/graphql-go/graphql/language/source"

	"verif/build"
	"verif/model"
	"verif/ref"
)

// ExecCase is a fully drawn execution case: everything the library and the reference need.
type ExecCase struct {
	Schema *model.Schema         `json:"schema"`
	Doc    *model.Doc            `json:"doc"`
	OpName string                `json:"opName"`
	Vars   map[string]*model.Val `json:"vars"`
	// AltVars: other valuations of the same variables, for running one prepared plan / cache
	// entry with several sets of variable values
	AltVars []map[string]*model.Val `json:"altVars,omitempty"`
	World   *ref.World              `json:"world"`
	Layout  *model.Layout           `json:"layout,omitempty"`
	Regime  string                  `json:"regime,omitempty"`
	Text    string                  `json:"text,omitempty"` // informational: the printed document
	// TypedSlices: list values of variables are handed over as []string, []int, []map[string]interface{} ... where homogeneous
	TypedSlices bool `json:"typedSlices,omitempty"`
}

func (c *ExecCase) fix() {
	if c.World != nil {
		c.World.S = c.Schema
	}
}

func (c *ExecCase) goVars() map[string]interface{} {
	out := map[string]interface{}{}
	for k, v := range c.Vars {
		if c.TypedSlices {
			out[k] = v.ToGoTyped()
		} else {
			out[k] = v.ToGo()
		}
	}
	return out
}

func parseText(text string) (*ast.Document, error) {
	return parser.Parse(parser.ParseParams{Source: &source.Source{Body: []byte(text), Name: "GraphQL request"}})
}

// libRun executes the case through one entry path and returns the result with its session.
type libRun struct {
	Res  *graphql.Result
	Sess *build.Session
	Root interface{}
}

func runEntry(b *build.Built, c *ExecCase, text, entry string, plan **graphql.Plan) (lr libRun, perr error) {
	sess := &build.Session{W: c.World, Marker: entry}
	ctx := build.WithSession(context.Background(), sess)
	lr.Sess = sess
	switch entry {
	case "do":
		root := map[string]interface{}{"root": true}
		lr.Root = root
		lr.Res = graphql.Do(graphql.Params{Schema: b.Schema, RequestString: text, RootObject: root,
			VariableValues: c.goVars(), OperationName: c.OpName, Context: ctx})
	case "execute":
		doc, err := parseText(text)
		if err != nil {
			return lr, err
		}
		root := &ref.Tok{Type: "root", ID: ""}
		lr.Root = root
		lr.Res = graphql.Execute(graphql.ExecuteParams{Schema: b.Schema, Root: root, AST: doc, OperationName: c.OpName,
			Args: c.goVars(), Context: ctx})
	case "cache", "cachenorm":
		// through a plan cache that first served the same document behind other leading /
		// trailing whitespace: what it hands out must belong to this text
		pc := graphql.NewPlanCache(graphql.PlanCacheOptions{Normalize: entry == "cachenorm"})
		for _, variant := range []string{"\n\n    " + text, text + "\n\n", "\r\n\t" + text, " " + text} {
			pc.Get(&b.Schema, variant, c.OpName)
		}
		pr := pc.Get(&b.Schema, text, c.OpName)
		if pr.Plan == nil {
			lr.Res = &graphql.Result{Errors: pr.Errors}
			break
		}
		args := c.goVars()
		for k, v := range pr.SynthArgs {
			args[k] = v
		}
		root := &ref.Tok{Type: "root", ID: ""}
		lr.Root = root
		lr.Res = graphql.ExecutePlan(pr.Plan, graphql.ExecuteParams{Schema: b.Schema, Root: root, OperationName: c.OpName, Args: args, Context: ctx})
	case "plan":
		if *plan == nil {
			doc, err := parseText(text)
			if err != nil {
				return lr, err
			}
			p, err := graphql.PlanQuery(&b.Schema, doc, c.OpName)
			if err != nil {
				return lr, fmt.Errorf("PlanQuery: %v", err)
			}
			*plan = p
		}
		root := &ref.Tok{Type: "root", ID: ""}
		lr.Root = root
		lr.Res = graphql.ExecutePlan(*plan, graphql.ExecuteParams{Schema: b.Schema, Root: root, OperationName: c.OpName,
			Args: c.goVars(), Context: ctx})
	case "planzero":
		// the prepared plan with ExecuteParams.Schema left at its zero value: a plan is bound to the schema it was
		// made for, and ExecutePlan documents that the parameter is not consulted
		if *plan == nil {
			return lr, fmt.Errorf("planzero before plan")
		}
		root := &ref.Tok{Type: "root", ID: ""}
		lr.Root = root
		lr.Res = graphql.ExecutePlan(*plan, graphql.ExecuteParams{Root: root, OperationName: c.OpName, Args: c.goVars(), Context: ctx})
	}
	return lr, nil
}

func canonJSON(v interface{}) string {
	b, err := json.Marshal(v)
	if err != nil {
		return "<<marshal error: " + err.Error() + ">>"
	}
	return string(b)
}

func libErrSet(res *graphql.Result) []string {
	var out []string
	for _, e := range res.Errors {
		out = append(out, ref.PathKey(e.Path)+":"+build.ErrClass(e.Message))
	}
	sort.Strings(out)
	return out
}

func refErrSet(r *ref.Result) []string {
	var out []string
	for _, e := range r.Errors {
		out = append(out, e.String())
	}
	sort.Strings(out)
	return out
}

// compareExec checks one library result against the reference result. "" = agreement.
func compareExec(want *ref.Result, got *graphql.Result) string {
	if got == nil {
		return "nil *Result"
	}
	if want.ReqError != "" {
		if got.Data != nil {
			return fmt.Sprintf("request must fail (%s) but data = %s", want.ReqError, canonJSON(got.Data))
		}
		if len(got.Errors) == 0 {
			return fmt.Sprintf("request must fail (%s) but no error was returned", want.ReqError)
		}
		return ""
	}
	wd, gd := canonJSON(want.Data), canonJSON(got.Data)
	if wd != gd {
		return fmt.Sprintf("data differs:\n  want %s\n  got  %s\n  want errors %v\n  got errors  %v", wd, gd, refErrSet(want), libErrSet(got))
	}
	we, ge := refErrSet(want), libErrSet(got)
	if strings.Join(we, "|") != strings.Join(ge, "|") {
		var msgs []string
		for _, e := range got.Errors {
			msgs = append(msgs, e.Message)
		}
		return fmt.Sprintf("errors differ (path:class):\n  want %v\n  got  %v\n  messages %q\n  data %s", we, ge, msgs, gd)
	}
	return ""
}

// isRapidStop reports whether a recovered panic value belongs to rapid's own control flow.
func isRapidStop(r interface{}) bool {
	tn := fmt.Sprintf("%T", r)
	return strings.HasPrefix(tn, "rapid.") || strings.Contains(tn, "rapid.")
}
