package props

import (
	"bufio"
	"crypto/sha256"
	"encoding/hex"
	"encoding/json"
	"fmt"
	"os"
	"path/filepath"
	"strings"
	"sync"
	"testing"

	"verif/stats"
)

// ---------------------------------------------------------------------------------------------
// Process-wide plumbing shared by all property files: tier, replay files, known findings.

func TestMain(m *testing.M) {
	code := m.Run()
	stats.R.Flush()
	os.Exit(code)
}

func tier() string {
	if os.Getenv("VERIF_TIER") == "thorough" {
		return "thorough"
	}
	return "quick"
}

func thorough() bool { return tier() == "thorough" }

// envInt reads an integer knob set by the driver (case budgets for enumerations etc.).
func envInt(name string, def int) int {
	if s := os.Getenv(name); s != "" {
		var v int
		if _, err := fmt.Sscanf(s, "%d", &v); err == nil {
			return v
		}
	}
	return def
}

// shard returns (index, count) of this process among the driver's shards.
func shard() (int, int) {
	return envInt("VERIF_SHARD", 0), envInt("VERIF_SHARDS", 1)
}

// replayFile is the path of a case file to replay ("" when searching).
func replayFile() string { return os.Getenv("VERIF_REPLAY_FILE") }

// loadReplay decodes the replay file into v; returns false when not replaying.
func loadReplay(t testing.TB, prop string, v interface{}, subs ...string) bool {
	p := replayFile()
	if p == "" {
		return false
	}
	b, err := os.ReadFile(p)
	if err != nil {
		t.Fatalf("replay: %v", err)
	}
	var env replayEnvelope
	if err := json.Unmarshal(b, &env); err != nil {
		t.Fatalf("replay: %v", err)
	}
	if env.Property != prop {
		t.Skipf("replay file is for %s", env.Property)
	}
	if len(subs) > 0 {
		match := false
		for _, s := range subs {
			match = match || s == env.Sub
		}
		if !match {
			t.Skipf("replay file is for sub-check %s", env.Sub)
		}
	}
	if err := json.Unmarshal(env.Case, v); err != nil {
		t.Fatalf("replay: case: %v", err)
	}
	return true
}

type replayEnvelope struct {
	Property string          `json:"property"`
	Sub      string          `json:"sub"`
	Observed string          `json:"observed"`
	Case     json.RawMessage `json:"case"`
}

var replayMu sync.Mutex

// writeReplay stores the failing case so that the file left after shrinking is the
// minimal reproduction. Returns the path.
func writeReplay(prop, sub string, c interface{}, observed string) string {
	dir := os.Getenv("VERIF_REPLAY_DIR")
	if dir == "" {
		dir = filepath.Join(os.TempDir(), "verif-replay")
	}
	os.MkdirAll(dir, 0o755)
	cb, err := json.Marshal(c)
	if err != nil {
		cb, _ = json.Marshal(fmt.Sprintf("%+v", c))
	}
	env := replayEnvelope{Property: prop, Sub: sub, Observed: observed, Case: cb}
	b, _ := json.MarshalIndent(env, "", " ")
	sh, _ := shard()
	path := filepath.Join(dir, fmt.Sprintf("%s-%s-s%d.json", prop, sub, sh))
	replayMu.Lock()
	os.WriteFile(path, b, 0o644)
	replayMu.Unlock()
	return path
}

// fataler is the part of *testing.T / *rapid.T we need.
type fataler interface {
	Fatalf(format string, args ...interface{})
	Helper()
}

// violation reports a property failure: writes the replay file, records it and fails the test.
func violation(t fataler, prop, sub string, c interface{}, format string, a ...interface{}) {
	t.Helper()
	msg := fmt.Sprintf(format, a...)
	path := writeReplay(prop, sub, c, msg)
	stats.R.Fail(prop, path, msg)
	t.Fatalf("VERIF-FAIL property=%s sub=%s replay=%s :: %s", prop, sub, path, msg)
}

// fatalViolation reports a property failure and ends the process at once: for failures after
// which the process cannot go on measuring (work that would not finish).
func fatalViolation(prop, sub string, c interface{}, format string, a ...interface{}) {
	msg := fmt.Sprintf(format, a...)
	path := writeReplay(prop, sub, c, msg)
	stats.R.Fail(prop, path, msg)
	stats.R.Flush()
	fmt.Printf("VERIF-FAIL property=%s sub=%s replay=%s :: %s\n", prop, sub, path, strings.ReplaceAll(msg, "\n", " / "))
	os.Exit(1)
}

func caseKey(c interface{}) string {
	b, err := json.Marshal(c)
	if err != nil {
		b = []byte(fmt.Sprintf("%+v", c))
	}
	s := sha256.Sum256(b)
	return hex.EncodeToString(s[:8])
}

// ---------------------------------------------------------------------------------------------
// Known findings: /verif/KNOWN_FINDINGS.txt lists `known:` entries with an id; the harness has a
// reproducer per id. An id is *active* when it is listed AND its canonical reproducer still
// fails on this tree. Only active ids exclude inputs / absorb matching failures.

type knownFinding struct {
	ID    string
	Prop  string
	What  string
	Repro func() bool // true = the defect still reproduces
}

var (
	kfOnce     sync.Once
	kfListed   = map[string]string{} // id → description from the file
	kfRegistry = map[string]*knownFinding{}
	kfActive   = map[string]bool{}
	kfMu       sync.Mutex
)

func registerKnown(k *knownFinding) { kfRegistry[k.ID] = k }

func loadKnownFile() {
	path := os.Getenv("VERIF_KF")
	if path == "" {
		path = "/verif/KNOWN_FINDINGS.txt"
	}
	f, err := os.Open(path)
	if err != nil {
		return
	}
	defer f.Close()
	sc := bufio.NewScanner(f)
	sc.Buffer(make([]byte, 1<<20), 1<<20)
	for sc.Scan() {
		line := strings.TrimSpace(sc.Text())
		if !strings.HasPrefix(line, "known:") {
			continue
		}
		id := ""
		for _, f := range strings.Fields(line) {
			if strings.HasPrefix(f, "id=") {
				id = strings.TrimPrefix(f, "id=")
			}
		}
		if id != "" {
			desc := line
			if i := strings.Index(line, "::"); i >= 0 {
				desc = strings.TrimSpace(line[i+2:])
			}
			kfListed[id] = desc
		}
	}
}

// known reports whether the known finding id is active (listed and still reproducing).
// The first query for a property's ids prints the KNOWN-FINDING line.
func known(id string) bool {
	kfOnce.Do(loadKnownFile)
	kfMu.Lock()
	defer kfMu.Unlock()
	if v, ok := kfActive[id]; ok {
		return v
	}
	k := kfRegistry[id]
	_, listed := kfListed[id]
	act := false
	if k != nil && listed {
		func() {
			defer func() {
				if r := recover(); r != nil {
					act = true // a reproducer that panics is still the defect showing
				}
			}()
			act = k.Repro()
		}()
		if act {
			fmt.Printf("KNOWN-FINDING: property=%s id=%s %s\n", k.Prop, id, kfListed[id])
		} else {
			fmt.Printf("NOTE: listed finding %s (property %s) no longer reproduces on this tree; nothing is suppressed for it\n", id, k.Prop)
		}
	}
	kfActive[id] = act
	return act
}

// regressCases decodes every committed regression case of a property (regress/<ID>/*.json) and
// hands it to run; triaged shrunk failures are replayed first by every run.
func regressCases(t testing.TB, prop string, mk func() interface{}, run func(name string, c interface{})) {
	dir := os.Getenv("VERIF_REGRESS")
	if dir == "" {
		dir = filepath.Join("/verif/regress", prop)
	}
	files, _ := filepath.Glob(filepath.Join(dir, "*.json"))
	for _, f := range files {
		b, err := os.ReadFile(f)
		if err != nil {
			continue
		}
		var env replayEnvelope
		if json.Unmarshal(b, &env) != nil || env.Property != prop {
			continue
		}
		c := mk()
		if json.Unmarshal(env.Case, c) != nil {
			continue
		}
		run(filepath.Base(f), c)
	}
}

// markCurrent records the case that is about to run (<ID>-current-s<shard>.json). When the
// process dies without reaching a property failure (race detector halt, fatal stack overflow)
// the driver reports this file as the replay.
func markCurrent(prop, sub string, c interface{}) {
	dir := os.Getenv("VERIF_REPLAY_DIR")
	if dir == "" {
		return
	}
	os.MkdirAll(dir, 0o755)
	env := replayEnvelope{Property: prop, Sub: sub, Observed: "the process died while this case was running (see the log)"}
	env.Case, _ = json.Marshal(c)
	b, _ := json.Marshal(env)
	sh, _ := shard()
	os.WriteFile(filepath.Join(dir, fmt.Sprintf("%s-current-s%d.json", prop, sh)), b, 0o644)
}
