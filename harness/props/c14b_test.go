package props

import (
	"fmt"
	"runtime/debug"
	"testing"

	"github.com/graphql-go/graphql"
	"github.com/graphql-go/graphql/language/ast"
	"github.com/graphql-go/graphql/language/kinds"
	"github.com/graphql-go/graphql/language/visitor"
	"pgregory.net/rapid"

	"verif/gen"
	"verif/model"
	"verif/ref"
	"verif/stats"
	"verif/syn"
)

// C14, validation rules as parallel visitors: ValidateDocument runs its rules as parallel visitors over one traversal with
// type tracking. A rule that only looks (records the tracked types at every node) must observe what it would observe
// alone, whatever the rules beside it do with the validation context (DESIGN 13.1f).

// RuleProbe is a rule that, on entering nodes of the given kinds, asks the validation context for derived facts
// (variable usages, fragment spreads, referenced fragments) of every definition of the document.
type RuleProbe struct {
	Kinds []string `json:"kinds"`
	Call  string   `json:"call"` // usages | recursive | spreads | referenced | fragment
}

type RuleCase struct {
	Text      string      `json:"text"`
	Probes    []RuleProbe `json:"probes"`
	Before    int         `json:"before"`              // how many of the probes are registered before the recording rule
	Specified bool        `json:"specified,omitempty"` // the specified rules run beside them as well
}

type typeSource interface {
	Type() graphql.Output
	ParentType() graphql.Composite
	InputType() graphql.Input
	FieldDef() *graphql.FieldDefinition
	Directive() *graphql.Directive
	Argument() *graphql.Argument
}

func typeStateOf(ti typeSource) ref.TypeState {
	st := ref.TypeState{}
	if t := ti.Type(); t != nil && !isNilIface(t) {
		st.Type = t.String()
	}
	if t := ti.ParentType(); t != nil && !isNilIface(t) {
		st.ParentType = t.Name()
	}
	if t := ti.InputType(); t != nil && !isNilIface(t) {
		st.InputType = t.String()
	}
	if f := ti.FieldDef(); f != nil {
		st.FieldDef = f.Name
	}
	if d := ti.Directive(); d != nil {
		st.Directive = d.Name
	}
	if a := ti.Argument(); a != nil {
		st.Argument = a.Name()
	}
	return st
}

type ruleObs struct {
	Node  *syn.Node
	Types ref.TypeState
}

func recordingRule(byRef map[interface{}]*syn.Node, out *[]ruleObs) graphql.ValidationRuleFn {
	return func(ctx *graphql.ValidationContext) *graphql.ValidationRuleInstance {
		return &graphql.ValidationRuleInstance{VisitorOpts: &visitor.VisitorOptions{
			Enter: func(p visitor.VisitFuncParams) (string, interface{}) {
				if n, ok := byRef[p.Node]; ok {
					*out = append(*out, ruleObs{n, typeStateOf(ctx)})
				}
				return visitor.ActionNoChange, nil
			},
		}}
	}
}

func probingRule(pr RuleProbe) graphql.ValidationRuleFn {
	return func(ctx *graphql.ValidationContext) *graphql.ValidationRuleInstance {
		ask := func(p visitor.VisitFuncParams) (string, interface{}) {
			for _, def := range ctx.Document().Definitions {
				switch d := def.(type) {
				case *ast.OperationDefinition:
					switch pr.Call {
					case "usages":
						ctx.VariableUsages(d)
					case "recursive":
						ctx.RecursiveVariableUsages(d)
					case "spreads":
						ctx.FragmentSpreads(d.SelectionSet)
					case "referenced":
						ctx.RecursivelyReferencedFragments(d)
					}
				case *ast.FragmentDefinition:
					switch pr.Call {
					case "usages", "recursive":
						ctx.VariableUsages(d)
					case "spreads", "referenced":
						ctx.FragmentSpreads(d.SelectionSet)
					case "fragment":
						if d.Name != nil {
							ctx.Fragment(d.Name.Value)
						}
					}
				}
			}
			return visitor.ActionNoChange, nil
		}
		opts := &visitor.VisitorOptions{EnterKindMap: map[string]visitor.VisitFunc{}}
		for _, k := range pr.Kinds {
			opts.EnterKindMap[k] = ask
		}
		return &graphql.ValidationRuleInstance{VisitorOpts: opts}
	}
}

var ruleProbeKinds = []string{kinds.Variable, kinds.Argument, kinds.Directive, kinds.Field, kinds.Name, kinds.ObjectField, kinds.ListValue, kinds.ObjectValue,
	kinds.IntValue, kinds.StringValue, kinds.EnumValue, kinds.BooleanValue, kinds.InlineFragment, kinds.FragmentSpread, kinds.SelectionSet, kinds.VariableDefinition, kinds.OperationDefinition, kinds.FragmentDefinition}

func c14RulesOracle(c *RuleCase) (msg string, class string) {
	doc, err := libParse([]byte(c.Text))
	if err != nil {
		return "", "unparseable"
	}
	b, err := kitchen()
	if err != nil {
		return "HARNESS: " + err.Error(), ""
	}
	root := syn.FromLib(doc)
	byRef := map[interface{}]*syn.Node{}
	syn.Walk(root, func(n *syn.Node) {
		if n.Ref != nil {
			byRef[n.Ref] = n
		}
	})
	order := syn.Preorder(root)
	run := func(rules func(rec graphql.ValidationRuleFn) []graphql.ValidationRuleFn) (obs []ruleObs, pan string) {
		defer func() {
			if r := recover(); r != nil {
				pan = fmt.Sprint(r) + "\n" + string(debug.Stack())
			}
		}()
		graphql.ValidateDocument(&b.Schema, doc, rules(recordingRule(byRef, &obs)))
		return obs, ""
	}
	alone, pan := run(func(rec graphql.ValidationRuleFn) []graphql.ValidationRuleFn { return []graphql.ValidationRuleFn{rec} })
	if pan != "" {
		return "ValidateDocument with a recording rule panicked: " + pan, "validated"
	}
	// alone, the rule sees the types that apply at every position
	types := ref.TrackTypes(kitchenModel(), root)
	for i, o := range alone {
		ws := types[o.Node]
		if ws.InputUnspecified {
			continue
		}
		if o.Types != ws {
			return fmt.Sprintf("a rule running alone: at node %d (%s) the validation context reports %+v, want %+v", i, descr(o.Node, order), o.Types, ws), "validated"
		}
	}
	together, pan := run(func(rec graphql.ValidationRuleFn) []graphql.ValidationRuleFn {
		var rs []graphql.ValidationRuleFn
		for i, pr := range c.Probes {
			if i == c.Before {
				rs = append(rs, rec)
			}
			rs = append(rs, probingRule(pr))
		}
		if c.Before >= len(c.Probes) {
			rs = append(rs, rec)
		}
		if c.Specified {
			rs = append(rs, graphql.SpecifiedRules...)
		}
		return rs
	})
	if pan != "" {
		return "ValidateDocument with the rules together panicked: " + pan, "validated"
	}
	if len(together) != len(alone) {
		return fmt.Sprintf("the recording rule saw %d nodes alone and %d nodes beside other rules", len(alone), len(together)), "validated"
	}
	for i := range alone {
		if together[i] != alone[i] {
			return fmt.Sprintf("beside other rules the recording rule observes something else than alone: at node %d (%s) alone %+v, beside the others %+v\n  the other rules: %+v (specified rules: %v)",
				i, descr(alone[i].Node, order), alone[i].Types, together[i].Types, c.Probes, c.Specified), "validated"
		}
	}
	return "", "validated"
}

func TestC14_Rules(t *testing.T) {
	var rc RuleCase
	if loadReplay(t, "C14", &rc, "rules") {
		if msg, _ := c14RulesOracle(&rc); msg != "" {
			t.Fatalf("VERIF-FAIL property=C14 sub=rules replay=%s :: %s", replayFile(), msg)
		}
		return
	}
	rapid.Check(t, func(rt *rapid.T) {
		c := &RuleCase{}
		km := kitchenModel()
		if gen.Chance(rt, 70, "typeDirected") {
			d, _, _ := gen.Doc(rt, km, gen.DocOpts{Budget: 20})
			if gen.Chance(rt, 40, "inject") {
				if nd, _, ok := gen.InjectViolation(rt, km, d, gen.Uniform(rt, gen.NumInjectionOperators(), "operator")); ok {
					d = nd
				}
			}
			c.Text = model.Print(d, nil).Text
		} else {
			c.Text = syn.Render(rt, syn.GenDocumentTokensWith(rt, "exec", kitchenVocabulary), false)
		}
		for i, n := 0, gen.Intn(rt, 1, 3, "nProbes"); i < n; i++ {
			pr := RuleProbe{Call: []string{"usages", "recursive", "spreads", "referenced", "fragment"}[gen.Uniform(rt, 5, "call")]}
			for j, k := 0, gen.Intn(rt, 1, 4, "nKinds"); j < k; j++ {
				pr.Kinds = append(pr.Kinds, ruleProbeKinds[gen.Uniform(rt, len(ruleProbeKinds), "kind")])
			}
			c.Probes = append(c.Probes, pr)
		}
		c.Before = gen.Uniform(rt, len(c.Probes)+1, "before")
		c.Specified = gen.Chance(rt, 40, "specified")
		msg, class := c14RulesOracle(c)
		stats.R.Class("rules_" + class)
		if c.Specified {
			stats.R.Class("rules_beside_the_specified_rules")
		}
		stats.R.Case(caseKey(c), class == "validated", func() interface{} { return c })
		if msg != "" {
			violation(rt, "C14", "rules", c, "%s\n  document: %q", msg, c.Text)
		}
	})
}
