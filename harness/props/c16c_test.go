package props

import (
	"context"
	"errors"
	"fmt"
	"testing"
	"time"

	"github.com/graphql-go/graphql"

	"verif/stats"
)

// C16, selections resolved by the default resolver: no field has a Resolve function, the root value is a map whose
// entries are plain values or func() interface{} values that block (user code all the same). The context ends while such
// a function is blocked: the call returns promptly with no data and exactly the context's error.
func TestC16_DefaultResolver(t *testing.T) {
	if replayFile() != "" {
		t.Skip()
	}
	q := graphql.NewObject(graphql.ObjectConfig{Name: "Q", Fields: graphql.Fields{
		"slow": &graphql.Field{Type: graphql.String}, "fast": &graphql.Field{Type: graphql.String}, "n": &graphql.Field{Type: graphql.Int}}})
	schema, err := graphql.NewSchema(graphql.SchemaConfig{Query: q})
	if err != nil {
		t.Fatalf("HARNESS: %v", err)
	}
	queries := []string{`{ slow }`, `{ fast slow n }`, `{ a: slow b: fast }`, `query Q { n fast slow }`}
	for i, text := range queries {
		for _, kind := range []string{"cancel", "deadline"} {
			for _, entry := range []string{"do", "plan"} {
				c := map[string]interface{}{"query": text, "kind": kind, "entry": entry}
				entered := make(chan struct{}, 4)
				gate := make(chan struct{})
				root := map[string]interface{}{"fast": "f", "n": 3, "slow": func() interface{} {
					entered <- struct{}{}
					<-gate
					return "s"
				}}
				ctx, cancel := context.WithCancel(context.Background())
				wantErr := context.Canceled
				if kind == "deadline" {
					ctx, cancel = context.WithTimeout(context.Background(), time.Hour)
					wantErr = context.DeadlineExceeded
				}
				end := cancel
				if kind == "deadline" {
					// a deadline that passes while the function is blocked: re-arm the context with a short one
					cancel()
					ctx, cancel = context.WithTimeout(context.Background(), 150*time.Millisecond)
					end = func() {}
				}
				resCh := make(chan *graphql.Result, 1)
				go func() {
					if entry == "plan" {
						doc, _ := parseText(text)
						plan, perr := graphql.PlanQuery(&schema, doc, "")
						if perr != nil {
							resCh <- &graphql.Result{}
							return
						}
						resCh <- graphql.ExecutePlan(plan, graphql.ExecuteParams{Schema: schema, Root: root, Context: ctx})
						return
					}
					resCh <- graphql.Do(graphql.Params{Schema: schema, RequestString: text, RootObject: root, Context: ctx})
				}()
				var res *graphql.Result
				select {
				case <-entered:
					end()
				case res = <-resCh:
					// answered without ever calling the function: only the context error can explain that (deadline first)
				case <-time.After(20 * time.Second):
					close(gate)
					cancel()
					violation(t, "C16", "defaultresolver", c, "the blocking source function of field slow was never called and the call did not return\n  query: %s", text)
				}
				if res == nil {
					select {
					case res = <-resCh:
					case <-time.After(20 * time.Second):
						close(gate)
						cancel()
						violation(t, "C16", "defaultresolver", c, "the call did not return within 20 s after the context ended (%v) while the source function of field slow is still blocked: it waits for it\n  query: %s (entry %s)", wantErr, text, entry)
					}
				}
				close(gate)
				cancel()
				stats.R.Class("default_resolver_" + kind)
				stats.R.Case(fmt.Sprintf("defres/%d/%s/%s", i, kind, entry), true, func() interface{} { return c })
				ok := res != nil && res.Data == nil && len(res.Errors) == 1 && (res.Errors[0].Message == wantErr.Error() || errors.Is(res.Errors[0].OriginalError(), wantErr))
				if !ok {
					violation(t, "C16", "defaultresolver", c, "context ended (%v) while the source function of field slow was blocked: want no data and exactly the context's error, got data=%s errors=%v\n  query: %s (entry %s)", wantErr, canonJSON(res.Data), res.Errors, text, entry)
				}
			}
		}
	}
}
