package props

import (
	"fmt"
	"reflect"
	"runtime/debug"
	"sort"
	"strings"
	"testing"

	"github.com/graphql-go/graphql"
	"github.com/graphql-go/graphql/language/visitor"
	"pgregory.net/rapid"

	"verif/gen"
	"verif/model"
	"verif/ref"
	"verif/stats"
	"verif/syn"
)

// C14 — AST traversal visits every node once, in order, honouring skip and break.

type PolicyEntry struct {
	Index  int    `json:"index"` // pre-order index of the node
	Phase  string `json:"phase"` // enter / leave
	Action string `json:"action"`
}

type VisitorSpec struct {
	Form   int           `json:"form"` // 0 KindFuncMap{Kind,Leave} 1 KindFuncMap{Enter,Leave} 2 generic 3 Enter/LeaveKindMap 4 mixture 5 KindFuncMap for some kinds only 6 Enter/LeaveKindMap for some kinds only
	Policy []PolicyEntry `json:"policy"`
	// Subset: for form 4, the kinds handled through KindFuncMap{Kind} only (no leave callback)
	Subset []string `json:"subset,omitempty"`
	// SubsetLeave: for form 6, the kinds with a leave-by-kind function (Subset: enter-by-kind).
	// Forms 5 and 6 have no callback at all for the other nodes.
	SubsetLeave []string `json:"subsetLeave,omitempty"`
}

type VisitCase struct {
	// KeyDrop: "Kind.Key" child slots left out of the key map handed to Visit (empty = the default key map, nil)
	KeyDrop  []string      `json:"keyDrop,omitempty"`
	Text     string        `json:"text"`
	Visitors []VisitorSpec `json:"visitors"` // 1 = plain Visit; >1 = VisitInParallel
	TypeInfo bool          `json:"typeInfo"` // wrap in VisitWithTypeInfo over the kitchen schema
}

var allKinds = []string{"Name", "Document", "OperationDefinition", "VariableDefinition", "Variable", "SelectionSet", "Field", "Argument", "FragmentSpread",
	"InlineFragment", "FragmentDefinition", "IntValue", "FloatValue", "StringValue", "BooleanValue", "EnumValue", "ListValue", "ObjectValue", "ObjectField",
	"Directive", "Named", "List", "NonNull", "SchemaDefinition", "OperationTypeDefinition", "ScalarDefinition", "ObjectDefinition", "FieldDefinition",
	"InputValueDefinition", "InterfaceDefinition", "UnionDefinition", "EnumDefinition", "EnumValueDefinition", "InputObjectDefinition", "TypeExtensionDefinition", "DirectiveDefinition"}

type obsEvent struct {
	Phase     string
	Node      *syn.Node
	Key       interface{}
	Parent    *syn.Node
	ParentNil bool
	Ancestors []*syn.Node
	Path      []interface{}
	Types     *ref.TypeState
	Alien     string // node that is not part of the tree
}

func (s *VisitorSpec) action(index int, phase string) string {
	for _, p := range s.Policy {
		if p.Index == index && p.Phase == phase {
			return p.Action
		}
	}
	return visitor.ActionNoChange
}

func (s *VisitorSpec) observes(kind, phase string) bool {
	in := func(l []string) bool {
		for _, k := range l {
			if k == kind {
				return true
			}
		}
		return false
	}
	switch s.Form {
	case 5: // kind-specific functions for some kinds only, nothing generic: the other nodes are silent
		return in(s.Subset)
	case 6: // enter-by-kind and leave-by-kind maps over different subsets
		if phase == "enter" {
			return in(s.Subset)
		}
		return in(s.SubsetLeave)
	}
	if s.Form == 4 {
		for _, k := range s.Subset {
			if k == kind {
				return phase == "enter"
			}
		}
	}
	return true
}

// buildVisitor turns a spec into VisitorOptions whose callbacks record what they are told.
func buildVisitor(spec *VisitorSpec, byRef map[interface{}]*syn.Node, order map[*syn.Node]int, ti *graphql.TypeInfo, out *[]obsEvent, trap *string) *visitor.VisitorOptions {
	cb := func(phase string) visitor.VisitFunc {
		return func(p visitor.VisitFuncParams) (string, interface{}) {
			ev := obsEvent{Phase: phase, Key: p.Key}
			n, ok := byRef[p.Node]
			if !ok {
				ev.Alien = fmt.Sprintf("%T", p.Node)
				*out = append(*out, ev)
				return visitor.ActionNoChange, nil
			}
			ev.Node = n
			if p.Parent == nil || isNilIface(p.Parent) {
				ev.ParentNil = true
			} else {
				ev.Parent = byRef[p.Parent]
			}
			for _, a := range p.Ancestors {
				if a == nil || isNilIface(a) {
					ev.Ancestors = append(ev.Ancestors, nil)
				} else {
					ev.Ancestors = append(ev.Ancestors, byRef[a])
				}
			}
			ev.Path = append([]interface{}(nil), p.Path...)
			if ti != nil && phase == "enter" {
				st := ref.TypeState{}
				if t := ti.Type(); t != nil && !isNilIface(t) {
					st.Type = t.String()
				}
				if t := ti.ParentType(); t != nil && !isNilIface(t) {
					st.ParentType = t.Name()
				}
				if t := ti.InputType(); t != nil && !isNilIface(t) {
					st.InputType = t.String()
				}
				if f := ti.FieldDef(); f != nil {
					st.FieldDef = f.Name
				}
				if d := ti.Directive(); d != nil {
					st.Directive = d.Name
				}
				if a := ti.Argument(); a != nil {
					st.Argument = a.Name()
				}
				ev.Types = &st
			}
			*out = append(*out, ev)
			return spec.action(order[n], phase), nil
		}
	}
	trapFn := func(what string) visitor.VisitFunc {
		return func(p visitor.VisitFuncParams) (string, interface{}) {
			*trap = what
			return visitor.ActionNoChange, nil
		}
	}
	opts := &visitor.VisitorOptions{}
	switch spec.Form {
	case 0:
		opts.KindFuncMap = map[string]visitor.NamedVisitFuncs{}
		for _, k := range allKinds {
			opts.KindFuncMap[k] = visitor.NamedVisitFuncs{Kind: cb("enter"), Leave: cb("leave"), Enter: trapFn("KindFuncMap.Enter called although Kind is set")}
		}
		opts.Enter, opts.Leave = trapFn("generic Enter called although KindFuncMap has the kind"), trapFn("generic Leave called although KindFuncMap has the kind")
	case 1:
		opts.KindFuncMap = map[string]visitor.NamedVisitFuncs{}
		for _, k := range allKinds {
			opts.KindFuncMap[k] = visitor.NamedVisitFuncs{Enter: cb("enter"), Leave: cb("leave")}
		}
	case 2:
		opts.Enter, opts.Leave = cb("enter"), cb("leave")
		opts.EnterKindMap, opts.LeaveKindMap = map[string]visitor.VisitFunc{}, map[string]visitor.VisitFunc{}
		for _, k := range allKinds {
			opts.EnterKindMap[k] = trapFn("EnterKindMap called although a generic Enter exists")
			opts.LeaveKindMap[k] = trapFn("LeaveKindMap called although a generic Leave exists")
		}
	case 3:
		opts.EnterKindMap, opts.LeaveKindMap = map[string]visitor.VisitFunc{}, map[string]visitor.VisitFunc{}
		for _, k := range allKinds {
			opts.EnterKindMap[k] = cb("enter")
			opts.LeaveKindMap[k] = cb("leave")
		}
	case 5:
		opts.KindFuncMap = map[string]visitor.NamedVisitFuncs{}
		for _, k := range spec.Subset {
			opts.KindFuncMap[k] = visitor.NamedVisitFuncs{Enter: cb("enter"), Leave: cb("leave")}
		}
	case 6:
		opts.EnterKindMap, opts.LeaveKindMap = map[string]visitor.VisitFunc{}, map[string]visitor.VisitFunc{}
		for _, k := range spec.Subset {
			opts.EnterKindMap[k] = cb("enter")
		}
		for _, k := range spec.SubsetLeave {
			opts.LeaveKindMap[k] = cb("leave")
		}
	default:
		opts.KindFuncMap = map[string]visitor.NamedVisitFuncs{}
		for _, k := range spec.Subset {
			opts.KindFuncMap[k] = visitor.NamedVisitFuncs{Kind: cb("enter")}
		}
		opts.Enter, opts.Leave = cb("enter"), cb("leave")
	}
	return opts
}

func isNilIface(x interface{}) bool {
	if x == nil {
		return true
	}
	v := reflect.ValueOf(x)
	switch v.Kind() {
	case reflect.Ptr, reflect.Map, reflect.Slice, reflect.Interface:
		return v.IsNil()
	}
	return false
}

func sameNodes(a, b []*syn.Node) bool {
	if len(a) != len(b) {
		return false
	}
	for i := range a {
		if a[i] != b[i] {
			return false
		}
	}
	return true
}

func descr(n *syn.Node, order map[*syn.Node]int) string {
	if n == nil {
		return "nil"
	}
	return fmt.Sprintf("%s#%d", n.Kind, order[n])
}

func compareEvents(want []syn.WalkEvent, got []obsEvent, order map[*syn.Node]int, types map[*syn.Node]ref.TypeState) string {
	for i := 0; i < len(want) || i < len(got); i++ {
		if i >= len(got) {
			return fmt.Sprintf("event %d missing: want %s %s (got %d events, want %d)", i, want[i].Phase, descr(want[i].Node, order), len(got), len(want))
		}
		g := got[i]
		if g.Alien != "" {
			return fmt.Sprintf("event %d: callback received a %s that is not a node of the tree", i, g.Alien)
		}
		if i >= len(want) {
			return fmt.Sprintf("event %d unexpected: got %s %s (want only %d events)", i, g.Phase, descr(g.Node, order), len(want))
		}
		w := want[i]
		if g.Phase != w.Phase || g.Node != w.Node {
			return fmt.Sprintf("event %d: got %s %s, want %s %s", i, g.Phase, descr(g.Node, order), w.Phase, descr(w.Node, order))
		}
		at := fmt.Sprintf("event %d (%s %s)", i, w.Phase, descr(w.Node, order))
		if fmt.Sprint(g.Key) != fmt.Sprint(w.Key) || (g.Key == nil) != (w.Key == nil) {
			return fmt.Sprintf("%s: Key = %v, want %v", at, g.Key, w.Key)
		}
		if w.Parent == nil {
			if !g.ParentNil {
				return fmt.Sprintf("%s: Parent = %s, want nil", at, descr(g.Parent, order))
			}
		} else if g.Parent != w.Parent {
			return fmt.Sprintf("%s: Parent = %s, want %s", at, descr(g.Parent, order), descr(w.Parent, order))
		}
		// Ancestors: containers above Parent; a leading nil ("above the root") is tolerated
		wa, ga := w.Ancestors, g.Ancestors
		if !sameNodes(wa, ga) && !(len(wa) > 0 && wa[0] == nil && sameNodes(wa[1:], ga)) {
			var ws, gs []string
			for _, a := range wa {
				ws = append(ws, descr(a, order))
			}
			for _, a := range ga {
				gs = append(gs, descr(a, order))
			}
			return fmt.Sprintf("%s: Ancestors = %v, want %v", at, gs, ws)
		}
		if w.Phase == "enter" {
			if fmt.Sprint(g.Path) != fmt.Sprint(w.Path) {
				return fmt.Sprintf("%s: Path = %v, want %v", at, g.Path, w.Path)
			}
			if g.Types != nil && types != nil {
				ws := types[w.Node]
				gs := *g.Types
				if !ws.InputUnspecified {
					ws.InputUnspecified = false
					if gs != ws {
						return fmt.Sprintf("%s: type tracking reports %+v, want %+v", at, gs, ws)
					}
				}
			}
		}
	}
	return ""
}

func c14Oracle(c *VisitCase) (msg string, class string) {
	doc, err := libParse([]byte(c.Text))
	if err != nil {
		return "", "unparseable"
	}
	if _, rerr := syn.ParseDocument([]byte(c.Text)); rerr != nil {
		return "", "not_in_grammar"
	}
	root := syn.FromLib(doc)
	before := root.Dump(true)
	byRef := map[interface{}]*syn.Node{}
	syn.Walk(root, func(n *syn.Node) {
		if n.Ref != nil {
			byRef[n.Ref] = n
		}
	})
	order := syn.Preorder(root)
	var types map[*syn.Node]ref.TypeState
	var ti *graphql.TypeInfo
	if c.TypeInfo {
		b, err := kitchen()
		if err != nil {
			return "HARNESS: " + err.Error(), ""
		}
		types = ref.TrackTypes(kitchenModel(), root)
		ti = graphql.NewTypeInfo(&graphql.TypeInfoConfig{Schema: &b.Schema})
	}
	// a custom key map: the default one without the dropped slots (order kept)
	var keyMap visitor.KeyMap
	var allowed map[string]map[string]bool
	if len(c.KeyDrop) > 0 && ti == nil {
		drop := map[string]bool{}
		for _, d := range c.KeyDrop {
			drop[d] = true
		}
		keyMap = visitor.KeyMap{}
		allowed = map[string]map[string]bool{}
		for kind, keys := range visitor.QueryDocumentKeys {
			allowed[kind] = map[string]bool{}
			var kept []string
			for _, k := range keys {
				if !drop[kind+"."+k] {
					kept = append(kept, k)
					allowed[kind][k] = true
				}
			}
			keyMap[kind] = kept
		}
	}
	useKeyMap := keyMap
	run := func() (string, [][]obsEvent) {
		obs := make([][]obsEvent, len(c.Visitors))
		var opts []*visitor.VisitorOptions
		trap := ""
		for i := range c.Visitors {
			opts = append(opts, buildVisitor(&c.Visitors[i], byRef, order, ti, &obs[i], &trap))
		}
		var top *visitor.VisitorOptions
		if len(opts) == 1 {
			top = opts[0]
		} else {
			top = visitor.VisitInParallel(opts...)
		}
		if ti != nil {
			top = visitor.VisitWithTypeInfo(ti, top)
		}
		pan := ""
		func() {
			defer func() {
				if r := recover(); r != nil {
					pan = fmt.Sprint(r) + "\n" + string(debug.Stack())
				}
			}()
			visitor.Visit(doc, top, useKeyMap)
		}()
		if pan != "" {
			return "traversal panicked: " + pan, nil
		}
		if trap != "" {
			return "visitor form precedence: " + trap, nil
		}
		return "", obs
	}
	m, obs := run()
	if m != "" {
		return m, "visited"
	}
	for i := range c.Visitors {
		spec := &c.Visitors[i]
		want := syn.RefWalkKeys(root, func(index int, phase string, n *syn.Node) string { return spec.action(index, phase) }, spec.observes, allowed)
		if d := compareEvents(want, obs[i], order, types); d != "" {
			who := "visitor"
			if allowed != nil {
				who = fmt.Sprintf("visitor under a key map without %v", c.KeyDrop)
			}
			if len(c.Visitors) > 1 {
				who = fmt.Sprintf("parallel visitor %d of %d", i, len(c.Visitors))
			}
			return fmt.Sprintf("%s (form %d, policy %v): %s", who, spec.Form, spec.Policy, d), "visited"
		}
	}
	if after := syn.FromLib(doc).Dump(true); after != before {
		return "a traversal that requested no edits changed the tree", "visited"
	}
	if allowed != nil {
		// and the default key map again, after the custom one was used in this process
		useKeyMap = nil
		m3, obs3 := run()
		if m3 != "" {
			return "traversal with the default key map after one with a custom key map: " + m3, "visited"
		}
		for i := range c.Visitors {
			spec := &c.Visitors[i]
			want := syn.RefWalk(root, func(index int, phase string, n *syn.Node) string { return spec.action(index, phase) }, spec.observes)
			if d := compareEvents(want, obs3[i], order, nil); d != "" {
				return fmt.Sprintf("traversal with the default key map after one with a custom key map (without %v): %s", c.KeyDrop, d), "visited"
			}
		}
		return "", "visited"
	}
	if ti == nil {
		m2, obs2 := run()
		if m2 != "" {
			return "second traversal: " + m2, "visited"
		}
		for i := range obs {
			if len(obs[i]) != len(obs2[i]) {
				return fmt.Sprintf("visiting the same tree twice gave %d then %d events", len(obs[i]), len(obs2[i])), "visited"
			}
		}
	}
	return "", "visited"
}

func TestC14(t *testing.T) {
	var rc VisitCase
	if loadReplay(t, "C14", &rc) {
		if msg, _ := c14Oracle(&rc); msg != "" {
			t.Fatalf("VERIF-FAIL property=C14 sub=visit replay=%s :: %s", replayFile(), msg)
		}
		return
	}
	rapid.Check(t, func(rt *rapid.T) {
		c := &VisitCase{}
		c.TypeInfo = gen.Chance(rt, 35, "typeInfo")
		var toks []string
		kind := "exec"
		typed := false
		if c.TypeInfo {
			if gen.Chance(rt, 50, "typeDirected") {
				// a document built from the schema's types (values of the right shape at every
				// input position, list-of-one literals, variables), optionally with one violation
				km := kitchenModel()
				d, _, _ := gen.Doc(rt, km, gen.DocOpts{Budget: 20})
				if gen.Chance(rt, 40, "inject") {
					if nd, _, ok := gen.InjectViolation(rt, km, d, gen.Uniform(rt, gen.NumInjectionOperators(), "operator")); ok {
						d = nd
					}
				}
				c.Text = model.Print(d, nil).Text
				typed = true
			} else {
				toks = syn.GenDocumentTokensWith(rt, "exec", kitchenVocabulary)
			}
		} else {
			kind = []string{"exec", "schema", "mixed"}[gen.Uniform(rt, 3, "kind")]
			toks = syn.GenDocumentTokens(rt, kind)
		}
		if !typed {
			c.Text = syn.Render(rt, toks, false)
		}
		// number of nodes, to aim policies at existing indices
		nNodes := 1
		if d, err := libParse([]byte(c.Text)); err == nil {
			nNodes = len(syn.Preorder(syn.FromLib(d)))
		}
		nVis := 1
		if gen.Chance(rt, 35, "parallel") {
			nVis = gen.Intn(rt, 2, 4, "nVisitors")
		}
		nonTrivialPolicy := false
		for v := 0; v < nVis; v++ {
			spec := VisitorSpec{Form: gen.Uniform(rt, 7, "form")}
			if spec.Form >= 4 {
				for _, k := range allKinds {
					if gen.Chance(rt, 25, "subset") {
						spec.Subset = append(spec.Subset, k)
					}
					if spec.Form == 6 && gen.Chance(rt, 25, "subsetLeave") {
						spec.SubsetLeave = append(spec.SubsetLeave, k)
					}
				}
			}
			for i, n := 0, gen.Intn(rt, 0, 3, "nPolicy"); i < n; i++ {
				e := PolicyEntry{Index: gen.Uniform(rt, 256, "idx") * nNodes / 256, Phase: []string{"enter", "enter", "leave"}[gen.Uniform(rt, 3, "phase")],
					Action: []string{visitor.ActionSkip, visitor.ActionSkip, visitor.ActionBreak}[gen.Uniform(rt, 3, "action")]}
				spec.Policy = append(spec.Policy, e)
				nonTrivialPolicy = true
			}
			c.Visitors = append(c.Visitors, spec)
		}
		if !c.TypeInfo && gen.Chance(rt, 30, "customKeyMap") {
			var slots []string
			for kind, keys := range visitor.QueryDocumentKeys {
				for _, k := range keys {
					slots = append(slots, kind+"."+k)
				}
			}
			sort.Strings(slots)
			for i, n := 0, gen.Intn(rt, 1, 6, "nDropped"); i < n; i++ {
				c.KeyDrop = append(c.KeyDrop, slots[gen.Uniform(rt, len(slots), "droppedSlot")])
			}
		}
		msg, class := c14Oracle(c)
		stats.R.Class(class)
		if class == "visited" && len(c.KeyDrop) > 0 {
			stats.R.Class("custom_key_map")
		}
		if class == "visited" {
			stats.R.Class(fmt.Sprintf("visitors_%d", nVis))
			if c.TypeInfo {
				stats.R.Class("type_tracking")
			}
			if typed {
				stats.R.Class("type_directed_document")
			}
			if nonTrivialPolicy {
				stats.R.Class("skip_or_break_in_policy")
			}
			stats.R.Class("kind_" + kind)
		}
		nt := class == "visited" && (nonTrivialPolicy || nVis > 1 || kind != "exec")
		stats.R.Case(caseKey(c), nt, func() interface{} { return c })
		if msg != "" {
			violation(rt, "C14", "visit", c, "%s\n  document: %q", msg, strings.TrimSpace(c.Text))
		}
	})
}
