package props

import (
	"bytes"
	"fmt"
	"os"
	"path/filepath"
	"strings"
	"testing"

	"github.com/graphql-go/graphql/language/ast"
	"github.com/graphql-go/graphql/language/parser"
	"github.com/graphql-go/graphql/language/source"
	"pgregory.net/rapid"

	"verif/stats"
	"verif/syn"
)

// C03 — the parser accepts exactly the grammar and builds the AST it defines.

type TextCase struct {
	Text string `json:"text"`
	Mode string `json:"mode,omitempty"` // "document" (default) or "value"
}

func init() {
	registerKnown(&knownFinding{ID: "KF-C03-typeref", Prop: "C03",
		What: "parser accepts malformed type references", Repro: func() bool {
			_, err := libParse([]byte(`query($a:[Int}){f}`))
			return err == nil
		}})
	registerKnown(&knownFinding{ID: "KF-C03-offsets", Prop: "C03",
		What: "name tokens after a multi-byte character in the preceding ignored run are located in rune offsets and lexing resumes at the wrong byte", Repro: func() bool {
			doc, err := libParse([]byte("{ a #\u00e9\n bc }"))
			if err != nil {
				return true
			}
			n := syn.FromLib(doc)
			cnt := 0
			syn.Walk(n, func(x *syn.Node) {
				if x.Kind == "Field" {
					cnt++
				}
			})
			return cnt != 2
		}})
}

func libParse(text []byte) (doc *ast.Document, err error) {
	body := append([]byte(nil), text...)
	return parser.Parse(parser.ParseParams{Source: &source.Source{Body: body, Name: "GraphQL request"}})
}

// offsetsAffected reports whether the known lexer-offset finding can act on text: a byte
// >= 0x80 in an ignored run that is followed (anywhere later) by a Name token, or in a region
// the reference lexer could not tokenise.
func offsetsAffected(text []byte) bool {
	toks, lerr := syn.Lex(text)
	prevEnd := 0
	dirty := false
	for _, tk := range toks {
		if hasHigh(text[prevEnd:tk.Start]) {
			dirty = true
		}
		if dirty && tk.Kind == syn.Name {
			return true
		}
		prevEnd = tk.End
	}
	if lerr != nil {
		return dirty || hasHigh(text[prevEnd:])
	}
	return false
}

func hasHigh(b []byte) bool {
	for _, c := range b {
		if c >= 0x80 {
			return true
		}
	}
	return false
}

// c03Compare is the differential oracle. It returns a violation message ("" = agreement), a
// class for the histogram and whether the case was absorbed by an active known finding.
func c03Compare(tc *TextCase) (msg, class string, absorbed string) {
	text := []byte(tc.Text)
	body := append([]byte(nil), text...)
	src := &source.Source{Body: body, Name: "GraphQL request"}
	var libNode *syn.Node
	var libErr error
	var refNode *syn.Node
	var refErr *syn.SyntaxError
	panicked := ""
	func() {
		defer func() {
			if r := recover(); r != nil {
				panicked = fmt.Sprint(r)
			}
		}()
		if tc.Mode == "value" {
			v, err := parser.ParseValue(parser.ParseParams{Source: src})
			libErr = err
			if err == nil {
				libNode = syn.FromLibValue(v)
			}
		} else {
			d, err := parser.Parse(parser.ParseParams{Source: src})
			libErr = err
			if err == nil {
				libNode = syn.FromLib(d)
			}
		}
	}()
	if panicked != "" {
		return fmt.Sprintf("parser panicked: %s\n  input: %q", panicked, tc.Text), "panic", ""
	}
	if tc.Mode == "value" {
		refNode, refErr = syn.ParseValueText(text)
	} else {
		refNode, refErr = syn.ParseDocument(text)
	}
	if known("KF-C03-offsets") && offsetsAffected(text) {
		// acceptance and AST cannot be compared on this input; the source must still be intact
		if !bytes.Equal(body, text) {
			return fmt.Sprintf("parsing modified the source it was given\n  before: %q\n  after:  %q", tc.Text, body), "source_modified", ""
		}
		return "", "excluded_offsets", "KF-C03-offsets"
	}
	if !bytes.Equal(body, text) {
		return fmt.Sprintf("parsing modified the source it was given\n  before: %q\n  after:  %q", tc.Text, body), "source_modified", ""
	}
	switch {
	case refErr != nil && libErr == nil:
		if refErr.InTypeRef && known("KF-C03-typeref") {
			return "", "known_typeref", "KF-C03-typeref"
		}
		return fmt.Sprintf("library accepts a string that is not derivable from the grammar (%s at byte %d)\n  input: %q\n  library AST: %s",
			refErr.Msg, refErr.Pos, tc.Text, libNode.Dump(false)), "lib_accepts_invalid", ""
	case refErr == nil && libErr != nil:
		return fmt.Sprintf("library rejects a string derivable from the grammar: %v\n  input: %q\n  reference AST: %s",
			oneLine(libErr.Error()), tc.Text, refNode.Dump(false)), "lib_rejects_valid", ""
	case refErr != nil && libErr != nil:
		return "", "both_reject", ""
	}
	if d := syn.Diff(refNode, libNode, true); d != "" {
		return fmt.Sprintf("AST differs from the grammar's: %s\n  input: %q\n  reference: %s\n  library:   %s", d, tc.Text, refNode.Dump(true), libNode.Dump(true)), "ast_differs", ""
	}
	return "", "both_accept", ""
}

func oneLine(s string) string {
	if i := strings.Index(s, "\n"); i >= 0 {
		return s[:i]
	}
	return s
}

func c03Record(tc *TextCase, class, absorbed string, nontrivial bool) {
	stats.R.Class(class)
	if absorbed != "" {
		stats.R.KnownHit(absorbed)
	}
	stats.R.Case(tc.Mode+"|"+tc.Text, nontrivial, func() interface{} { return tc.Text })
}

// ---------------------------------------------------------------------------------------------
// (a) bounded exhaustive enumeration of token strings

var enumAlphabet = []string{"!", "$", "(", ")", "...", ":", "=", "@", "[", "]", "{", "|", "}", "&",
	"1", "1.5", `"s"`, `"""b"""`,
	"a", "on", "query", "mutation", "subscription", "fragment", "true", "false", "null", "type", "extend", "implements", "enum"}

// enumerate calls f for every token string of exactly length n over alphabet whose index
// (in lexicographic order) is congruent to part modulo parts.
func enumerate(alphabet []string, n int, part, parts int, prefix string, f func(string)) int {
	idx := make([]int, n)
	count := 0
	total := 1
	for i := 0; i < n; i++ {
		total *= len(alphabet)
	}
	var sb strings.Builder
	for k := part; k < total; k += parts {
		x := k
		for i := n - 1; i >= 0; i-- {
			idx[i] = x % len(alphabet)
			x /= len(alphabet)
		}
		sb.Reset()
		sb.WriteString(prefix)
		for i, j := range idx {
			if i > 0 || prefix != "" {
				sb.WriteByte(' ')
			}
			sb.WriteString(alphabet[j])
		}
		f(sb.String())
		count++
	}
	return count
}

func TestC03_Enum(t *testing.T) {
	if replayFile() != "" {
		t.Skip()
	}
	sh, shards := shard()
	maxFull := envInt("VERIF_C03_FULL", 3)     // lengths enumerated completely by every run
	sliceLen := envInt("VERIF_C03_SLICE", 4)   // one more length, of which this run takes a slice
	sliceParts := envInt("VERIF_C03_PARTS", 8) // the slice is 1/sliceParts of that length (chosen by seed)
	seed := envInt("VERIF_SEED", 1)
	check := func(s string) {
		tc := &TextCase{Text: s}
		msg, class, absorbed := c03Compare(tc)
		c03Record(tc, class, absorbed, class != "both_reject" || strings.Count(s, " ") >= 2)
		if msg != "" {
			violation(t, "C03", "enum", tc, "%s", msg)
		}
	}
	if sh == 0 {
		for n := 0; n <= maxFull; n++ {
			enumerate(enumAlphabet, n, 0, 1, "", check)
		}
		stats.R.SetExhaustive(fmt.Sprintf("token strings of length <= %d over %d tokens", maxFull, len(enumAlphabet)), true)
		// type references in variable-definition and field-definition position
		ta := []string{"[", "]", "!", "a"}
		for n := 0; n <= 6; n++ {
			enumerate(ta, n, 0, 1, "query ( $ v :", func(s string) { check(s + " ) { f }") })
			enumerate(ta, n, 0, 1, "type T { f :", func(s string) { check(s + " }") })
		}
		stats.R.SetExhaustive("type references: all sequences of length <= 6 over [ ] ! a in variable and field definitions", true)
		// type-system definition bodies
		tsa := []string{"{", "}", "(", ")", ":", "a", "=", "@", "1", `"d"`, "&", "|"}
		for _, pre := range []string{"type a", "input a", "enum a", "interface a", "union a", "schema", "directive @ a", "extend type a", "scalar a"} {
			for n := 0; n <= 4; n++ {
				enumerate(tsa, n, 0, 1, pre, check)
			}
		}
		stats.R.SetExhaustive("type-system definitions: 9 prefixes x all continuations of length <= 4 over 12 tokens", true)
	}
	if sliceLen > maxFull {
		parts := sliceParts * shards
		part := (seed%sliceParts)*shards + sh
		if sliceParts == 1 {
			part = sh
		}
		enumerate(enumAlphabet, sliceLen, part, parts, "", check)
		stats.R.SetExhaustive(fmt.Sprintf("token strings of length %d over %d tokens", sliceLen, len(enumAlphabet)), sliceParts == 1)
	}
}

// ---------------------------------------------------------------------------------------------
// (b) grammar-generated documents under hostile layout, (c) their mutations

func TestC03_Gen(t *testing.T) {
	var rc TextCase
	if loadReplay(t, "C03", &rc) {
		if msg, _, _ := c03Compare(&rc); msg != "" {
			t.Fatalf("VERIF-FAIL property=C03 sub=gen replay=%s :: %s", replayFile(), msg)
		}
		return
	}
	rapid.Check(t, func(rt *rapid.T) {
		kind := []string{"exec", "schema", "mixed", "value"}[rapid.IntRange(0, 3).Draw(rt, "kind")]
		var toks []string
		tc := &TextCase{}
		if kind == "value" {
			toks = syn.GenValueTokens(rt)
			tc.Mode = "value"
		} else {
			toks = syn.GenDocumentTokens(rt, kind)
		}
		mutated := rapid.IntRange(0, 2).Draw(rt, "mutate") == 0
		if mutated {
			toks = syn.Mutate(rt, toks)
		}
		unicode := rapid.IntRange(0, 3).Draw(rt, "unicodeGaps") == 0
		tc.Text = syn.Render(rt, toks, unicode)
		if mutated && rapid.IntRange(0, 3).Draw(rt, "byteMut") == 0 && len(tc.Text) > 0 {
			b := []byte(tc.Text)
			i := rapid.IntRange(0, len(b)-1).Draw(rt, "at")
			switch rapid.IntRange(0, 2).Draw(rt, "how") {
			case 0:
				b = b[:i] // truncate
			case 1:
				b[i] = byte(rapid.IntRange(0, 255).Draw(rt, "byte"))
			default:
				b = append(b[:i], b[i+1:]...)
			}
			tc.Text = string(b)
		}
		msg, class, absorbed := c03Compare(tc)
		nt := strings.Contains(tc.Text, `"`) || strings.Contains(tc.Text, "#") || strings.ContainsAny(tc.Text, "[!") || (mutated && class == "both_reject")
		stats.R.Class("kind_" + kind)
		if mutated {
			stats.R.Class("mutated")
		}
		c03Record(tc, class, absorbed, nt)
		if msg != "" {
			violation(rt, "C03", "gen", tc, "%s", msg)
		}
	})
}

// TestC03_Corpus replays the repository's sample documents, the hostile constants and the
// committed regression inputs.
func TestC03_Corpus(t *testing.T) {
	if replayFile() != "" {
		t.Skip()
	}
	var texts []string
	for _, f := range []string{"/repo/kitchen-sink.graphql", "/repo/schema-kitchen-sink.graphql", "/repo/schema-all-descriptions.graphql"} {
		if b, err := os.ReadFile(f); err == nil {
			texts = append(texts, string(b))
		}
	}
	texts = append(texts, hostileTexts...)
	if dir := os.Getenv("VERIF_REGRESS"); dir != "" {
		files, _ := filepath.Glob(filepath.Join(dir, "*.txt"))
		for _, f := range files {
			if b, err := os.ReadFile(f); err == nil {
				texts = append(texts, string(b))
			}
		}
	}
	for _, s := range texts {
		tc := &TextCase{Text: s}
		msg, class, absorbed := c03Compare(tc)
		c03Record(tc, class, absorbed, true)
		if msg != "" {
			violation(t, "C03", "corpus", tc, "%s", msg)
		}
	}
}

// hostileTexts are small inputs aimed at lexer and parser edge cases (also seeds for fuzzing).
var hostileTexts = []string{
	``, ` `, `,`, `#`, "\ufeff", `{`, `}`, `{}`, `{a}`, `{ a }`, `query`, `query {a}`, `query Q($a:Int=1){a}`,
	`{a(x:"\u0041\n\t\"\\\/\b\f\r")}`, `{a(x:"\uD83D\uDE00")}`, `{a(x:"\uZZZZ")}`, `{a(x:"\q")}`, `{a(x:"unterminated)}`, "{a(x:\"line\nbreak\")}",
	`{a(x:"""block""")}`, `{a(x:"""a\"""b""")}`, "{a(x:\"\"\"\n  a\n   b\n  c\n\"\"\")}", `{a(x:""""""")}`, `{a(x:"""unterminated)}`,
	`{a(x:1.)}`, `{a(x:.5)}`, `{a(x:01)}`, `{a(x:-)}`, `{a(x:1e)}`, `{a(x:1e+)}`, `{a(x:-0)}`, `{a(x:0.0e-0)}`, `{a(x:1a)}`, `{a(x:1.5e3b)}`, `{a(x:0x1)}`,
	`{a(x:null)}`, `{a(x:[null])}`, `{a(x:{a:null})}`, `{a(x:$v)}`, `query($a:[Int}){f}`, `query($a: ]){f}`, `query($a: ){f}`, `query($a:[[Int!]!]!){f}`,
	`query($a:Int!!){f}`, `{a @d @e(x:1)}`, `{...on}`, `{... on T{a}}`, `{...F}`, `{... @d {a}}`, `fragment on on on{a}`, `fragment F on T{a}`, `fragment F{a}`,
	`{a:b}`, `{a:b:c}`, `{a(){b}}`, `{a(x:1,){b}}`, `query(){a}`, `type T{}`, `type T`, `type T implements A&B{a:Int}`, `type T implements &A{a:Int}`, `type T implements A B{a:Int}`,
	`enum E{}`, `enum E{A B}`, `enum E{true}`, `input I{a:Int=1 @d}`, `interface I{a(x:Int=1):Int}`, `union U=A|B`, `union U=|A`, `union U`, `scalar S @d`, `schema{query:Q}`, `schema{}`,
	`schema @d {query:Q mutation:M}`, `directive @d on FIELD`, `directive @d(a:Int) on A|B`, `directive @d on |A`, `"desc" type T{a:Int}`, `"""desc""" type T{"f" a("x" x:Int):Int}`,
	`"desc" schema{query:Q}`, `"desc" query{a}`, `extend type T{a:Int}`, `extend "d" type T{a:Int}`, `"d" extend type T{a:Int}`, `extend scalar S`, `extend`,
	"{ a #\u00e9\n bc }", "\ufeff{a}", "{a}\ufeff", "{\ufeffa}", "{a #c\r\n b}", "{a,,,b}", "{a\x00}", "{a\x7f}", "{a\u00a0b}", "{a?}", "{a.b}", "{a..b}", "{a....b}", "{ ... }",
	`{a(x:"` + "\x01" + `")}`, `{a(x:"` + "\t" + `")}`, "#c\x00\n{a}", "#c\t ok\n{a}", `{a(x:{a:1,b:[1,2,{c:$d}]})}`, `{a(x:[[[]]])}`, `{a(x:{})}`, `{a(x:[)}`,
	`subscription S{a}`, `mutation{a}`, `query Q{a} query R{b} fragment F on T{c} type X{d:Int}`, `{a` + strings.Repeat("{a", 50) + strings.Repeat("}", 51),
}

// FuzzC03 is the coverage-guided differential target (thorough tier only as a campaign; the
// seed corpus always runs).
func FuzzC03(f *testing.F) {
	for _, s := range hostileTexts {
		f.Add(s)
	}
	for _, p := range []string{"/repo/kitchen-sink.graphql", "/repo/schema-kitchen-sink.graphql"} {
		if b, err := os.ReadFile(p); err == nil {
			f.Add(string(b))
		}
	}
	f.Fuzz(func(t *testing.T, s string) {
		if len(s) > 1<<14 {
			return
		}
		tc := &TextCase{Text: s}
		msg, class, absorbed := c03Compare(tc)
		c03Record(tc, class, absorbed, true)
		if msg != "" {
			violation(t, "C03", "fuzz", tc, "%s", msg)
		}
	})
}
