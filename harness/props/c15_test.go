package props

import (
	"context"
	"errors"
	"fmt"
	"runtime"
	"strings"
	"testing"
	"time"

	"github.com/graphql-go/graphql"
	"pgregory.net/rapid"

	"verif/build"
	"verif/gen"
	"verif/model"
	"verif/ref"
	"verif/stats"
)

// C15 — a subscription delivers one correct result per source event, then closes.
// The harness is producer and consumer; the source channel is unbuffered, so every hand-off
// is a rendezvous the harness performs.

type SubAction struct {
	Kind string `json:"kind"` // emit | read | cancel | closeSource | release
	// emit: what the payload makes field resolution do
	Payload string `json:"payload,omitempty"` // ok | fieldError | nonNullFailure | nilEvent (the source sends nil) | gated (the resolver blocks until released)
}

type SubCase struct {
	Query   int         `json:"query"`
	Source  string      `json:"source"`  // chan | value | nil | error | panic_err | panic_str
	Request string      `json:"request"` // valid | syntax | validation
	Actions []SubAction `json:"actions"`
	// ReadAfterCancel: whether the consumer keeps reading once the context is cancelled
	ReadAfterCancel bool `json:"readAfterCancel"`
}

type subEvent struct {
	ID      int
	Payload string
}

var c15Queries = []string{
	`subscription { tick }`,
	`subscription { obj { id maybe } }`,
	`subscription { obj { id nn } }`,
	`subscription S($s: Boolean = false) { obj { id maybe @skip(if: $s) nn } }`,
	`subscription { k: obj { id } }`,
	`subscription { strict }`, // a non-null root field: a failing event leaves no data at all
	// variables whose coercion is not idempotent (enum with internal values, custom scalar)
	`subscription P($e: Ev, $c: Cs = "dflt") { pick(e: $e, c: $c) }`,
	// the root field is reached through the second of two spreads of one fragment, the first excluded
	`subscription T($a: Boolean = false) { ...F @include(if: $a) ...F @skip(if: $a) ... on S @skip(if: true) { obj { id } } } fragment F on S { tick }`,
}

var c15Variables = map[string]interface{}{"e": "B", "c": "cv"}

func c15Model() *model.Schema {
	t := model.T
	f := func(n, ty string) *model.FieldDef { return &model.FieldDef{Name: n, Type: t(ty)} }
	return &model.Schema{Query: "Q", Subscription: "S", Types: []*model.TypeDef{
		{Kind: model.KEnum, Name: "Ev", Values: []*model.EnumVal{{Name: "A", Internal: model.Int(10)}, {Name: "B", Internal: model.Int(11)}}},
		{Kind: model.KScalar, Name: "Cs"},
		{Kind: model.KObject, Name: "EvObj", Fields: []*model.FieldDef{f("id", "Int"), f("nn", "String!"), f("maybe", "String")}},
		{Kind: model.KObject, Name: "Q", Fields: []*model.FieldDef{f("a", "String")}},
		{Kind: model.KObject, Name: "S", Fields: []*model.FieldDef{f("tick", "Int"), f("obj", "EvObj"), f("strict", "Int!"),
			{Name: "pick", Type: t("String"), Args: []*model.ArgDef{{Name: "e", Type: t("Ev")}, {Name: "c", Type: t("Cs")}}}}},
	}}
}

// expectedFor computes the response the subscription's selection gives for one event.
func expectedFor(query int, ev *subEvent) (data string, nErrors int) {
	if query == 7 {
		query = 0 // the same selection as `subscription { tick }`
	}
	if query == 6 {
		// the resolver reports the coerced arguments: the enum's internal value, the scalar's parsed form
		if ev.Payload == "nilEvent" {
			return `{"pick":"none:11:P:cv"}`, 0
		}
		return fmt.Sprintf(`{"pick":"%d:11:P:cv"}`, ev.ID), 0
	}
	if query == 5 {
		// strict: Int! fails for every payload but ok / gated, and the null reaches data
		if ev.Payload == "ok" || ev.Payload == "gated" {
			return fmt.Sprintf(`{"strict":%d}`, ev.ID), 0
		}
		return "null", 1
	}
	if ev.Payload == "nilEvent" {
		// the source delivered a nil payload: every root field resolves to null
		switch query {
		case 0:
			return `{"tick":null}`, 0
		case 4:
			return `{"k":null}`, 0
		}
		return `{"obj":null}`, 0
	}
	obj := func(fields ...string) (string, int) {
		if ev.Payload == "nonNullFailure" && contains2(fields, "nn") {
			return "null", 1
		}
		var parts []string
		n := 0
		for _, f := range []string{"id", "maybe", "nn"} { // JSON keys sorted
			if !contains2(fields, f) {
				continue
			}
			switch f {
			case "id":
				parts = append(parts, fmt.Sprintf(`"id":%d`, ev.ID))
			case "maybe":
				if ev.Payload == "fieldError" {
					parts = append(parts, `"maybe":null`)
					n++
				} else {
					parts = append(parts, fmt.Sprintf(`"maybe":"m%d"`, ev.ID))
				}
			case "nn":
				parts = append(parts, fmt.Sprintf(`"nn":"n%d"`, ev.ID))
			}
		}
		return "{" + strings.Join(parts, ",") + "}", n
	}
	switch query {
	case 0:
		return fmt.Sprintf(`{"tick":%d}`, ev.ID), 0
	case 1:
		o, n := obj("id", "maybe")
		return `{"obj":` + o + `}`, n
	case 2:
		o, n := obj("id", "nn")
		return `{"obj":` + o + `}`, n
	case 3:
		o, n := obj("id", "maybe", "nn")
		return `{"obj":` + o + `}`, n
	default:
		o, n := obj("id")
		return `{"k":` + o + `}`, n
	}
}

func contains2(l []string, s string) bool {
	for _, x := range l {
		if x == s {
			return true
		}
	}
	return false
}

func subGoroutines() int {
	buf := make([]byte, 1<<20)
	n := runtime.Stack(buf, true)
	cnt := 0
	for _, g := range strings.Split(string(buf[:n]), "\n\n") {
		// any goroutine running library code (the event loop, per-event executions it started)
		if strings.Contains(g, "github.com/graphql-go/graphql.") && !strings.Contains(g, "verif/props.c15Oracle(") && !strings.Contains(g, "props.subGoroutines") {
			cnt++
		}
	}
	return cnt
}

func c15Oracle(c *SubCase) (msg string, nontrivial bool) {
	m := c15Model()
	source := make(chan interface{})
	gate := make(chan struct{}) // resolvers of "gated" events wait for it
	released := false
	release := func() {
		if !released {
			released = true
			close(gate)
		}
	}
	defer release()
	ev := func(p graphql.ResolveParams) *subEvent {
		e, _ := p.Source.(*subEvent)
		return e
	}
	opt := build.Options{
		Subscribe: func(defType, field string) graphql.FieldResolveFn {
			return func(p graphql.ResolveParams) (interface{}, error) {
				switch c.Source {
				case "value":
					return &subEvent{ID: 77, Payload: "ok"}, nil
				case "nil":
					return nil, nil
				case "error":
					return nil, errors.New("E:subscribe")
				case "panic_err":
					panic(errors.New("E:subscribe-panic"))
				case "panic_str":
					panic("subscribe-panic-string")
				}
				return source, nil
			}
		},
		Resolve: map[string]graphql.FieldResolveFn{
			"S.tick": func(p graphql.ResolveParams) (interface{}, error) {
				if e := ev(p); e != nil {
					if e.Payload == "gated" {
						<-gate
					}
					return e.ID, nil
				}
				return nil, nil
			},
			"S.pick": func(p graphql.ResolveParams) (interface{}, error) {
				id := "none"
				if e := ev(p); e != nil {
					if e.Payload == "gated" {
						<-gate
					}
					id = fmt.Sprint(e.ID)
				}
				return fmt.Sprintf("%s:%v:%v", id, p.Args["e"], p.Args["c"]), nil
			},
			"S.strict": func(p graphql.ResolveParams) (interface{}, error) {
				e := ev(p)
				if e == nil {
					return nil, nil
				}
				switch e.Payload {
				case "gated":
					<-gate
				case "fieldError":
					return nil, fmt.Errorf("E:strict%d", e.ID)
				case "nonNullFailure":
					return nil, nil
				}
				return e.ID, nil
			},
			"S.obj": func(p graphql.ResolveParams) (interface{}, error) {
				if e := ev(p); e != nil {
					return e, nil
				}
				return nil, nil // a nil source event: whatever root value the library substitutes, obj is null
			},
			"EvObj.id": func(p graphql.ResolveParams) (interface{}, error) {
				if e := ev(p); e != nil {
					if e.Payload == "gated" {
						<-gate
					}
					return e.ID, nil
				}
				return nil, nil
			},
			"EvObj.nn": func(p graphql.ResolveParams) (interface{}, error) {
				if e := ev(p); e != nil && e.Payload != "nonNullFailure" {
					return fmt.Sprintf("n%d", e.ID), nil
				}
				return nil, nil
			},
			"EvObj.maybe": func(p graphql.ResolveParams) (interface{}, error) {
				e := ev(p)
				if e == nil {
					return nil, nil
				}
				if e.Payload == "fieldError" {
					return nil, fmt.Errorf("E:maybe%d", e.ID)
				}
				return fmt.Sprintf("m%d", e.ID), nil
			},
		},
	}
	b, err := build.New(m, &ref.World{S: m}, opt)
	if err != nil {
		return "HARNESS: " + err.Error(), false
	}
	baseline := subGoroutines()
	ctx, cancel := context.WithCancel(context.Background())
	defer cancel()
	text := c15Queries[c.Query%len(c15Queries)]
	switch c.Request {
	case "syntax":
		text = `subscription { tick `
	case "validation":
		text = `subscription { nope }`
	}
	var results chan *graphql.Result
	pan := ""
	func() {
		defer func() {
			if r := recover(); r != nil {
				pan = fmt.Sprint(r)
			}
		}()
		results = graphql.Subscribe(graphql.Params{Schema: b.Schema, RequestString: text, VariableValues: c15Variables, Context: ctx})
	}()
	if pan != "" {
		return "Subscribe panicked: " + pan, false
	}
	read := func(d time.Duration) (r *graphql.Result, open bool, timedOut bool) {
		select {
		case r, ok := <-results:
			return r, ok, false
		case <-time.After(d):
			return nil, true, true
		}
	}
	census := func() string {
		release() // whatever is still computing a result may finish now
		deadline := time.Now().Add(5 * time.Second)
		for subGoroutines() > baseline {
			if time.Now().After(deadline) {
				return fmt.Sprintf("%d goroutine(s) started for the subscription are still alive 5 s after it ended", subGoroutines()-baseline)
			}
			time.Sleep(2 * time.Millisecond)
		}
		return ""
	}
	// requests that fail to parse, validate or subscribe: exactly one error result, then closed
	failing := c.Request != "valid" || c.Source == "nil" || c.Source == "error" || c.Source == "panic_err" || c.Source == "panic_str"
	if failing {
		r, ok, to := read(10 * time.Second)
		if to {
			return "a request that cannot be subscribed delivered nothing within 10 s", false
		}
		if !ok {
			return fmt.Sprintf("a request that fails (%s / source %s) closed the channel without delivering an error result", c.Request, c.Source), false
		}
		if r == nil || r.Data != nil || len(r.Errors) == 0 {
			return fmt.Sprintf("a request that fails (%s / source %s) delivered %s", c.Request, c.Source, respJSON(r)), false
		}
		if _, ok, to := read(10 * time.Second); ok || to {
			return "after the error result the channel was not closed", false
		}
		return census(), false
	}
	if c.Source == "value" {
		r, ok, to := read(10 * time.Second)
		if to || !ok {
			return "a non-stream source delivered no result", false
		}
		want, ne := expectedFor(c.Query%len(c15Queries), &subEvent{ID: 77, Payload: "ok"})
		if canonJSON(r.Data) != want || len(r.Errors) != ne {
			return fmt.Sprintf("single-value source: got %s, want data %s with %d errors", respJSON(r), want, ne), false
		}
		if _, ok, to := read(10 * time.Second); ok || to {
			return "after the single result the channel was not closed", false
		}
		return census(), false
	}
	// stream source: play the history
	var pending []*subEvent // emitted, result not yet read
	nextID := 1
	cancelled, closed := false, false
	checkResult := func(r *graphql.Result, afterCancel bool) string {
		if len(pending) == 0 {
			if afterCancel && r.Data == nil && len(r.Errors) == 1 {
				return ""
			}
			return "a result was delivered although no source event is outstanding: " + respJSON(r)
		}
		e := pending[0]
		want, ne := expectedFor(c.Query%len(c15Queries), e)
		if canonJSON(r.Data) == want && len(r.Errors) == ne {
			pending = pending[1:]
			return ""
		}
		if afterCancel && r.Data == nil && len(r.Errors) == 1 {
			pending = pending[1:]
			return ""
		}
		return fmt.Sprintf("result for event #%d (%s) is %s, want data %s with %d error(s)", e.ID, e.Payload, respJSON(r), want, ne)
	}
	for i, a := range c.Actions {
		switch a.Kind {
		case "emit":
			if closed || cancelled || len(pending) > 0 {
				continue // the library is busy delivering / gone: the producer would block
			}
			e := &subEvent{ID: nextID, Payload: a.Payload}
			nextID++
			var payload interface{} = e
			if a.Payload == "nilEvent" {
				payload = nil
			}
			select {
			case source <- payload:
				pending = append(pending, e)
				if a.Payload != "ok" {
					nontrivial = true
				}
			case <-time.After(10 * time.Second):
				return fmt.Sprintf("action %d: the subscription did not take a source event within 10 s although it has nothing else to do", i), nontrivial
			}
		case "release":
			release()
		case "read":
			if len(pending) == 0 || cancelled {
				continue
			}
			if pending[0].Payload == "gated" {
				release() // a consumer that waits gets the result once the resolver is let go
			}
			r, ok, to := read(10 * time.Second)
			if to {
				return fmt.Sprintf("action %d: no result within 10 s for event #%d", i, pending[0].ID), nontrivial
			}
			if !ok {
				return fmt.Sprintf("action %d: channel closed while the result of event #%d was outstanding", i, pending[0].ID), nontrivial
			}
			if m := checkResult(r, false); m != "" {
				return fmt.Sprintf("action %d: %s", i, m), nontrivial
			}
		case "closeSource":
			if closed || cancelled || len(pending) > 0 {
				continue
			}
			close(source)
			closed = true
		case "cancel":
			if cancelled || closed {
				continue
			}
			if len(pending) > 0 {
				nontrivial = true // cancellation while a result is pending
			}
			cancel()
			cancelled = true
		}
	}
	// wind down: close the source or cancel, then the channel must close
	if !closed && !cancelled {
		if len(pending) > 0 {
			release()
			r, ok, to := read(10 * time.Second)
			if to || !ok {
				return "outstanding result was never delivered", nontrivial
			}
			if m := checkResult(r, false); m != "" {
				return m, nontrivial
			}
		}
		close(source)
		closed = true
	}
	if cancelled && !c.ReadAfterCancel {
		// the consumer stopped reading: nothing may stay blocked
		if m := census(); m != "" {
			return "after cancellation (consumer no longer reading, " + fmt.Sprint(len(pending)) + " result(s) pending): " + m, nontrivial
		}
		return "", nontrivial
	}
	if !cancelled {
		release()
	}
	for {
		r, ok, to := read(10 * time.Second)
		if to {
			return "the result channel was neither closed nor fed within 10 s after the source closed / the context was cancelled", nontrivial
		}
		if !ok {
			break
		}
		if m := checkResult(r, cancelled); m != "" {
			return "while winding down: " + m, nontrivial
		}
	}
	if len(pending) > 0 && !cancelled {
		return fmt.Sprintf("the channel closed but %d source event(s) never produced a result", len(pending)), nontrivial
	}
	return census(), nontrivial
}

func TestC15(t *testing.T) {
	var rc SubCase
	if loadReplay(t, "C15", &rc) {
		for i := 0; i < 5; i++ {
			if msg, _ := c15Oracle(&rc); msg != "" {
				t.Fatalf("VERIF-FAIL property=C15 sub=subscription replay=%s :: %s", replayFile(), msg)
			}
		}
		return
	}
	rapid.Check(t, func(rt *rapid.T) {
		c := &SubCase{Query: gen.Uniform(rt, len(c15Queries), "query"), Source: "chan", Request: "valid", ReadAfterCancel: gen.Chance(rt, 50, "readAfterCancel")}
		r := gen.Uniform(rt, 100, "shape")
		switch {
		case r < 6:
			c.Request = "syntax"
		case r < 12:
			c.Request = "validation"
		case r < 30:
			c.Source = []string{"value", "nil", "error", "panic_err", "panic_str"}[gen.Uniform(rt, 5, "source")]
		}
		kinds := []string{"emit", "emit", "emit", "read", "read", "read", "cancel", "closeSource", "release"}
		for i, n := 0, gen.Intn(rt, 0, 10, "nActions"); i < n; i++ {
			a := SubAction{Kind: kinds[gen.Uniform(rt, len(kinds), "kind")]}
			if a.Kind == "emit" {
				a.Payload = []string{"ok", "ok", "gated", "fieldError", "fieldError", "nonNullFailure", "gated", "nilEvent"}[gen.Uniform(rt, 8, "payload")]
			}
			c.Actions = append(c.Actions, a)
		}
		msg, nt := c15Oracle(c)
		stats.R.Class("source_" + c.Source)
		stats.R.Class("request_" + c.Request)
		stats.R.Case(caseKey(c), nt, func() interface{} { return c })
		if msg != "" {
			violation(rt, "C15", "subscription", c, "%s\n  query: %s", msg, c15Queries[c.Query%len(c15Queries)])
		}
	})
}
