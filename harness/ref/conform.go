package ref

import (
	"fmt"
	"math"
	"sort"

	"verif/model"
)

// Conform is the intrinsic response-conformance predicate of C04: it looks only at schema,
// document, coerced variables and the response a client receives (data after a JSON round
// trip, error paths). It returns "" when the response is well-formed:
//
//   - every object holds exactly the response keys the field collection selects for (some)
//     runtime type of that position, nothing else;
//   - leaves are legal serialisations of their type or null, list positions hold lists or null;
//   - no null where the declared type is non-null (data itself may be null);
//   - every error path addresses a selected position whose value, or one of its prefixes, is null.
func Conform(s *model.Schema, d *model.Doc, opName string, vars map[string]interface{}, data interface{}, errPaths [][]interface{}) string {
	op := d.Operation(opName)
	if op == nil {
		return ""
	}
	root := s.Query
	switch op.Kind {
	case "mutation":
		root = s.Mutation
	case "subscription":
		root = s.Subscription
	}
	c := &conf{s: s, d: d, vars: vars}
	if data != nil {
		m, ok := data.(map[string]interface{})
		if !ok {
			return fmt.Sprintf("data is %T, not an object", data)
		}
		if msg := c.object(root, [][]*model.Sel{op.Sel}, m, "data"); msg != "" {
			return msg
		}
	}
	for _, p := range errPaths {
		if len(p) == 0 {
			continue
		}
		if msg := c.errPath(root, [][]*model.Sel{op.Sel}, data, p); msg != "" {
			return msg
		}
	}
	return ""
}

type conf struct {
	s    *model.Schema
	d    *model.Doc
	vars map[string]interface{}
}

func (c *conf) object(objType string, sets [][]*model.Sel, m map[string]interface{}, at string) string {
	groups := Collect(c.s, c.d, c.vars, objType, sets)
	want := map[string]*group{}
	td := c.s.Type(objType)
	for _, g := range groups {
		if g.occ[0].Name != "__typename" && td.Field(g.occ[0].Name) == nil {
			continue
		}
		want[g.key] = g
	}
	for k := range m {
		if want[k] == nil {
			return fmt.Sprintf("%s: response key %q was not selected for type %s", at, k, objType)
		}
	}
	var keys []string
	for k := range want {
		keys = append(keys, k)
	}
	sort.Strings(keys)
	for _, k := range keys {
		g := want[k]
		v, present := m[k]
		if !present {
			return fmt.Sprintf("%s: selected response key %q is missing (type %s)", at, k, objType)
		}
		if g.occ[0].Name == "__typename" {
			if v != objType {
				return fmt.Sprintf("%s.%s: __typename is %v, runtime type is %s", at, k, v, objType)
			}
			continue
		}
		fd := td.Field(g.occ[0].Name)
		if msg := c.value(fd.Type, v, g, at+"."+k); msg != "" {
			return msg
		}
	}
	return ""
}

func (c *conf) value(t model.TypeRef, v interface{}, g *group, at string) string {
	if v == nil {
		if t.NonNull() {
			return fmt.Sprintf("%s: null in non-null position (%s)", at, t)
		}
		return ""
	}
	if t.NonNull() {
		t = t.Inner()
	}
	if t.IsList() {
		l, ok := v.([]interface{})
		if !ok {
			return fmt.Sprintf("%s: %T in list position (%s)", at, v, t)
		}
		for i, e := range l {
			if msg := c.value(t.Inner(), e, g, fmt.Sprintf("%s[%d]", at, i)); msg != "" {
				return msg
			}
		}
		return ""
	}
	td := c.s.Type(t.Name)
	switch td.Kind {
	case model.KEnum:
		sv, ok := v.(string)
		if !ok || td.Value(sv) == nil {
			return fmt.Sprintf("%s: %v is not a value of enum %s", at, v, t.Name)
		}
	case model.KScalar:
		switch t.Name {
		case "Int":
			f, ok := num(v)
			if !ok || f != math.Trunc(f) || f < math.MinInt32 || f > math.MaxInt32 {
				return fmt.Sprintf("%s: %v (%T) is not a 32-bit Int", at, v, v)
			}
		case "Float":
			f, ok := num(v)
			if !ok || math.IsInf(f, 0) || math.IsNaN(f) {
				return fmt.Sprintf("%s: %v (%T) is not a finite Float", at, v, v)
			}
		case "String", "ID":
			if _, ok := v.(string); !ok {
				return fmt.Sprintf("%s: %v (%T) is not a string (%s)", at, v, v, t.Name)
			}
		case "Boolean":
			if _, ok := v.(bool); !ok {
				return fmt.Sprintf("%s: %v (%T) is not a Boolean", at, v, v)
			}
		default:
			if _, ok := v.(string); !ok {
				return fmt.Sprintf("%s: %v is not a serialisation of custom scalar %s", at, v, t.Name)
			}
		}
	case model.KObject:
		m, ok := v.(map[string]interface{})
		if !ok {
			return fmt.Sprintf("%s: %T in object position (%s)", at, v, t.Name)
		}
		return c.object(t.Name, subSets(g), m, at)
	case model.KIface, model.KUnion:
		m, ok := v.(map[string]interface{})
		if !ok {
			return fmt.Sprintf("%s: %T in object position (%s)", at, v, t.Name)
		}
		// the runtime type is not part of the response: the object must conform for at least
		// one possible type
		first := ""
		for _, p := range c.s.PossibleTypes(t.Name) {
			msg := c.object(p, subSets(g), m, at)
			if msg == "" {
				return ""
			}
			if first == "" {
				first = msg
			}
		}
		return fmt.Sprintf("%s: object conforms to no possible type of %s (e.g. %s)", at, t.Name, first)
	}
	return ""
}

func subSets(g *group) [][]*model.Sel {
	var sets [][]*model.Sel
	for _, o := range g.occ {
		sets = append(sets, o.Sel)
	}
	return sets
}

func num(v interface{}) (float64, bool) {
	switch x := v.(type) {
	case float64:
		return x, true
	case int:
		return float64(x), true
	case int64:
		return float64(x), true
	}
	return 0, false
}

// errPath checks that an error path addresses a selected position and that the value there,
// or at a prefix, is null. At abstract positions the runtime type is not part of the response:
// the path is accepted when it is consistent with at least one possible type.
func (c *conf) errPath(objType string, sets [][]*model.Sel, data interface{}, path []interface{}) string {
	return c.errPathFrom(model.TypeRef{Name: objType}, sets, data, path, path)
}

func (c *conf) errPathFrom(ty model.TypeRef, sets [][]*model.Sel, cur interface{}, rest, full []interface{}) string {
	if cur == nil {
		return "" // a prefix is null
	}
	if len(rest) == 0 {
		return fmt.Sprintf("error path %v addresses a non-null value %v", full, cur)
	}
	switch k := rest[0].(type) {
	case string:
		m, ok := cur.(map[string]interface{})
		if !ok {
			return fmt.Sprintf("error path %v: key %q applied to %T", full, k, cur)
		}
		named := ty
		for named.Wrap != "" {
			named = named.Inner()
		}
		if !c.s.IsComposite(named.Name) {
			return fmt.Sprintf("error path %v: key %q applied at a position of leaf type %s", full, k, ty)
		}
		first := ""
		for _, rt := range c.s.PossibleTypes(named.Name) {
			var g *group
			for _, gg := range Collect(c.s, c.d, c.vars, rt, sets) {
				if gg.key == k {
					g = gg
				}
			}
			msg := ""
			switch {
			case g == nil:
				msg = fmt.Sprintf("error path %v: key %q is not selected at that position", full, k)
			case g.occ[0].Name == "__typename":
				msg = fmt.Sprintf("error path %v addresses __typename", full)
			default:
				fd := c.s.Type(rt).Field(g.occ[0].Name)
				v, present := m[k]
				switch {
				case fd == nil:
					msg = fmt.Sprintf("error path %v: unknown field", full)
				case !present:
					msg = fmt.Sprintf("error path %v: key %q absent from data", full, k)
				default:
					msg = c.errPathFrom(fd.Type, subSets(g), v, rest[1:], full)
				}
			}
			if msg == "" {
				return ""
			}
			if first == "" {
				first = msg
			}
		}
		return first
	default:
		idx, ok := num(rest[0])
		l, isList := cur.([]interface{})
		if !ok || !isList {
			return fmt.Sprintf("error path %v: index step applied to %T", full, cur)
		}
		if int(idx) < 0 || int(idx) >= len(l) {
			return fmt.Sprintf("error path %v: index %v out of range", full, rest[0])
		}
		t2 := ty.Nullable()
		if !t2.IsList() {
			return fmt.Sprintf("error path %v: index step at a non-list type %s", full, ty)
		}
		return c.errPathFrom(t2.Inner(), sets, l[int(idx)], rest[1:], full)
	}
}
