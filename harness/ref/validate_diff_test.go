package ref_test

import (
	"fmt"
	"os"
	"sort"
	"strconv"
	"strings"
	"testing"

	"github.com/graphql-go/graphql"
	"github.com/graphql-go/graphql/language/parser"
	"github.com/graphql-go/graphql/language/source"
	"pgregory.net/rapid"

	"verif/build"
	"verif/gen"
	"verif/model"
	"verif/ref"
)

// TestValidateSurvey (VERIF_SURVEY=1) runs every rule of the library alone on valid base
// documents and on every injection operator's output and compares "has errors" with the
// reference, rule by rule. It only PRINTS the disagreements, grouped by (rule, direction), with
// the smallest example of each group: they are library defects, edition-reading questions or
// reference bugs, to be triaged by a human. VERIF_SURVEY_N = number of base documents.
func TestValidateSurvey(t *testing.T) {
	if os.Getenv("VERIF_SURVEY") != "1" {
		t.Skip("set VERIF_SURVEY=1")
	}
	n := 300
	if s := os.Getenv("VERIF_SURVEY_N"); s != "" {
		n, _ = strconv.Atoi(s)
	}
	type group struct {
		count   int
		ops     map[string]int
		example string
		detail  string
		schema  string
	}
	groups := map[string]*group{}
	byOp := os.Getenv("VERIF_SURVEY_BYOP") == "1" // one group (and example) per operator as well
	note := func(key, op, text, detail string, s *model.Schema) {
		if byOp {
			key += " / " + op
		}
		g := groups[key]
		if g == nil {
			g = &group{ops: map[string]int{}}
			groups[key] = g
		}
		g.count++
		g.ops[op]++
		if g.example == "" || len(text) < len(g.example) {
			g.example, g.detail, g.schema = text, detail, schemaSketch(s, text)
		}
	}
	docs, agree := 0, 0
	check := func(s *model.Schema, b *build.Built, d *model.Doc, op string) {
		printed := model.Print(d, nil)
		text := printed.Text
		ast, err := parser.Parse(parser.ParseParams{Source: &source.Source{Body: []byte(text)}})
		if err != nil {
			note("PARSE-ERROR", op, text, err.Error(), s)
			return
		}
		docs++
		want := ref.Validate(s, d)
		for i, rule := range ref.RuleNames {
			var msgs []string
			var locs [][]string // per error: its locations as "line:col"
			func() {
				defer func() {
					if r := recover(); r != nil {
						note(rule+" / library PANICS", op, text, fmt.Sprint(r), s)
						msgs = nil
					}
				}()
				res := graphql.ValidateDocument(&b.Schema, ast, []graphql.ValidationRuleFn{graphql.SpecifiedRules[i]})
				for _, e := range res.Errors {
					msgs = append(msgs, e.Message)
					var l []string
					for _, loc := range e.Locations {
						l = append(l, fmt.Sprintf("%d:%d", loc.Line, loc.Column))
					}
					locs = append(locs, l)
				}
			}()
			if len(msgs) > 0 && len(want[rule]) > 0 && isASCII(text) {
				// locations: is what the library blames a node the reference finds acceptable?
				ok := map[string]bool{}
				for _, v := range want[rule] {
					for _, n := range v.Nodes {
						if off, found := printed.Pos[n]; found {
							l, c := model.LineCol(text, off)
							ok[fmt.Sprintf("%d:%d", l, c)] = true
						}
					}
				}
				errsOK := 0
				for _, l := range locs {
					for _, x := range l {
						if ok[x] {
							errsOK++
							break
						}
					}
				}
				detail := fmt.Sprintf("library %v at %v; acceptable %v", msgs, locs, sortedSet(ok))
				switch {
				case errsOK == 0:
					note(rule+" / LOCATION: no library error points at an acceptable node", op, text, detail, s)
				case errsOK < len(locs):
					note(rule+" / LOCATION: some (not all) library errors point at an acceptable node", op, text, detail, s)
				}
			}
			switch {
			case len(msgs) > 0 && len(want[rule]) == 0:
				note(rule+" / library reports, reference silent", op, text, strings.Join(msgs, " | "), s)
			case len(msgs) == 0 && len(want[rule]) > 0:
				note(rule+" / reference reports, library silent", op, text, fmt.Sprint(want[rule]), s)
			default:
				agree++
			}
		}
	}
	nOps := gen.NumInjectionOperators()
	rapid.Check(t, func(rt *rapid.T) {
		if docs > n*(nOps+1) {
			return
		}
		s := gen.Schema(rt, gen.SchemaOpts{Mutation: gen.Chance(rt, 30, "mut"), Directives: gen.Chance(rt, 30, "dirs")})
		d, _, _ := gen.Doc(rt, s, gen.DocOpts{})
		b, err := build.New(s, &ref.World{S: s}, build.Options{})
		if err != nil {
			return
		}
		check(s, b, d, "valid-base")
		for i := 0; i < nOps; i++ {
			if bad, inj, ok := gen.InjectViolation(rt, s, d, i); ok {
				check(s, b, bad, inj.Operator)
			}
		}
	})
	var keys []string
	for k := range groups {
		keys = append(keys, k)
	}
	sort.Strings(keys)
	fmt.Printf("SURVEY: %d documents, %d (document, rule) verdicts agree, %d disagreement groups\n", docs, agree, len(keys))
	for _, k := range keys {
		g := groups[k]
		var ops []string
		for o, c := range g.ops {
			ops = append(ops, fmt.Sprintf("%s×%d", o, c))
		}
		sort.Strings(ops)
		fmt.Printf("\n=== %s  (%d cases)\n    operators: %s\n    example:   %s\n    detail:    %s\n    schema:    %s\n", k, g.count, strings.Join(ops, ", "), g.example, g.detail, g.schema)
	}
}

func isASCII(s string) bool {
	for i := 0; i < len(s); i++ {
		if s[i] >= 0x80 {
			return false
		}
	}
	return true
}

func sortedSet(m map[string]bool) []string {
	var out []string
	for k := range m {
		out = append(out, k)
	}
	sort.Strings(out)
	return out
}

// schemaSketch prints the definitions of the schema types whose names occur in the text.
func schemaSketch(s *model.Schema, text string) string {
	var sb strings.Builder
	for _, td := range s.Types {
		if !strings.Contains(text, td.Name) && td.Name != s.Query {
			continue
		}
		fmt.Fprintf(&sb, "%s %s", strings.ToLower(td.Kind), td.Name)
		if len(td.Interfaces) > 0 {
			fmt.Fprintf(&sb, " implements %s", strings.Join(td.Interfaces, ","))
		}
		if len(td.Members) > 0 {
			fmt.Fprintf(&sb, " = %s", strings.Join(td.Members, "|"))
		}
		sb.WriteString(" {")
		for _, f := range td.Fields {
			sb.WriteString(" " + f.Name)
			if len(f.Args) > 0 {
				sb.WriteString("(")
				for _, a := range f.Args {
					fmt.Fprintf(&sb, "%s:%s ", a.Name, a.Type)
				}
				sb.WriteString(")")
			}
			sb.WriteString(":" + f.Type.String())
		}
		for _, f := range td.InputFields {
			fmt.Fprintf(&sb, " %s:%s", f.Name, f.Type)
		}
		for _, v := range td.Values {
			sb.WriteString(" " + v.Name)
		}
		sb.WriteString(" } ")
	}
	for _, d := range s.Directives {
		fmt.Fprintf(&sb, "directive @%s on %s ", d.Name, strings.Join(d.Locations, "|"))
	}
	return sb.String()
}

// TestValidateTableSurvey (VERIF_SURVEY=1) runs the hand-written table through the library,
// rule by rule, and prints every (case, rule) on which library and reference disagree.
func TestValidateTableSurvey(t *testing.T) {
	if os.Getenv("VERIF_SURVEY") != "1" {
		t.Skip("set VERIF_SURVEY=1")
	}
	b, err := build.New(tableSchema, &ref.World{S: tableSchema}, build.Options{})
	if err != nil {
		t.Fatal(err)
	}
	n := 0
	for _, tc := range tableCases {
		d := parseDoc(tc.doc)
		text := model.Print(d, nil).Text
		ast, err := parser.Parse(parser.ParseParams{Source: &source.Source{Body: []byte(text)}})
		if err != nil {
			fmt.Printf("TABLE %q: library does not parse %s: %v\n", tc.name, text, err)
			continue
		}
		want := ref.Validate(tableSchema, d)
		for i, rule := range ref.RuleNames {
			var msgs []string
			func() {
				defer func() {
					if r := recover(); r != nil {
						msgs = []string{fmt.Sprint("PANIC: ", r)}
					}
				}()
				for _, e := range graphql.ValidateDocument(&b.Schema, ast, []graphql.ValidationRuleFn{graphql.SpecifiedRules[i]}).Errors {
					msgs = append(msgs, e.Message)
				}
			}()
			if (len(msgs) > 0) != (len(want[rule]) > 0) {
				n++
				fmt.Printf("TABLE %q\n   %s\n   %s: library %q, reference %v\n", tc.name, tc.doc, rule, msgs, want[rule])
			}
		}
	}
	fmt.Printf("TABLE: %d cases, %d (case, rule) disagreements\n", len(tableCases), n)
}
