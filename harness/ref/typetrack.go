package ref

import (
	"verif/model"
	"verif/syn"
)

// TypeState is what type tracking must report when a node is entered: the schema types that
// apply at that position ("" = none / unknown).
type TypeState struct {
	Type       string // output type of the enclosing field / fragment / operation (with wrappers)
	ParentType string // composite type whose fields the enclosing selection set selects
	InputType  string // expected input type at a value position (with wrappers)
	FieldDef   string // name of the field definition in force
	Directive  string // name of the directive definition in force
	Argument   string // name of the argument definition in force
	// InputUnspecified: the reference does not say what applies here (arguments of an unknown
	// directive, introspection subtrees, fragments on input types, variables of output types).
	InputUnspecified bool
}

type tracker struct {
	s        *model.Schema
	types    []string // output type stack (TypeRef strings, "" = nil)
	parents  []string
	inputs   []string
	fields   []*model.FieldDef
	dir      *model.DirectiveDef
	dirKnown bool // inside a Directive node (known or not)
	arg      *model.ArgDef
	unspec   int
	out      map[*syn.Node]TypeState
}

func top(st []string) string {
	if len(st) == 0 {
		return ""
	}
	return st[len(st)-1]
}

func (t *tracker) named(ty string) string {
	if ty == "" {
		return ""
	}
	return model.T(ty).Name
}

func typeRefOf(n *syn.Node) string {
	switch n.Kind {
	case "Named":
		if nm := n.One("Name"); nm != nil {
			return nm.Value
		}
	case "List":
		if in := n.One("Type"); in != nil {
			if s := typeRefOf(in); s != "" {
				return "[" + s + "]"
			}
		}
	case "NonNull":
		if in := n.One("Type"); in != nil {
			if s := typeRefOf(in); s != "" {
				return s + "!"
			}
		}
	}
	return ""
}

// typeExists resolves a written type reference against the schema ("" when the named type is unknown).
func (t *tracker) typeExists(ref string) string {
	if ref == "" {
		return ""
	}
	if t.s.Type(model.T(ref).Name) == nil {
		return ""
	}
	return ref
}

// metaField returns the introspection meta fields available on parent.
func (t *tracker) fieldDef(parent, name string) *model.FieldDef {
	if parent == "" {
		return nil
	}
	switch name {
	case "__typename":
		return &model.FieldDef{Name: "__typename", Type: model.T("String!")}
	case "__schema":
		if parent == t.s.Query {
			return &model.FieldDef{Name: "__schema", Type: model.T("__Schema!")}
		}
		return nil
	case "__type":
		if parent == t.s.Query {
			return &model.FieldDef{Name: "__type", Type: model.T("__Type"), Args: []*model.ArgDef{{Name: "name", Type: model.T("String!")}}}
		}
		return nil
	}
	td := t.s.Type(parent)
	if td == nil || (td.Kind != model.KObject && td.Kind != model.KIface) {
		return nil
	}
	return td.Field(name)
}

func (t *tracker) state() TypeState {
	st := TypeState{Type: top(t.types), ParentType: top(t.parents), InputType: top(t.inputs), InputUnspecified: t.unspec > 0}
	if len(t.fields) > 0 && t.fields[len(t.fields)-1] != nil {
		st.FieldDef = t.fields[len(t.fields)-1].Name
	}
	if t.dir != nil {
		st.Directive = t.dir.Name
	}
	if t.arg != nil {
		st.Argument = t.arg.Name
	}
	return st
}

// TrackTypes computes the type state at every node of an executable document.
func TrackTypes(s *model.Schema, root *syn.Node) map[*syn.Node]TypeState {
	t := &tracker{s: s, out: map[*syn.Node]TypeState{}}
	t.walk(root)
	return t.out
}

func (t *tracker) walk(n *syn.Node) {
	if n == nil {
		return
	}
	// enter
	pop := func() {}
	switch n.Kind {
	case "SelectionSet":
		nt := t.named(top(t.types))
		p := ""
		if nt != "" && t.s.IsComposite(nt) {
			p = nt
		}
		t.parents = append(t.parents, p)
		pop = func() { t.parents = t.parents[:len(t.parents)-1] }
	case "Field":
		name := ""
		if nm := n.One("Name"); nm != nil {
			name = nm.Value
		}
		fd := t.fieldDef(top(t.parents), name)
		t.fields = append(t.fields, fd)
		ty := ""
		if fd != nil {
			ty = fd.Type.String()
		}
		t.types = append(t.types, ty)
		intro := name == "__schema" || name == "__type"
		if intro {
			t.unspec++ // the introspection types are not part of the model
		}
		pop = func() {
			t.fields = t.fields[:len(t.fields)-1]
			t.types = t.types[:len(t.types)-1]
			if intro {
				t.unspec--
			}
		}
	case "Directive":
		name := ""
		if nm := n.One("Name"); nm != nil {
			name = nm.Value
		}
		t.dir = t.s.Directive(name)
		t.dirKnown = true
		if t.dir == nil {
			t.unspec++
		}
		wasUnknown := t.dir == nil
		pop = func() {
			t.dir = nil
			t.dirKnown = false
			if wasUnknown {
				t.unspec--
			}
		}
	case "OperationDefinition":
		ty := ""
		switch n.Value {
		case "query":
			ty = t.s.Query
		case "mutation":
			ty = t.s.Mutation
		case "subscription":
			ty = t.s.Subscription
		}
		t.types = append(t.types, ty)
		pop = func() { t.types = t.types[:len(t.types)-1] }
	case "InlineFragment", "FragmentDefinition":
		ty := ""
		if tc := n.One("TypeCondition"); tc != nil {
			ty = t.typeExists(typeRefOf(tc))
		} else {
			ty = t.named(top(t.types))
		}
		bad := ty != "" && !t.s.IsOutputType(model.T(ty).Name)
		if bad {
			t.unspec++ // a type condition naming an input type: another rule's business
		}
		t.types = append(t.types, ty)
		pop = func() {
			t.types = t.types[:len(t.types)-1]
			if bad {
				t.unspec--
			}
		}
	case "VariableDefinition":
		ty := ""
		if tn := n.One("Type"); tn != nil {
			ty = t.typeExists(typeRefOf(tn))
		}
		bad := ty != "" && !t.s.IsInputType(model.T(ty).Name)
		if bad {
			t.unspec++
		}
		t.inputs = append(t.inputs, ty)
		pop = func() {
			t.inputs = t.inputs[:len(t.inputs)-1]
			if bad {
				t.unspec--
			}
		}
	case "Argument":
		name := ""
		if nm := n.One("Name"); nm != nil {
			name = nm.Value
		}
		var ad *model.ArgDef
		if t.dir != nil {
			ad = t.dir.Arg(name)
		} else if !t.dirKnown && len(t.fields) > 0 && t.fields[len(t.fields)-1] != nil {
			ad = t.fields[len(t.fields)-1].Arg(name)
		}
		t.arg = ad
		ty := ""
		if ad != nil {
			ty = ad.Type.String()
		}
		t.inputs = append(t.inputs, ty)
		pop = func() { t.arg = nil; t.inputs = t.inputs[:len(t.inputs)-1] }
	case "ListValue":
		ty := ""
		if cur := top(t.inputs); cur != "" {
			if r := model.T(cur).Nullable(); r.IsList() {
				ty = r.Inner().String()
			}
		}
		t.inputs = append(t.inputs, ty)
		pop = func() { t.inputs = t.inputs[:len(t.inputs)-1] }
	case "ObjectField":
		ty := ""
		if cur := top(t.inputs); cur != "" {
			if td := t.s.Type(model.T(cur).Name); td != nil && td.Kind == model.KInput {
				name := ""
				if nm := n.One("Name"); nm != nil {
					name = nm.Value
				}
				if f := td.InputField(name); f != nil {
					ty = f.Type.String()
				}
			}
		}
		t.inputs = append(t.inputs, ty)
		pop = func() { t.inputs = t.inputs[:len(t.inputs)-1] }
	}
	t.out[n] = t.state()
	for _, c := range n.Children {
		if c.Key == "Description" {
			continue
		}
		for _, ch := range c.Nodes {
			t.walk(ch)
		}
	}
	pop()
}
