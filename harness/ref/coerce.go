// Package ref holds the reference implementations (input coercion, execution, validation)
// written against the plain-data models only; nothing here imports the library.
package ref

import (
	"math"

	"verif/model"
)

// CustomParse is the model of every custom scalar's input side: strings are accepted and
// tagged, everything else is rejected.
func CustomParse(s string) interface{} { return "P:" + s }

// ---------------------------------------------------------------------------------------------
// Runtime (variable) values

// ValidVarValue reports whether a JSON-like value conforms to type t (DESIGN §3.3). The second
// result is false when the answer depends on a leniency the property is silent about
// (ambiguous) – callers do not generate those.
func ValidVarValue(s *model.Schema, t model.TypeRef, v *model.Val) bool {
	if v == nil || v.K == "null" {
		return !t.NonNull()
	}
	if t.NonNull() {
		return ValidVarValue(s, t.Inner(), v)
	}
	if t.IsList() {
		if v.K == "list" {
			for _, e := range v.L {
				if !ValidVarValue(s, t.Inner(), e) {
					return false
				}
			}
			return true
		}
		return ValidVarValue(s, t.Inner(), v)
	}
	td := s.Type(t.Name)
	if td == nil {
		return false
	}
	switch td.Kind {
	case model.KScalar:
		switch t.Name {
		case "Int":
			switch v.K {
			case "int":
				return v.I >= math.MinInt32 && v.I <= math.MaxInt32
			case "float":
				return v.F == math.Trunc(v.F) && v.F >= math.MinInt32 && v.F <= math.MaxInt32
			}
			return false
		case "Float":
			return v.K == "int" || (v.K == "float" && !math.IsInf(v.F, 0) && !math.IsNaN(v.F))
		case "String":
			return v.K == "str"
		case "Boolean":
			return v.K == "bool"
		case "ID":
			return v.K == "str" || v.K == "int"
		default:
			return v.K == "str"
		}
	case model.KEnum:
		return v.K == "str" && td.Value(v.S) != nil
	case model.KInput:
		if v.K != "obj" {
			return false
		}
		for _, f := range v.O {
			if td.InputField(f.N) == nil {
				return false
			}
		}
		for _, f := range td.InputFields {
			if !ValidVarValue(s, f.Type, v.Field(f.Name)) {
				return false
			}
		}
		return true
	}
	return false
}

// CoerceVarValue coerces a conformant runtime value to the Go value resolvers must see.
func CoerceVarValue(s *model.Schema, t model.TypeRef, v *model.Val) interface{} {
	if v == nil || v.K == "null" {
		return nil
	}
	if t.NonNull() {
		return CoerceVarValue(s, t.Inner(), v)
	}
	if t.IsList() {
		if v.K == "list" {
			out := make([]interface{}, 0, len(v.L))
			for _, e := range v.L {
				out = append(out, CoerceVarValue(s, t.Inner(), e))
			}
			return out
		}
		return []interface{}{CoerceVarValue(s, t.Inner(), v)}
	}
	td := s.Type(t.Name)
	switch td.Kind {
	case model.KScalar:
		switch t.Name {
		case "Int":
			if v.K == "float" {
				return int(v.F)
			}
			return int(v.I)
		case "Float":
			if v.K == "int" {
				return float64(v.I)
			}
			return v.F
		case "String":
			return v.S
		case "Boolean":
			return v.B
		case "ID":
			if v.K == "int" {
				return itoa(v.I)
			}
			return v.S
		default:
			return CustomParse(v.S)
		}
	case model.KEnum:
		return td.Value(v.S).InternalGo()
	case model.KInput:
		out := map[string]interface{}{}
		for _, f := range td.InputFields {
			fv := CoerceVarValue(s, f.Type, v.Field(f.Name))
			if fv == nil && f.Default != nil {
				fv = DefaultGo(s, f.Type, f.Default)
			}
			if fv != nil {
				out[f.Name] = fv
			}
		}
		return out
	}
	return nil
}

func itoa(i int64) string {
	if i == 0 {
		return "0"
	}
	neg := i < 0
	if neg {
		i = -i
	}
	var b []byte
	for i > 0 {
		b = append([]byte{byte('0' + i%10)}, b...)
		i /= 10
	}
	if neg {
		b = append([]byte{'-'}, b...)
	}
	return string(b)
}

// DefaultGo converts a configured default (a runtime value in the model, in external form; enum
// members by name) into the Go value the schema author supplies and resolvers receive: the
// internal value (enum internals, parsed custom scalars).
func DefaultGo(s *model.Schema, t model.TypeRef, v *model.Val) interface{} {
	if v == nil || v.K == "null" {
		return nil
	}
	if t.NonNull() {
		return DefaultGo(s, t.Inner(), v)
	}
	if t.IsList() {
		if v.K == "list" {
			out := make([]interface{}, 0, len(v.L))
			for _, e := range v.L {
				out = append(out, DefaultGo(s, t.Inner(), e))
			}
			return out
		}
		return DefaultGo(s, t.Inner(), v)
	}
	td := s.Type(t.Name)
	if td == nil {
		return v.ToGo()
	}
	switch td.Kind {
	case model.KEnum:
		if ev := td.Value(v.S); ev != nil {
			return ev.InternalGo()
		}
		return v.ToGo()
	case model.KInput:
		if v.K != "obj" {
			return v.ToGo()
		}
		out := map[string]interface{}{}
		for _, f := range v.O {
			ft := model.TypeRef{Name: "String"}
			if fd := td.InputField(f.N); fd != nil {
				ft = fd.Type
			}
			out[f.N] = DefaultGo(s, ft, f.V)
		}
		return out
	case model.KScalar:
		switch t.Name {
		case "Float":
			if v.K == "int" {
				return float64(v.I)
			}
		case "ID":
			if v.K == "int" {
				return itoa(v.I)
			}
		case "Int", "String", "Boolean":
		default:
			// custom scalar: the configured default is the internal value of the external form
			if v.K == "str" {
				return CustomParse(v.S)
			}
		}
	}
	return v.ToGo()
}

// VarError says why variable coercion failed (only the class is compared).
type VarError struct{ Var, Why string }

// CoerceVariables implements CoerceVariableValues for the operation's variable definitions.
// inputs holds the provided runtime values (missing key = not provided).
func CoerceVariables(s *model.Schema, defs []*model.VarDef, inputs map[string]*model.Val) (map[string]interface{}, *VarError) {
	out := map[string]interface{}{}
	for _, d := range defs {
		v := inputs[d.Name]
		if v == nil || v.K == "null" {
			if d.Default != nil {
				if lv, ok := LiteralValue(s, d.Type, d.Default, nil); ok && lv != nil {
					out[d.Name] = lv
				}
				continue
			}
			if d.Type.NonNull() {
				return nil, &VarError{d.Name, "required variable not provided"}
			}
			continue
		}
		if !ValidVarValue(s, d.Type, v) {
			return nil, &VarError{d.Name, "invalid value"}
		}
		if cv := CoerceVarValue(s, d.Type, v); cv != nil {
			out[d.Name] = cv
		}
	}
	return out, nil
}

// ---------------------------------------------------------------------------------------------
// Literals

// ValidLiteral is validation-time validity of a literal for a type (variables are accepted
// anywhere – their types are checked by another rule). Mirrors the spec's "values of correct
// type" for the edition in DESIGN §3.2: a missing non-null input field is invalid, unknown
// fields are invalid, a single value is acceptable where a list is expected.
func ValidLiteral(s *model.Schema, t model.TypeRef, v *model.Val) bool {
	if v == nil {
		return !t.NonNull()
	}
	if v.K == "var" {
		return true
	}
	if t.NonNull() {
		return ValidLiteral(s, t.Inner(), v)
	}
	if v.K == "null" {
		return false // no null literal in this edition (it does not even parse)
	}
	if t.IsList() {
		if v.K == "list" {
			for _, e := range v.L {
				if !ValidLiteral(s, t.Inner(), e) {
					return false
				}
			}
			return true
		}
		return ValidLiteral(s, t.Inner(), v)
	}
	td := s.Type(t.Name)
	if td == nil {
		return true // unknown type: some other rule reports it
	}
	switch td.Kind {
	case model.KScalar:
		switch t.Name {
		case "Int":
			return v.K == "int" && v.I >= math.MinInt32 && v.I <= math.MaxInt32
		case "Float":
			return v.K == "int" || v.K == "float"
		case "String":
			return v.K == "str"
		case "Boolean":
			return v.K == "bool"
		case "ID":
			return v.K == "str" || v.K == "int"
		default:
			return v.K == "str"
		}
	case model.KEnum:
		return v.K == "enum" && td.Value(v.S) != nil
	case model.KInput:
		if v.K != "obj" {
			return false
		}
		for _, f := range v.O {
			if td.InputField(f.N) == nil {
				return false
			}
		}
		for _, f := range td.InputFields {
			if !ValidLiteral(s, f.Type, v.Field(f.Name)) {
				return false
			}
		}
		return true
	}
	return false
}

// LiteralValue coerces a valid literal (possibly containing variables) to its Go value.
// ok is false if the literal is not valid for the type.
func LiteralValue(s *model.Schema, t model.TypeRef, v *model.Val, vars map[string]interface{}) (interface{}, bool) {
	if v == nil {
		return nil, true
	}
	if v.K == "var" {
		return vars[v.S], true
	}
	if t.NonNull() {
		return LiteralValue(s, t.Inner(), v, vars)
	}
	if t.IsList() {
		if v.K == "list" {
			out := make([]interface{}, 0, len(v.L))
			for _, e := range v.L {
				ev, ok := LiteralValue(s, t.Inner(), e, vars)
				if !ok {
					return nil, false
				}
				out = append(out, ev)
			}
			return out, true
		}
		ev, ok := LiteralValue(s, t.Inner(), v, vars)
		if !ok {
			return nil, false
		}
		return []interface{}{ev}, true
	}
	td := s.Type(t.Name)
	if td == nil {
		return nil, false
	}
	switch td.Kind {
	case model.KScalar:
		switch t.Name {
		case "Int":
			if v.K == "int" && v.I >= math.MinInt32 && v.I <= math.MaxInt32 {
				return int(v.I), true
			}
		case "Float":
			if v.K == "int" {
				return float64(v.I), true
			}
			if v.K == "float" {
				return v.F, true
			}
		case "String":
			if v.K == "str" {
				return v.S, true
			}
		case "Boolean":
			if v.K == "bool" {
				return v.B, true
			}
		case "ID":
			if v.K == "str" {
				return v.S, true
			}
			if v.K == "int" {
				return itoa(v.I), true
			}
		default:
			if v.K == "str" {
				return CustomParse(v.S), true
			}
		}
		return nil, false
	case model.KEnum:
		if v.K == "enum" {
			if ev := td.Value(v.S); ev != nil {
				return ev.InternalGo(), true
			}
		}
		return nil, false
	case model.KInput:
		if v.K != "obj" {
			return nil, false
		}
		out := map[string]interface{}{}
		for _, f := range v.O {
			if td.InputField(f.N) == nil {
				return nil, false
			}
		}
		for _, f := range td.InputFields {
			var fv interface{}
			if lit := v.Field(f.Name); lit != nil {
				x, ok := LiteralValue(s, f.Type, lit, vars)
				if !ok {
					return nil, false
				}
				fv = x
			}
			if fv == nil && f.Default != nil {
				fv = DefaultGo(s, f.Type, f.Default)
			}
			if fv != nil {
				out[f.Name] = fv
			}
		}
		return out, true
	}
	return nil, false
}

// ArgValues implements CoerceArgumentValues: an entry for every argument whose coerced value
// (or, failing that, its default) is non-null.
func ArgValues(s *model.Schema, defs []*model.ArgDef, args []*model.Arg, vars map[string]interface{}) map[string]interface{} {
	out := map[string]interface{}{}
	for _, d := range defs {
		var val interface{}
		for _, a := range args {
			if a.Name == d.Name {
				val, _ = LiteralValue(s, d.Type, a.Val, vars)
				break
			}
		}
		if val == nil && d.Default != nil {
			val = DefaultGo(s, d.Type, d.Default)
		}
		if val != nil {
			out[d.Name] = val
		}
	}
	return out
}
