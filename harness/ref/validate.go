package ref

// Reference implementation of the 24 validation rules (GraphQL specification, October 2016,
// section 5 "Validation") over the plain-data models. Written from the specification text; the
// library is not imported and its rule code was not consulted beyond rule names and order.
//
// Edition notes (October 2016):
//   - a rule that cannot resolve the definition it needs stays silent;
//   - "Required Non-Null Arguments" looks at the argument TYPE only (defaults are ignored);
//   - a variable with a default value is treated as non-null by "All Variable Usages are Allowed";
//   - a non-null variable must not have a default value;
//   - there is no null literal, and no "directives are unique per location" rule.
//
// Introspection types (__Schema, __Type, ...) are not modelled: their names exist, and every
// rule is silent inside selections whose parent type is one of them.

import (
	"fmt"
	"sort"
	"strings"

	"verif/model"
)

// RuleNames lists the 24 rules in the order of graphql.SpecifiedRules in /repo/rules.go.
var RuleNames = []string{
	"ArgumentsOfCorrectType",
	"DefaultValuesOfCorrectType",
	"FieldsOnCorrectType",
	"FragmentsOnCompositeTypes",
	"KnownArgumentNames",
	"KnownDirectives",
	"KnownFragmentNames",
	"KnownTypeNames",
	"LoneAnonymousOperation",
	"NoFragmentCycles",
	"NoUndefinedVariables",
	"NoUnusedFragments",
	"NoUnusedVariables",
	"OverlappingFieldsCanBeMerged",
	"PossibleFragmentSpreads",
	"ProvidedNonNullArguments",
	"ScalarLeafs",
	"UniqueArgumentNames",
	"UniqueFragmentNames",
	"UniqueInputFieldNames",
	"UniqueOperationNames",
	"UniqueVariableNames",
	"VariablesAreInputTypes",
	"VariablesInAllowedPosition",
}

// Violation: one rule is violated. Nodes are the model nodes at whose START an error location
// is acceptable (pointers into the Doc: *model.Def, *model.Sel, *model.Dir, *model.Arg,
// *model.VarDef, *model.Val, or model.PosKey{ptr,"name"|"type"|"on"|"field"}).
//
// Four further keys name positions the printer does not mark today (they are harmless until it
// does): PosKey{*Sel,"name"} of a fragment spread (the fragment name after `...`),
// PosKey{*Sel,"selset"} (the `{` of a field's sub-selection), PosKey{*VarDef,"name"} (the name
// after `$`) and PosKey{*VarDef,"typename"} (the named type inside list / non-null wrappers).
type Violation struct {
	Rule  string
	Nodes []interface{}
	Msg   string
}

func (v Violation) String() string { return v.Rule + ": " + v.Msg }

// Validate returns, per rule name, the violations of that rule (empty/missing = rule satisfied).
func Validate(s *model.Schema, d *model.Doc) map[string][]Violation {
	c := &valCtx{s: s, d: d, out: map[string][]Violation{},
		parent: map[*model.Sel]string{}, fdef: map[*model.Sel]*model.FieldDef{}, owner: map[*model.Sel]*model.Def{}}
	c.index()
	c.ruleOperations()
	c.ruleFragmentDefinitions()
	c.ruleSelections()
	c.ruleDirectivesAndArguments()
	c.ruleValues()
	c.ruleFragmentGraph()
	c.ruleVariables()
	c.ruleOverlap()
	return c.out
}

// Violated lists the names of the violated rules in RuleNames order.
func Violated(v map[string][]Violation) []string {
	var out []string
	for _, r := range RuleNames {
		if len(v[r]) > 0 {
			out = append(out, r)
		}
	}
	return out
}

// ---------------------------------------------------------------------------------------------
// Context and type information

type valSet struct {
	sel    []*model.Sel
	parent string // composite type whose fields are selected ("" = unknown / not composite)
	def    *model.Def
}

// valDirSite is one place where directives are applied.
type valDirSite struct {
	dirs []*model.Dir
	loc  string
	def  *model.Def
}

type valCtx struct {
	s   *model.Schema
	d   *model.Doc
	out map[string][]Violation

	parent map[*model.Sel]string          // selection → parent type of the set it sits in
	fdef   map[*model.Sel]*model.FieldDef // field selection → definition (nil = unknown)
	owner  map[*model.Sel]*model.Def
	sets   []valSet
	sels   []*model.Sel // every selection, document order
	dirs   []valDirSite
}

func (c *valCtx) add(rule, msg string, nodes ...interface{}) {
	c.out[rule] = append(c.out[rule], Violation{Rule: rule, Nodes: nodes, Msg: msg})
}

// typeExists: built-in scalars, schema types, and the introspection types (by prefix).
func (c *valCtx) typeExists(name string) bool {
	return c.s.Type(name) != nil || strings.HasPrefix(name, "__")
}

func (c *valCtx) composite(name string) string {
	if name != "" && c.s.IsComposite(name) {
		return name
	}
	return ""
}

func (c *valCtx) rootType(kind string) string {
	switch kind {
	case "query":
		return c.composite(c.s.Query)
	case "mutation":
		return c.composite(c.s.Mutation)
	case "subscription":
		return c.composite(c.s.Subscription)
	}
	return ""
}

// fieldDef implements "field must be defined on the type in scope", including the meta fields.
func (c *valCtx) fieldDef(parent, name string) *model.FieldDef {
	if parent == "" {
		return nil
	}
	switch name {
	case "__typename":
		return &model.FieldDef{Name: name, Type: model.T("String!")}
	case "__schema":
		if parent == c.s.Query {
			return &model.FieldDef{Name: name, Type: model.T("__Schema!")}
		}
		return nil
	case "__type":
		if parent == c.s.Query {
			return &model.FieldDef{Name: name, Type: model.T("__Type"), Args: []*model.ArgDef{{Name: "name", Type: model.T("String!")}}}
		}
		return nil
	}
	td := c.s.Type(parent)
	if td == nil || (td.Kind != model.KObject && td.Kind != model.KIface) {
		return nil
	}
	return td.Field(name)
}

func (c *valCtx) index() {
	for _, def := range c.d.Defs {
		if def.Kind == "fragment" {
			c.dirs = append(c.dirs, valDirSite{def.Dirs, "FRAGMENT_DEFINITION", def})
			c.walk(def.Sel, c.composite(def.TypeCond), def)
		} else {
			c.dirs = append(c.dirs, valDirSite{def.Dirs, strings.ToUpper(def.Kind), def})
			c.walk(def.Sel, c.rootType(def.Kind), def)
		}
	}
}

func (c *valCtx) walk(sel []*model.Sel, parent string, def *model.Def) {
	c.sets = append(c.sets, valSet{sel, parent, def})
	for _, x := range sel {
		c.parent[x] = parent
		c.owner[x] = def
		c.sels = append(c.sels, x)
		switch x.K {
		case "field":
			c.dirs = append(c.dirs, valDirSite{x.Dirs, "FIELD", def})
			fd := c.fieldDef(parent, x.Name)
			c.fdef[x] = fd
			if len(x.Sel) > 0 {
				sub := ""
				if fd != nil {
					sub = c.composite(fd.Type.Name)
				}
				c.walk(x.Sel, sub, def)
			}
		case "inline":
			c.dirs = append(c.dirs, valDirSite{x.Dirs, "INLINE_FRAGMENT", def})
			p := parent
			if x.TypeCond != "" {
				p = c.composite(x.TypeCond)
			}
			c.walk(x.Sel, p, def)
		case "spread":
			c.dirs = append(c.dirs, valDirSite{x.Dirs, "FRAGMENT_SPREAD", def})
		}
	}
}

// ---------------------------------------------------------------------------------------------
// 5.1 Operations

func (c *valCtx) ruleOperations() {
	ops := c.d.Operations()
	// 5.1.1.1 Operation Name Uniqueness
	byName := map[string][]*model.Def{}
	for _, op := range ops {
		if op.Name != "" {
			byName[op.Name] = append(byName[op.Name], op)
		}
	}
	for _, name := range sortedKeys(byName) {
		if l := byName[name]; len(l) > 1 {
			var nodes []interface{}
			for _, op := range l {
				nodes = append(nodes, op, model.PosKey{Ptr: op, What: "name"})
			}
			c.add("UniqueOperationNames", fmt.Sprintf("operation name %q defined %d times", name, len(l)), nodes...)
		}
	}
	// 5.1.2.1 Lone Anonymous Operation
	if len(ops) > 1 {
		for _, op := range ops {
			if op.Name == "" {
				c.add("LoneAnonymousOperation", "anonymous operation is not the only operation", op)
			}
		}
	}
}

// ---------------------------------------------------------------------------------------------
// 5.4.1 Fragment declarations, and type names

func (c *valCtx) ruleFragmentDefinitions() {
	// 5.4.1.1 Fragment Name Uniqueness
	byName := map[string][]*model.Def{}
	for _, f := range c.d.Fragments() {
		byName[f.Name] = append(byName[f.Name], f)
	}
	for _, name := range sortedKeys(byName) {
		if l := byName[name]; len(l) > 1 {
			var nodes []interface{}
			for _, f := range l {
				nodes = append(nodes, f, model.PosKey{Ptr: f, What: "name"})
			}
			c.add("UniqueFragmentNames", fmt.Sprintf("fragment name %q defined %d times", name, len(l)), nodes...)
		}
	}
	// 5.4.1.2 Fragment Spread Type Existence / 5.4.1.3 Fragments On Composite Types
	cond := func(name string, node interface{}) {
		on := model.PosKey{Ptr: node, What: "on"}
		if !c.typeExists(name) {
			c.add("KnownTypeNames", fmt.Sprintf("unknown type %q in type condition", name), on, node)
			return
		}
		if c.s.Type(name) != nil && !c.s.IsComposite(name) {
			c.add("FragmentsOnCompositeTypes", fmt.Sprintf("type condition on non-composite type %q", name), on, node)
		}
	}
	for _, f := range c.d.Fragments() {
		cond(f.TypeCond, f)
	}
	for _, x := range c.sels {
		if x.K == "inline" && x.TypeCond != "" {
			cond(x.TypeCond, x)
		}
	}
	// variable types: existence (any wrapping) and 5.7.3 Variables Are Input Types
	for _, op := range c.d.Operations() {
		for _, v := range op.Vars {
			ty := model.PosKey{Ptr: v, What: "type"}
			if !c.typeExists(v.Type.Name) {
				c.add("KnownTypeNames", fmt.Sprintf("unknown type %q of variable $%s", v.Type.Name, v.Name), ty, v, model.PosKey{Ptr: v, What: "typename"})
				continue
			}
			if c.s.Type(v.Type.Name) != nil && !c.s.IsInputType(v.Type.Name) {
				c.add("VariablesAreInputTypes", fmt.Sprintf("variable $%s has non-input type %s", v.Name, v.Type), ty, v)
			}
		}
	}
}

// ---------------------------------------------------------------------------------------------
// 5.2.1 Field selections, 5.2.3 Leaf field selections, 5.4.2.1 / 5.4.2.3 spreads

func (c *valCtx) possible(name string) map[string]bool {
	out := map[string]bool{}
	for _, p := range c.s.PossibleTypes(name) {
		out[p] = true
	}
	return out
}

func (c *valCtx) canOverlap(a, b string) bool {
	pa := c.possible(a)
	for _, p := range c.s.PossibleTypes(b) {
		if pa[p] {
			return true
		}
	}
	return false
}

func (c *valCtx) ruleSelections() {
	for _, x := range c.sels {
		parent := c.parent[x]
		switch x.K {
		case "field":
			fd := c.fdef[x]
			if fd == nil {
				if parent != "" {
					c.add("FieldsOnCorrectType", fmt.Sprintf("no field %q on type %s", x.Name, parent), x, model.PosKey{Ptr: x, What: "name"})
				}
				continue
			}
			switch {
			case c.s.IsLeaf(fd.Type.Name) && len(x.Sel) > 0:
				c.add("ScalarLeafs", fmt.Sprintf("field %q of leaf type %s has a sub-selection", x.Name, fd.Type), x, model.PosKey{Ptr: x, What: "name"}, model.PosKey{Ptr: x, What: "selset"})
			case c.s.IsComposite(fd.Type.Name) && len(x.Sel) == 0:
				c.add("ScalarLeafs", fmt.Sprintf("field %q of composite type %s has no sub-selection", x.Name, fd.Type), x, model.PosKey{Ptr: x, What: "name"})
			}
		case "spread":
			f := c.d.Fragment(x.Name)
			if f == nil {
				c.add("KnownFragmentNames", fmt.Sprintf("unknown fragment %q", x.Name), x, model.PosKey{Ptr: x, What: "name"})
				continue
			}
			if cond := c.composite(f.TypeCond); cond != "" && parent != "" && !c.canOverlap(cond, parent) {
				c.add("PossibleFragmentSpreads", fmt.Sprintf("fragment %q on %s can never apply inside %s", x.Name, cond, parent), x)
			}
		case "inline":
			if x.TypeCond == "" {
				continue
			}
			if cond := c.composite(x.TypeCond); cond != "" && parent != "" && !c.canOverlap(cond, parent) {
				c.add("PossibleFragmentSpreads", fmt.Sprintf("inline fragment on %s can never apply inside %s", cond, parent), x)
			}
		}
	}
}

// ---------------------------------------------------------------------------------------------
// 5.6 Directives, 5.3 Arguments

func valHasLoc(d *model.DirectiveDef, loc string) bool {
	for _, l := range d.Locations {
		if l == loc {
			return true
		}
	}
	return false
}

func (c *valCtx) checkArgs(what string, defs []*model.ArgDef, args []*model.Arg, node interface{}) {
	find := func(name string) *model.ArgDef {
		for _, a := range defs {
			if a.Name == name {
				return a
			}
		}
		return nil
	}
	for _, a := range args {
		ad := find(a.Name)
		if ad == nil {
			// 5.3.1 Argument Names
			c.add("KnownArgumentNames", fmt.Sprintf("unknown argument %q on %s", a.Name, what), a)
			continue
		}
		// 5.3.3.1 Compatible Values
		if c.s.Type(ad.Type.Name) != nil && c.s.IsInputType(ad.Type.Name) && !ValidLiteral(c.s, ad.Type, a.Val) {
			c.add("ArgumentsOfCorrectType", fmt.Sprintf("argument %q of %s: %s is not a valid %s", a.Name, what, model.ValString(a.Val), ad.Type), a.Val, a)
		}
	}
	// 5.3.3.2 Required Non-Null Arguments (this edition: by type only, defaults ignored)
	for _, ad := range defs {
		if !ad.Type.NonNull() {
			continue
		}
		found := false
		for _, a := range args {
			if a.Name == ad.Name {
				found = true
			}
		}
		if !found {
			c.add("ProvidedNonNullArguments", fmt.Sprintf("%s: required argument %q of type %s missing", what, ad.Name, ad.Type), node)
		}
	}
}

func (c *valCtx) uniqueArgs(what string, args []*model.Arg) {
	// 5.3.2 Argument Uniqueness
	byName := map[string][]*model.Arg{}
	for _, a := range args {
		byName[a.Name] = append(byName[a.Name], a)
	}
	for _, name := range sortedKeys(byName) {
		if l := byName[name]; len(l) > 1 {
			var nodes []interface{}
			for _, a := range l {
				nodes = append(nodes, a)
			}
			c.add("UniqueArgumentNames", fmt.Sprintf("argument %q given %d times on %s", name, len(l), what), nodes...)
		}
	}
}

func (c *valCtx) ruleDirectivesAndArguments() {
	for _, x := range c.sels {
		if x.K != "field" {
			continue
		}
		c.uniqueArgs("field "+x.Name, x.Args)
		if fd := c.fdef[x]; fd != nil {
			c.checkArgs("field "+x.Name, fd.Args, x.Args, x)
		}
	}
	for _, site := range c.dirs {
		for _, dir := range site.dirs {
			c.uniqueArgs("directive @"+dir.Name, dir.Args)
			dd := c.s.Directive(dir.Name)
			if dd == nil {
				// 5.6.1 Directives Are Defined
				c.add("KnownDirectives", fmt.Sprintf("unknown directive @%s", dir.Name), dir)
				continue
			}
			if !valHasLoc(dd, site.loc) {
				// 5.6.2 Directives Are In Valid Locations
				c.add("KnownDirectives", fmt.Sprintf("directive @%s not allowed on %s", dir.Name, site.loc), dir)
			}
			c.checkArgs("directive @"+dir.Name, dd.Args, dir.Args, dir)
		}
	}
}

// ---------------------------------------------------------------------------------------------
// 5.5.1 Input Object Field Uniqueness (arguments of fields and directives, variable defaults)

func (c *valCtx) uniqueInputFields(v *model.Val) {
	if v == nil {
		return
	}
	for _, e := range v.L {
		c.uniqueInputFields(e)
	}
	if v.K != "obj" {
		return
	}
	byName := map[string][]*model.Val{}
	for _, f := range v.O {
		byName[f.N] = append(byName[f.N], f.V)
		c.uniqueInputFields(f.V)
	}
	for _, name := range sortedKeys(byName) {
		if l := byName[name]; len(l) > 1 {
			var nodes []interface{}
			for _, fv := range l {
				nodes = append(nodes, model.PosKey{Ptr: fv, What: "field"}, fv)
			}
			c.add("UniqueInputFieldNames", fmt.Sprintf("input field %q given %d times", name, len(l)), nodes...)
		}
	}
}

func (c *valCtx) ruleValues() {
	for _, x := range c.sels {
		for _, a := range x.Args {
			c.uniqueInputFields(a.Val)
		}
	}
	for _, site := range c.dirs {
		for _, dir := range site.dirs {
			for _, a := range dir.Args {
				c.uniqueInputFields(a.Val)
			}
		}
	}
	for _, op := range c.d.Operations() {
		for _, v := range op.Vars {
			c.uniqueInputFields(v.Default)
		}
	}
}

// ---------------------------------------------------------------------------------------------
// 5.4.1.4 Fragments Must Be Used, 5.4.2.2 Fragment spreads must not form cycles

func valSpreads(sel []*model.Sel, out *[]*model.Sel) {
	for _, x := range sel {
		if x.K == "spread" {
			*out = append(*out, x)
		} else {
			valSpreads(x.Sel, out)
		}
	}
}

// reachable: fragment names reachable from a selection set through spreads (transitively;
// a name resolves to the first definition of that name; undefined names are kept in the set).
func (c *valCtx) reachable(sel []*model.Sel) map[string]bool {
	seen := map[string]bool{}
	var visit func(sel []*model.Sel)
	visit = func(sel []*model.Sel) {
		var sp []*model.Sel
		valSpreads(sel, &sp)
		for _, x := range sp {
			if seen[x.Name] {
				continue
			}
			seen[x.Name] = true
			if f := c.d.Fragment(x.Name); f != nil {
				visit(f.Sel)
			}
		}
	}
	visit(sel)
	return seen
}

func (c *valCtx) ruleFragmentGraph() {
	used := map[string]bool{}
	for _, op := range c.d.Operations() {
		for n := range c.reachable(op.Sel) {
			used[n] = true
		}
	}
	for _, f := range c.d.Fragments() {
		if !used[f.Name] {
			c.add("NoUnusedFragments", fmt.Sprintf("fragment %q is not used by any operation", f.Name), f, model.PosKey{Ptr: f, What: "name"})
		}
	}
	// A spread of B inside fragment A lies on a cycle iff A is reachable from B (or A == B).
	// Only the first definition of a fragment name takes part in the graph.
	var onCycle []interface{}
	for _, x := range c.sels {
		g := c.owner[x]
		if x.K != "spread" || g.Kind != "fragment" || c.d.Fragment(g.Name) != g {
			continue
		}
		tgt := c.d.Fragment(x.Name)
		if tgt == nil {
			continue
		}
		if tgt == g || c.reachable(tgt.Sel)[g.Name] {
			onCycle = append(onCycle, x)
		}
	}
	for _, f := range c.d.Fragments() {
		if c.d.Fragment(f.Name) == f && c.reachable(f.Sel)[f.Name] {
			c.add("NoFragmentCycles", fmt.Sprintf("fragment %q can spread itself", f.Name), onCycle...)
		}
	}
}

// ---------------------------------------------------------------------------------------------
// 5.7 Variables

// valUsage is one occurrence of a variable inside an argument value.
type valUsage struct {
	name  string
	val   *model.Val
	typ   model.TypeRef // type expected at the position
	typed bool          // typ is known
}

func (c *valCtx) usagesInValue(v *model.Val, typ model.TypeRef, typed bool, out *[]valUsage) {
	if v == nil {
		return
	}
	switch v.K {
	case "var":
		*out = append(*out, valUsage{v.S, v, typ, typed})
	case "list":
		it, ok := model.TypeRef{}, false
		if typed && typ.Nullable().IsList() {
			it, ok = typ.Nullable().Inner(), true
		}
		for _, e := range v.L {
			c.usagesInValue(e, it, ok, out)
		}
	case "obj":
		var td *model.TypeDef
		if typed {
			// an object literal in a list position stands for a list of one item
			if t := c.s.Type(typ.Name); t != nil && t.Kind == model.KInput {
				td = t
			}
		}
		for _, f := range v.O {
			if td != nil {
				if fd := td.InputField(f.N); fd != nil {
					c.usagesInValue(f.V, fd.Type, true, out)
					continue
				}
			}
			c.usagesInValue(f.V, model.TypeRef{}, false, out)
		}
	}
}

func (c *valCtx) usagesInArgs(defs []*model.ArgDef, known bool, args []*model.Arg, out *[]valUsage) {
	for _, a := range args {
		var ad *model.ArgDef
		if known {
			for _, d := range defs {
				if d.Name == a.Name {
					ad = d
				}
			}
		}
		if ad != nil && c.s.Type(ad.Type.Name) != nil {
			c.usagesInValue(a.Val, ad.Type, true, out)
		} else {
			c.usagesInValue(a.Val, model.TypeRef{}, false, out)
		}
	}
}

func (c *valCtx) usagesInDirs(dirs []*model.Dir, out *[]valUsage) {
	for _, dir := range dirs {
		dd := c.s.Directive(dir.Name)
		if dd != nil {
			c.usagesInArgs(dd.Args, true, dir.Args, out)
		} else {
			c.usagesInArgs(nil, false, dir.Args, out)
		}
	}
}

func (c *valCtx) usagesInSel(sel []*model.Sel, out *[]valUsage) {
	for _, x := range sel {
		if x.K == "field" {
			if fd := c.fdef[x]; fd != nil {
				c.usagesInArgs(fd.Args, true, x.Args, out)
			} else {
				c.usagesInArgs(nil, false, x.Args, out)
			}
		}
		c.usagesInDirs(x.Dirs, out)
		c.usagesInSel(x.Sel, out)
	}
}

// usagesOf: the variable usages in scope of an operation: its own directives and selections
// plus those of every fragment it references transitively.
func (c *valCtx) usagesOf(op *model.Def) []valUsage {
	var out []valUsage
	c.usagesInDirs(op.Dirs, &out)
	c.usagesInSel(op.Sel, &out)
	reach := c.reachable(op.Sel)
	for _, f := range c.d.Fragments() {
		if reach[f.Name] && c.d.Fragment(f.Name) == f {
			c.usagesInDirs(f.Dirs, &out)
			c.usagesInSel(f.Sel, &out)
		}
	}
	return out
}

// valSubtype: may a variable of type v flow into a position of type p? (T! ≤ T, [A] ≤ [B] if
// A ≤ B, named types equal.)
func valSubtype(v, p model.TypeRef) bool {
	if p.NonNull() {
		if !v.NonNull() {
			return false
		}
		return valSubtype(v.Inner(), p.Inner())
	}
	if v.NonNull() {
		return valSubtype(v.Inner(), p)
	}
	if p.IsList() {
		if !v.IsList() {
			return false
		}
		return valSubtype(v.Inner(), p.Inner())
	}
	if v.IsList() {
		return false
	}
	return v.Name == p.Name
}

func (c *valCtx) ruleVariables() {
	for _, op := range c.d.Operations() {
		opName := op.Name
		if opName == "" {
			opName = "<anonymous>"
		}
		// 5.7.1 Variable Uniqueness
		byName := map[string][]*model.VarDef{}
		for _, v := range op.Vars {
			byName[v.Name] = append(byName[v.Name], v)
		}
		for _, name := range sortedKeys(byName) {
			if l := byName[name]; len(l) > 1 {
				var nodes []interface{}
				for _, v := range l {
					nodes = append(nodes, v, model.PosKey{Ptr: v, What: "name"})
				}
				c.add("UniqueVariableNames", fmt.Sprintf("variable $%s defined %d times in %s", name, len(l), opName), nodes...)
			}
		}
		// 5.7.2 Variable Default Values Are Correctly Typed
		for _, v := range op.Vars {
			if v.Default == nil {
				continue
			}
			if c.s.Type(v.Type.Name) == nil {
				continue // unknown type: KnownTypeNames reports it, this rule stays silent (DESIGN §3.2)
			}
			if v.Type.NonNull() {
				c.add("DefaultValuesOfCorrectType", fmt.Sprintf("variable $%s of non-null type %s has a default", v.Name, v.Type), v.Default, v)
				continue
			}
			if c.s.Type(v.Type.Name) != nil && c.s.IsInputType(v.Type.Name) && !ValidLiteral(c.s, v.Type, v.Default) {
				c.add("DefaultValuesOfCorrectType", fmt.Sprintf("default %s of $%s is not a valid %s", model.ValString(v.Default), v.Name, v.Type), v.Default, v)
			}
		}
		usages := c.usagesOf(op)
		used := map[string]bool{}
		for _, u := range usages {
			used[u.name] = true
			defs := byName[u.name]
			if len(defs) == 0 {
				// 5.7.4 All Variable Uses Defined
				c.add("NoUndefinedVariables", fmt.Sprintf("variable $%s is not defined by %s", u.name, opName), u.val, op)
				continue
			}
			// 5.7.6 All Variable Usages are Allowed. With several definitions of one name
			// (already a violation of 5.7.1) the usage is only blamed when no definition fits.
			if !u.typed {
				continue
			}
			fits, known := false, true
			for _, vd := range defs {
				if c.s.Type(vd.Type.Name) == nil {
					known = false
					continue
				}
				eff := vd.Type
				if vd.Default != nil && !eff.NonNull() {
					eff = model.TypeRef{Name: eff.Name, Wrap: "!" + eff.Wrap}
				}
				if valSubtype(eff, u.typ) {
					fits = true
				}
			}
			if !fits && known {
				nodes := []interface{}{u.val}
				for _, vd := range defs {
					nodes = append(nodes, vd)
				}
				c.add("VariablesInAllowedPosition", fmt.Sprintf("variable $%s of type %s used where %s is expected (in %s)", u.name, defs[0].Type, u.typ, opName), nodes...)
			}
		}
		// 5.7.5 All Variables Used
		for _, v := range op.Vars {
			if !used[v.Name] {
				c.add("NoUnusedVariables", fmt.Sprintf("variable $%s is never used in %s", v.Name, opName), v)
			}
		}
	}
}

// ---------------------------------------------------------------------------------------------
// 5.2.2 Field Selection Merging

type valConflict struct {
	a, b   *model.Sel
	reason string
	sub    *valConflict
	// more: the other conflicting pairs among the same sub-selections (any of them may be the
	// one an implementation names)
	more []*valConflict
}

func (k *valConflict) nodes(out *[]interface{}) {
	for ; k != nil; k = k.sub {
		*out = append(*out, k.a, k.b)
		for _, m := range k.more {
			m.nodes(out)
		}
	}
}

func (k *valConflict) String() string {
	s := fmt.Sprintf("%q: %s", k.a.Key(), k.reason)
	if k.sub != nil {
		s += " → " + k.sub.String()
	}
	return s
}

type valPair struct{ a, b *model.Sel }

type valOverlap struct {
	c *valCtx
	// memo: pair → state (1 = in progress / assumed fine, 2 = done) and result
	mergeState map[valPair]int
	mergeRes   map[valPair]*valConflict
	shapeState map[valPair]int
	shapeRes   map[valPair]*valConflict
}

// fieldsOf expands selection sets into the field selections they contain, visiting every
// named fragment at most once (the first definition of a name; unknown names are ignored).
func (o *valOverlap) fieldsOf(sets ...[]*model.Sel) []*model.Sel {
	var out []*model.Sel
	visited := map[string]bool{}
	var walk func(sel []*model.Sel)
	walk = func(sel []*model.Sel) {
		for _, x := range sel {
			switch x.K {
			case "field":
				out = append(out, x)
			case "inline":
				walk(x.Sel)
			case "spread":
				if visited[x.Name] {
					continue
				}
				visited[x.Name] = true
				if f := o.c.d.Fragment(x.Name); f != nil {
					walk(f.Sel)
				}
			}
		}
	}
	for _, s := range sets {
		walk(s)
	}
	return out
}

func valSameArgs(a, b []*model.Arg) bool {
	if len(a) != len(b) {
		return false
	}
	for _, x := range a {
		found := false
		for _, y := range b {
			if x.Name == y.Name && model.ValString(x.Val) == model.ValString(y.Val) {
				found = true
				break
			}
		}
		if !found {
			return false
		}
	}
	return true
}

func valByKey(fields []*model.Sel) (keys []string, groups map[string][]*model.Sel) {
	groups = map[string][]*model.Sel{}
	for _, f := range fields {
		k := f.Key()
		if _, ok := groups[k]; !ok {
			keys = append(keys, k)
		}
		groups[k] = append(groups[k], f)
	}
	return
}

// sameShape is SameResponseShape(fieldA, fieldB); nil = same shape.
func (o *valOverlap) sameShape(a, b *model.Sel) *valConflict {
	if a == b {
		return nil
	}
	key := valPair{a, b}
	if o.shapeState[key] != 0 {
		return o.shapeRes[key]
	}
	o.shapeState[key] = 1
	res := o.sameShape1(a, b)
	o.shapeState[key], o.shapeRes[key] = 2, res
	o.shapeState[valPair{b, a}], o.shapeRes[valPair{b, a}] = 2, res
	return res
}

func (o *valOverlap) sameShape1(a, b *model.Sel) *valConflict {
	fa, fb := o.c.fdef[a], o.c.fdef[b]
	if fa == nil || fb == nil {
		return nil // unknown field: FieldsOnCorrectType reports it
	}
	ta, tb := fa.Type, fb.Type
	if ta.Wrap != tb.Wrap {
		return &valConflict{a: a, b: b, reason: fmt.Sprintf("return types %s and %s differ in list/non-null structure", ta, tb)}
	}
	s := o.c.s
	if s.Type(ta.Name) == nil || s.Type(tb.Name) == nil {
		return nil // introspection types are not modelled
	}
	if s.IsLeaf(ta.Name) || s.IsLeaf(tb.Name) {
		if ta.Name == tb.Name {
			return nil
		}
		return &valConflict{a: a, b: b, reason: fmt.Sprintf("return types %s and %s are different types", ta, tb)}
	}
	if !s.IsComposite(ta.Name) || !s.IsComposite(tb.Name) {
		return &valConflict{a: a, b: b, reason: fmt.Sprintf("return types %s and %s", ta, tb)}
	}
	keys, groups := valByKey(o.fieldsOf(a.Sel, b.Sel))
	for _, k := range keys {
		g := groups[k]
		for i := 0; i < len(g); i++ {
			for j := i + 1; j < len(g); j++ {
				if sub := o.sameShape(g[i], g[j]); sub != nil {
					return &valConflict{a: a, b: b, reason: "sub-selections differ in shape", sub: sub}
				}
			}
		}
	}
	return nil
}

func (o *valOverlap) isObject(name string) bool {
	return name != "" && o.c.s.Kind(name) == model.KObject
}

// canMerge checks one pair of FieldsInSetCanMerge; nil = the pair can be merged.
func (o *valOverlap) canMerge(a, b *model.Sel) *valConflict {
	if a == b {
		return nil
	}
	key := valPair{a, b}
	if o.mergeState[key] != 0 {
		return o.mergeRes[key]
	}
	o.mergeState[key] = 1
	res := o.canMerge1(a, b)
	o.mergeState[key], o.mergeRes[key] = 2, res
	o.mergeState[valPair{b, a}], o.mergeRes[valPair{b, a}] = 2, res
	return res
}

func (o *valOverlap) canMerge1(a, b *model.Sel) *valConflict {
	if k := o.sameShape(a, b); k != nil {
		return k
	}
	pa, pb := o.c.parent[a], o.c.parent[b]
	if pa != pb && o.isObject(pa) && o.isObject(pb) {
		return nil // different object types: the two fields can never both apply
	}
	if a.Name != b.Name {
		return &valConflict{a: a, b: b, reason: fmt.Sprintf("%s and %s are different fields", a.Name, b.Name)}
	}
	if !valSameArgs(a.Args, b.Args) {
		return &valConflict{a: a, b: b, reason: "they have differing arguments"}
	}
	if subs := o.allConflicts(o.fieldsOf(a.Sel, b.Sel)); len(subs) > 0 {
		return &valConflict{a: a, b: b, reason: "sub-selections conflict", sub: subs[0], more: subs[1:]}
	}
	return nil
}

// setCanMerge is FieldsInSetCanMerge over an expanded set; it returns the first conflict.
func (o *valOverlap) setCanMerge(fields []*model.Sel) *valConflict {
	for _, k := range o.allConflicts(fields) {
		return k
	}
	return nil
}

func (o *valOverlap) allConflicts(fields []*model.Sel) []*valConflict {
	var out []*valConflict
	keys, groups := valByKey(fields)
	for _, k := range keys {
		g := groups[k]
		for i := 0; i < len(g); i++ {
			for j := i + 1; j < len(g); j++ {
				if k := o.canMerge(g[i], g[j]); k != nil {
					out = append(out, k)
				}
			}
		}
	}
	return out
}

func (c *valCtx) ruleOverlap() {
	o := &valOverlap{c: c, mergeState: map[valPair]int{}, mergeRes: map[valPair]*valConflict{},
		shapeState: map[valPair]int{}, shapeRes: map[valPair]*valConflict{}}
	seen := map[valPair]bool{}
	// "for each selection set in the document": operations, fragment definitions, field
	// sub-selections and inline fragment bodies (c.sets holds them all)
	for _, set := range c.sets {
		for _, k := range o.allConflicts(o.fieldsOf(set.sel)) {
			if seen[valPair{k.a, k.b}] || seen[valPair{k.b, k.a}] {
				continue
			}
			seen[valPair{k.a, k.b}] = true
			var nodes []interface{}
			k.nodes(&nodes)
			c.add("OverlappingFieldsCanBeMerged", "fields conflict on response key "+k.String(), nodes...)
		}
	}
}

func sortedKeys[V any](m map[string]V) []string {
	out := make([]string, 0, len(m))
	for k := range m {
		out = append(out, k)
	}
	sort.Strings(out)
	return out
}
