package ref

import (
	"fmt"
	"hash/fnv"
	"math"
	"strings"

	"verif/model"
)

// Tok is the value every object position resolves to: a distinct pointer that names the
// runtime object type and the response path it was produced at, so Source identity can be checked.
type Tok struct {
	Type string
	ID   string
}

func (t *Tok) String() string { return "Tok(" + t.Type + "@" + t.ID + ")" }

// Outcome overrides what a callback does at one response path. Kinds for resolvers:
//
//	nil err valerr panic_err panic_str panic_int thunk thunk_err thunk_nil
//	notlist (a non-iterable where a list is expected) badleaf (a value the leaf type cannot
//	serialise) nan inf bigint badenum typednil leafpanic (the serializer raises)
//
// Kinds for runtime-type decisions (key = path + "#type"): rt_nil, rt_nonmember, istypeof_false.
type Outcome struct {
	Kind string `json:"kind"`
	Arg  string `json:"arg,omitempty"`
}

// World fixes what every resolver / type resolver / isTypeOf returns as a pure function of
// (response path, field, arguments). The library-side resolvers (build/) and the reference
// interpreter both ask the World, so they agree on inputs and differ only in the algorithm.
type World struct {
	S        *model.Schema      `json:"-"`
	Salt     int                `json:"salt"`
	Outcomes map[string]Outcome `json:"outcomes,omitempty"`
	// NullRate: 1 in NullRate default values in nullable positions are nil (0 = never).
	NullRate int `json:"nullRate,omitempty"`
	// MaxList bounds default list lengths (default 3).
	MaxList int `json:"maxList,omitempty"`
	// ThunkRate: 1 in ThunkRate fields and list elements (by hash of the path) are returned as
	// deferred values (0 = only where Outcomes say so). For checks without an exact oracle.
	ThunkRate int `json:"thunkRate,omitempty"`
	// LooseTypeOf: every isTypeOf answers true for every object value, so an abstract type
	// without a type resolver resolves to the first possible type the library asks: the order in
	// which it asks becomes visible in the response. For self-comparison checks only.
	LooseTypeOf bool `json:"looseTypeOf,omitempty"`
	// TypedLeaves: leaf values of the built-in scalars are handed over as the Go types a resolver may well use
	// (int8..int64, uint16, uint64, float32, whole floats for Int, whole ints for Float, pointers to them) instead of
	// always int / float64 / string / bool; which one is a function of the path, and the value they denote is the same.
	TypedLeaves bool `json:"typedLeaves,omitempty"`
	// TypedLists: lists whose elements all have one Go type are handed over as slices of that type ([]int, []string,
	// []*Tok, [][]int) instead of []interface{} (library side only; the value denoted is the same).
	TypedLists bool `json:"typedLists,omitempty"`
}

// retype hands a leaf value over as another Go type denoting the same value.
func (w *World) retype(name string, v interface{}, hv uint32) interface{} {
	if !w.TypedLeaves {
		return v
	}
	k := (hv >> 9) % 9
	switch x := v.(type) {
	case int:
		if name == "Float" {
			return v
		}
		switch k {
		case 1:
			return int32(x)
		case 2:
			return int64(x)
		case 3:
			return int16(x)
		case 4:
			if x >= 0 {
				return uint16(x)
			}
			return int(x)
		case 5:
			return float64(x)
		case 6:
			return &x
		case 7:
			return float32(x)
		case 8:
			if x >= 0 {
				return uint64(x)
			}
			y := int64(x)
			return &y
		}
	case float64:
		switch k % 4 {
		case 1:
			return float32(x) // the pool holds multiples of 1/4: exact in float32
		case 2:
			return &x
		case 3:
			if x == float64(int(x)) {
				return int(x)
			}
		}
	case string:
		if k%3 == 1 {
			return &x
		}
	case bool:
		if k%2 == 1 {
			return &x
		}
	}
	return v
}

// plainLeaf undoes retype: pointers are followed and numeric kinds widened, so that the reference's result coercion
// judges the value that is denoted.
func plainLeaf(raw interface{}) interface{} {
	switch x := raw.(type) {
	case *int:
		if x != nil {
			return *x
		}
	case *int64:
		if x != nil {
			return int(*x)
		}
	case *float64:
		if x != nil {
			return *x
		}
	case *string:
		if x != nil {
			return *x
		}
	case *bool:
		if x != nil {
			return *x
		}
	case int8:
		return int(x)
	case int16:
		return int(x)
	case int32:
		return int(x)
	case uint16:
		return int(x)
	case uint64:
		if x <= math.MaxInt32 {
			return int(x)
		}
	case float32:
		return float64(x)
	}
	return raw
}

// ElemThunk marks a list element the resolver hands over as a deferred value
// (func() (interface{}, error)) yielding V; build materialises it, the reference unwraps it.
type ElemThunk struct{ V interface{} }

// PathKey renders a response path ("a/0/b").
func PathKey(path []interface{}) string {
	var sb strings.Builder
	for i, p := range path {
		if i > 0 {
			sb.WriteByte('/')
		}
		fmt.Fprintf(&sb, "%v", p)
	}
	return sb.String()
}

func (w *World) h(key, what string) uint32 {
	f := fnv.New32a()
	fmt.Fprintf(f, "%d|%s|%s", w.Salt, key, what)
	return f.Sum32()
}

// Res is what a resolver invocation does.
type Res struct {
	Kind   string      // "val", or an Outcome kind that is not a plain value
	Val    interface{} // raw Go value for val / valerr / thunk
	ErrMsg string
}

// Fails reports whether the resolver itself fails (error / panic, directly or deferred).
func (r Res) Fails() bool {
	switch r.Kind {
	case "err", "err_foreign", "err_located", "err_shared", "err_ctx", "valerr", "panic_err", "panic_shared", "panic_str", "panic_int", "thunk_err":
		return true
	}
	return false
}

func (r Res) IsThunk() bool { return strings.HasPrefix(r.Kind, "thunk") }

// Resolve decides the result of resolving field fd of parentType at path with the coerced args.
func (w *World) Resolve(parentType string, fd *model.FieldDef, path []interface{}, args map[string]interface{}) Res {
	key := PathKey(path)
	if o, ok := w.Outcomes[key]; ok {
		switch o.Kind {
		case "nil", "thunk_nil":
			return Res{Kind: o.Kind}
		case "typednil":
			return Res{Kind: "val", Val: (*Tok)(nil)}
		case "err", "err_foreign", "err_located", "err_shared", "err_ctx", "panic_err", "panic_shared", "panic_str", "panic_int", "thunk_err":
			return Res{Kind: o.Kind, ErrMsg: "E:" + key}
		case "valerr":
			return Res{Kind: o.Kind, Val: w.defVal(fd.Type, key, args, true), ErrMsg: "E:" + key}
		case "thunk":
			return Res{Kind: "thunk", Val: w.defVal(fd.Type, key, args, true)}
		case "notlist":
			return Res{Kind: "val", Val: "not-a-list"}
		case "badleaf", "nan", "inf", "bigint", "badenum", "leafpanic", "nantext", "inftext", "bigtext", "sernan", "sernilptr":
			return Res{Kind: "val", Val: w.badLeaf(o.Kind, fd.Type)}
		}
	}
	if w.ThunkRate > 0 && w.h(key, "thunk")%uint32(w.ThunkRate) == 0 {
		return Res{Kind: "thunk", Val: w.defVal(fd.Type, key, args, true)}
	}
	return Res{Kind: "val", Val: w.defVal(fd.Type, key, args, true)}
}

// LeafPanic is a resolver result that makes the leaf type's serializer raise: it cannot be
// hashed, so an enum's lookup of the internal value panics, and the custom scalars of built
// schemas panic on it. The reference treats it as a field error at that position.
type LeafPanic struct{ M map[string]int }

// LeafRaises reports whether serialising raw raises instead of yielding a value or nothing.
func LeafRaises(raw interface{}) bool {
	_, ok := raw.(LeafPanic)
	return ok
}

func (w *World) badLeaf(kind string, t model.TypeRef) interface{} {
	switch kind {
	case "leafpanic":
		return LeafPanic{M: map[string]int{}}
	case "nantext":
		return "NaN" // numeric text that denotes no number: Float has no serialisation for it
	case "inftext":
		return []string{"Infinity", "-inf", "+Inf"}[w.h(kind+t.Name, "inftext")%3] // text that strconv reads as an infinity: no Float (or JSON) value
	case "bigtext":
		return "3000000000" // numeric text outside 32 bits: no Int serialisation, read as a number or not
	case "sernan":
		return "SER:NaN" // the custom scalars of built schemas serialise this to NaN ...
	case "sernilptr":
		return "SER:nilptr" // ... and this to a typed nil pointer: both mean "no value"
	case "nan":
		return math.NaN()
	case "inf":
		return math.Inf(1)
	case "bigint":
		return int64(1) << 40
	case "badenum":
		return "no-such-internal-value"
	}
	return struct{ X int }{7} // badleaf: a struct no scalar can digest as a number
}

// defVal derives the default raw value for a type at a path. top is true for the value the
// resolver returns itself (echo of arguments applies only there).
func (w *World) defVal(t model.TypeRef, key string, args map[string]interface{}, top bool) interface{} {
	if o, ok := w.Outcomes[key]; ok && !top {
		switch o.Kind { // element-level overrides inside lists
		case "nil":
			return nil
		case "notlist":
			return "not-a-list"
		case "badleaf", "nan", "inf", "bigint", "badenum", "leafpanic", "nantext", "inftext", "bigtext", "sernan", "sernilptr":
			return w.badLeaf(o.Kind, t)
		}
	}
	if !top {
		if o, ok := w.Outcomes[key]; (ok && o.Kind == "thunk") || (w.ThunkRate > 0 && w.h(key, "ethunk")%uint32(w.ThunkRate) == 0) {
			return ElemThunk{V: w.plainVal(t, key, args, top)}
		}
	}
	return w.plainVal(t, key, args, top)
}

func (w *World) plainVal(t model.TypeRef, key string, args map[string]interface{}, top bool) interface{} {
	if t.NonNull() {
		return w.defValNN(t.Inner(), key, args, top)
	}
	if w.NullRate > 0 && w.h(key, "null")%uint32(w.NullRate) == 0 {
		return nil
	}
	return w.defValNN(t, key, args, top)
}

func (w *World) defValNN(t model.TypeRef, key string, args map[string]interface{}, top bool) interface{} {
	if t.NonNull() { // NonNull(NonNull) does not occur in built schemas
		t = t.Inner()
	}
	if t.IsList() {
		max := w.MaxList
		if max == 0 {
			max = 3
		}
		n := int(w.h(key, "len") % uint32(max+1))
		out := make([]interface{}, n)
		for i := range out {
			out[i] = w.defVal(t.Inner(), fmt.Sprintf("%s/%d", key, i), nil, false)
		}
		return out
	}
	td := w.S.Type(t.Name)
	if td == nil {
		return nil
	}
	hv := w.h(key, "v")
	switch td.Kind {
	case model.KScalar:
		switch t.Name {
		case "Int":
			return w.retype("Int", int(hv%2000)-1000, hv)
		case "Float":
			return w.retype("Float", float64(int(hv%4000)-2000)/4, hv)
		case "String":
			if top && len(args) > 0 {
				return w.retype("String", "A:"+model.Canon(args), hv)
			}
			return w.retype("String", fmt.Sprintf("s%d", hv%1000), hv)
		case "Boolean":
			return w.retype("Boolean", hv%2 == 0, hv)
		case "ID":
			return w.retype("ID", fmt.Sprintf("id%d", hv%1000), hv)
		default:
			return CustomParse(fmt.Sprintf("c%d", hv%1000)) // internal value of a custom scalar
		}
	case model.KEnum:
		return td.Values[int(hv)%len(td.Values)].InternalGo()
	case model.KObject:
		return &Tok{Type: t.Name, ID: key}
	case model.KIface, model.KUnion:
		pts := w.S.PossibleTypes(t.Name)
		if len(pts) == 0 {
			return nil
		}
		return &Tok{Type: pts[int(hv)%len(pts)], ID: key}
	}
	return nil
}

// fieldPath strips trailing list indices: runtime-type decisions are keyed by the path of the
// field (the library's type callbacks are told the field's path, not the element's), so a
// decision at a list-typed field applies to every element of the list.
func fieldPath(path []interface{}) []interface{} {
	for len(path) > 0 {
		if _, isIdx := path[len(path)-1].(int); !isIdx {
			break
		}
		path = path[:len(path)-1]
	}
	return path
}

// RuntimeType decides what the type resolver of an abstract type answers for value at path:
// the object type name, "" for nil.
func (w *World) RuntimeType(abstract string, value interface{}, path []interface{}) string {
	if o, ok := w.Outcomes[PathKey(fieldPath(path))+"#type"]; ok {
		switch o.Kind {
		case "rt_nil":
			return ""
		case "rt_nonmember":
			return o.Arg
		}
	}
	if t, ok := value.(*Tok); ok && t != nil {
		return t.Type
	}
	return ""
}

// IsTypeOf decides what obj's isTypeOf answers for value at path.
func (w *World) IsTypeOf(obj string, value interface{}, path []interface{}) bool {
	if o, ok := w.Outcomes[PathKey(fieldPath(path))+"#type"]; ok && o.Kind == "istypeof_false" {
		return false
	}
	t, ok := value.(*Tok)
	if w.LooseTypeOf {
		return ok && t != nil
	}
	return ok && t != nil && t.Type == obj
}

// SerializeLeaf is the reference result coercion of the values Worlds produce: (json value, ok).
// ok=false means "no legal serialisation" (the field completes to null).
func SerializeLeaf(s *model.Schema, typeName string, raw interface{}) (interface{}, bool) {
	td := s.Type(typeName)
	if td == nil {
		return nil, false
	}
	if td.Kind == model.KEnum {
		for _, v := range td.Values {
			if v.InternalGo() == raw {
				return v.Name, true
			}
		}
		return nil, false
	}
	switch typeName {
	case "Int", "Float", "String", "ID", "Boolean":
		raw = plainLeaf(raw)
	}
	switch typeName {
	case "Int":
		switch v := raw.(type) {
		case float64:
			// a whole number inside 32 bits handed over as a float (retype); fractions and NaN are never produced for Int
			if v == math.Trunc(v) && v >= math.MinInt32 && v <= math.MaxInt32 {
				return int(v), true
			}
		case int:
			if v >= math.MinInt32 && v <= math.MaxInt32 {
				return v, true
			}
		case int64:
			if v >= math.MinInt32 && v <= math.MaxInt32 {
				return int(v), true
			}
		}
		return nil, false
	case "Float":
		switch v := raw.(type) {
		case float64:
			if math.IsNaN(v) || math.IsInf(v, 0) {
				return nil, false
			}
			return v, true
		case int:
			return float64(v), true
		}
		return nil, false
	case "String", "ID":
		if v, ok := raw.(string); ok {
			return v, true
		}
		return nil, false
	case "Boolean":
		if v, ok := raw.(bool); ok {
			return v, true
		}
		return nil, false
	}
	// custom scalar: internal values are "P:"+external form; anything else has no serialisation
	if v, ok := raw.(string); ok && strings.HasPrefix(v, "P:") {
		return v[2:], true
	}
	return nil, false
}
