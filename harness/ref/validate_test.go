package ref_test

import (
	"testing"

	"pgregory.net/rapid"

	"verif/gen"
	"verif/model"
	"verif/ref"
)

func TestValidateGeneratedDocsAreValid(t *testing.T) {
	n := 0
	rapid.Check(t, func(rt *rapid.T) {
		s := gen.Schema(rt, gen.SchemaOpts{Mutation: gen.Chance(rt, 30, "mut"), Directives: gen.Chance(rt, 30, "dirs")})
		d, _, _ := gen.Doc(rt, s, gen.DocOpts{})
		n++
		v := ref.Validate(s, d)
		if bad := ref.Violated(v); len(bad) > 0 {
			rt.Fatalf("generated document violates %v\n%v\n%s", bad, v, model.Print(d, nil).Text)
		}
	})
}
