package ref_test

import (
	"testing"

	"pgregory.net/rapid"

	"verif/gen"
	"verif/model"
	"verif/ref"
)

func TestValidateGeneratedDocsAreValid(t *testing.T) {
	n := 0
	rapid.Check(t, func(rt *rapid.T) {
		s := gen.Schema(rt, gen.SchemaOpts{Mutation: gen.Chance(rt, 30, "mut"), Directives: gen.Chance(rt, 30, "dirs")})
		d, _, _ := gen.Doc(rt, s, gen.DocOpts{})
		n++
		v := ref.Validate(s, d)
		if bad := ref.Violated(v); len(bad) > 0 {
			rt.Fatalf("generated document violates %v\n%v\n%s", bad, v, model.Print(d, nil).Text)
		}
	})
}

func genCase(rt *rapid.T) (*model.Schema, *model.Doc) {
	s := gen.Schema(rt, gen.SchemaOpts{Mutation: gen.Chance(rt, 30, "mut"), Directives: gen.Chance(rt, 30, "dirs")})
	d, _, _ := gen.Doc(rt, s, gen.DocOpts{})
	return s, d
}

// Every injection operator, applied to a valid base document, makes the reference report at
// least the rules the operator declares (and nothing at all for the "legal" operators).
func TestValidateInjectedViolations(t *testing.T) {
	names := gen.InjectionOperatorNames()
	applied := make([]int, len(names))
	tried := make([]int, len(names))
	extra := make([]map[string]int, len(names))
	rapid.Check(t, func(rt *rapid.T) {
		s, d := genCase(rt)
		before := model.Print(d, nil).Text
		for i := range names {
			tried[i]++
			bad, inj, ok := gen.InjectViolation(rt, s, d, i)
			if model.Print(d, nil).Text != before {
				rt.Fatalf("operator %s modified the base document", names[i])
			}
			if !ok {
				continue
			}
			applied[i]++
			v := ref.Validate(s, bad)
			got := ref.Violated(v)
			if inj.Rules == nil {
				if len(got) > 0 {
					rt.Fatalf("legal operator %s: reference reports %v\n%v\n%s", inj.Operator, got, v, model.Print(bad, nil).Text)
				}
				continue
			}
			for _, want := range inj.Rules {
				if len(v[want]) == 0 {
					rt.Fatalf("operator %s: reference does not report %s (reports %v)\nbase: %s\ninjected: %s", inj.Operator, want, got, before, model.Print(bad, nil).Text)
				}
			}
			if extra[i] == nil {
				extra[i] = map[string]int{}
			}
			for _, g := range got {
				found := false
				for _, want := range inj.Rules {
					if want == g {
						found = true
					}
				}
				if !found {
					extra[i][g]++
				}
			}
		}
	})
	for i, n := range names {
		t.Logf("%-55s applied %4d / %4d  extra rules: %v", n, applied[i], tried[i], extra[i])
		if applied[i] == 0 {
			t.Errorf("operator %s was never applicable", n)
		}
	}
}
