package ref_test

import (
	"fmt"
	"sort"
	"strconv"
	"strings"
	"testing"

	"pgregory.net/rapid"

	"verif/gen"
	"verif/model"
	"verif/ref"
)

// Documents the generator calls valid satisfy all 24 reference rules (3 per check: 300 with
// rapid's default of 100 checks).
func TestValidateGeneratedDocsAreValid(t *testing.T) {
	rapid.Check(t, func(rt *rapid.T) {
		for i := 0; i < 3; i++ {
			s, d := genCase(rt)
			v := ref.Validate(s, d)
			if bad := ref.Violated(v); len(bad) > 0 {
				rt.Fatalf("generated document violates %v\n%v\n%s", bad, v, model.Print(d, nil).Text)
			}
		}
	})
}

func genCase(rt *rapid.T) (*model.Schema, *model.Doc) {
	s := gen.Schema(rt, gen.SchemaOpts{Mutation: gen.Chance(rt, 30, "mut"), Directives: gen.Chance(rt, 30, "dirs")})
	d, _, _ := gen.Doc(rt, s, gen.DocOpts{})
	return s, d
}

// Every injection operator, applied to a valid base document, makes the reference report at
// least the rules the operator declares (and nothing at all for the "legal" operators).
func TestValidateInjectedViolations(t *testing.T) {
	names := gen.InjectionOperatorNames()
	applied := make([]int, len(names))
	tried := make([]int, len(names))
	extra := make([]map[string]int, len(names))
	rapid.Check(t, func(rt *rapid.T) {
		s, d := genCase(rt)
		before := model.Print(d, nil).Text
		for i := range names {
			tried[i]++
			bad, inj, ok := gen.InjectViolation(rt, s, d, i)
			if model.Print(d, nil).Text != before {
				rt.Fatalf("operator %s modified the base document", names[i])
			}
			if !ok {
				continue
			}
			applied[i]++
			v := ref.Validate(s, bad)
			got := ref.Violated(v)
			if inj.Rules == nil {
				if len(got) > 0 {
					rt.Fatalf("legal operator %s: reference reports %v\n%v\n%s", inj.Operator, got, v, model.Print(bad, nil).Text)
				}
				continue
			}
			for _, want := range inj.Rules {
				if len(v[want]) == 0 {
					rt.Fatalf("operator %s: reference does not report %s (reports %v)\nbase: %s\ninjected: %s", inj.Operator, want, got, before, model.Print(bad, nil).Text)
				}
			}
			if extra[i] == nil {
				extra[i] = map[string]int{}
			}
			for _, g := range got {
				found := false
				for _, want := range inj.Rules {
					if want == g {
						found = true
					}
				}
				if !found {
					extra[i][g]++
				}
			}
		}
	})
	for i, n := range names {
		t.Logf("%-55s applied %4d / %4d  extra rules: %v", n, applied[i], tried[i], extra[i])
		if applied[i] == 0 {
			t.Errorf("operator %s was never applicable", n)
		}
	}
}

// ---------------------------------------------------------------------------------------------
// A tiny reader for the executable subset of the grammar, so that the hand-written cases below
// can be spelled as text. It produces the same model values a generator would build.

type miniParser struct {
	toks []string
	i    int
}

func miniLex(src string) []string {
	var out []string
	for i := 0; i < len(src); {
		c := src[i]
		switch {
		case c == ' ' || c == '\n' || c == '\t' || c == ',':
			i++
		case strings.HasPrefix(src[i:], "..."):
			out = append(out, "...")
			i += 3
		case strings.ContainsRune("{}()[]:!$@=", rune(c)):
			out = append(out, string(c))
			i++
		case c == '"':
			j := i + 1
			for src[j] != '"' {
				j++
			}
			out = append(out, src[i:j+1])
			i = j + 1
		default:
			j := i
			for j < len(src) && (src[j] == '_' || src[j] == '-' || src[j] == '.' || src[j] >= '0' && src[j] <= '9' || src[j] >= 'a' && src[j] <= 'z' || src[j] >= 'A' && src[j] <= 'Z') {
				if src[j] == '.' && strings.HasPrefix(src[j:], "...") {
					break
				}
				j++
			}
			if j == i {
				panic("miniLex: bad character " + string(c))
			}
			out = append(out, src[i:j])
			i = j
		}
	}
	return out
}

func (p *miniParser) peek() string {
	if p.i < len(p.toks) {
		return p.toks[p.i]
	}
	return ""
}
func (p *miniParser) next() string { t := p.peek(); p.i++; return t }
func (p *miniParser) expect(t string) {
	if got := p.next(); got != t {
		panic(fmt.Sprintf("miniParser: expected %q, got %q at token %d of %v", t, got, p.i-1, p.toks))
	}
}

func parseDoc(src string) *model.Doc {
	p := &miniParser{toks: miniLex(src)}
	d := &model.Doc{}
	for p.peek() != "" {
		d.Defs = append(d.Defs, p.def())
	}
	return d
}

func (p *miniParser) def() *model.Def {
	switch p.peek() {
	case "{":
		return &model.Def{Kind: "query", Shorthand: true, Sel: p.selset()}
	case "fragment":
		p.next()
		d := &model.Def{Kind: "fragment", Name: p.next()}
		p.expect("on")
		d.TypeCond = p.next()
		d.Dirs = p.dirs()
		d.Sel = p.selset()
		return d
	}
	d := &model.Def{Kind: p.next()}
	if t := p.peek(); t != "(" && t != "@" && t != "{" {
		d.Name = p.next()
	}
	if p.peek() == "(" {
		p.next()
		for p.peek() != ")" {
			p.expect("$")
			v := &model.VarDef{Name: p.next()}
			p.expect(":")
			v.Type = p.typ()
			if p.peek() == "=" {
				p.next()
				v.Default = p.value()
			}
			d.Vars = append(d.Vars, v)
		}
		p.next()
	}
	d.Dirs = p.dirs()
	d.Sel = p.selset()
	return d
}

func (p *miniParser) typ() model.TypeRef {
	var t model.TypeRef
	if p.peek() == "[" {
		p.next()
		in := p.typ()
		p.expect("]")
		t = model.TypeRef{Name: in.Name, Wrap: "[" + in.Wrap}
	} else {
		t = model.TypeRef{Name: p.next()}
	}
	if p.peek() == "!" {
		p.next()
		t.Wrap = "!" + t.Wrap
	}
	return t
}

func (p *miniParser) dirs() []*model.Dir {
	var out []*model.Dir
	for p.peek() == "@" {
		p.next()
		out = append(out, &model.Dir{Name: p.next(), Args: p.args()})
	}
	return out
}

func (p *miniParser) args() []*model.Arg {
	if p.peek() != "(" {
		return nil
	}
	p.next()
	var out []*model.Arg
	for p.peek() != ")" {
		a := &model.Arg{Name: p.next()}
		p.expect(":")
		a.Val = p.value()
		out = append(out, a)
	}
	p.next()
	return out
}

func (p *miniParser) selset() []*model.Sel {
	p.expect("{")
	var out []*model.Sel
	for p.peek() != "}" {
		out = append(out, p.sel())
	}
	p.next()
	return out
}

func (p *miniParser) sel() *model.Sel {
	if p.peek() == "..." {
		p.next()
		switch t := p.peek(); {
		case t == "on":
			p.next()
			x := &model.Sel{K: "inline", TypeCond: p.next()}
			x.Dirs = p.dirs()
			x.Sel = p.selset()
			return x
		case t == "@" || t == "{":
			x := &model.Sel{K: "inline", Dirs: p.dirs()}
			x.Sel = p.selset()
			return x
		}
		x := &model.Sel{K: "spread", Name: p.next()}
		x.Dirs = p.dirs()
		return x
	}
	x := &model.Sel{K: "field", Name: p.next()}
	if p.peek() == ":" {
		p.next()
		x.Alias, x.Name = x.Name, p.next()
	}
	x.Args = p.args()
	x.Dirs = p.dirs()
	if p.peek() == "{" {
		x.Sel = p.selset()
	}
	return x
}

func (p *miniParser) value() *model.Val {
	t := p.next()
	switch {
	case t == "$":
		return model.Var(p.next())
	case t == "[":
		v := model.List()
		v.L = []*model.Val{}
		for p.peek() != "]" {
			v.L = append(v.L, p.value())
		}
		p.next()
		return v
	case t == "{":
		v := model.Obj()
		for p.peek() != "}" {
			n := p.next()
			p.expect(":")
			v.O = append(v.O, model.F(n, p.value()))
		}
		p.next()
		return v
	case t[0] == '"':
		return model.Str(t[1 : len(t)-1])
	case t == "true" || t == "false":
		return model.Bool(t == "true")
	case t[0] == '-' || t[0] >= '0' && t[0] <= '9':
		if strings.ContainsAny(t, ".eE") {
			f, err := strconv.ParseFloat(t, 64)
			if err != nil {
				panic(err)
			}
			return model.Float(f)
		}
		i, err := strconv.ParseInt(t, 10, 64)
		if err != nil {
			panic(err)
		}
		return model.Int(i)
	}
	return model.Enum(t)
}

// ---------------------------------------------------------------------------------------------
// The schema of the table

func tObj(name string, ifaces []string, fields ...*model.FieldDef) *model.TypeDef {
	return &model.TypeDef{Kind: model.KObject, Name: name, Interfaces: ifaces, Fields: fields}
}
func tFld(name, typ string, args ...*model.ArgDef) *model.FieldDef {
	return &model.FieldDef{Name: name, Type: model.T(typ), Args: args}
}
func tArg(name, typ string) *model.ArgDef { return &model.ArgDef{Name: name, Type: model.T(typ)} }

/*
interface Pet { name: String  id: ID! }
interface Named { name: String }
type Dog implements Pet, Named { name id  barks: Boolean  nick: String  owner: Human  age: Int  tags: [String]

	knows(cmd: Cmd!, loud: Boolean): Boolean }

type Cat implements Pet, Named { name id  meows: Boolean  nick: String! owner: Human  age: Float  tags: [String!] }
type Human implements Named { name  nick: String  id: ID!  pets: [Pet!]  friend: Human }
type Alien { name: String  planet: String }
union CatOrDog = Cat | Dog        union HumanOrAlien = Human | Alien
enum Cmd { SIT DOWN }             input Filter { min: Int!  max: Int  tags: [String!]  sub: Filter }
type Q { pet(id: ID): Pet  dog: Dog  cat: Cat  human(id: ID!): Human  catOrDog: CatOrDog  hoa: HumanOrAlien  named: Named

	search(f: Filter, ints: [Int], strict: [Int!]!, nested: [[Int]]): [Pet]   flag(b: Boolean!): Boolean   self: Q }

type M { bump(by: Int = 1): Int }
directive @onQuery on QUERY       directive @tag(n: Int!) on FIELD | FRAGMENT_DEFINITION
*/
var tableSchema = &model.Schema{Query: "Q", Mutation: "M",
	Directives: []*model.DirectiveDef{
		{Name: "onQuery", Locations: []string{"QUERY"}},
		{Name: "tag", Locations: []string{"FIELD", "FRAGMENT_DEFINITION"}, Args: []*model.ArgDef{tArg("n", "Int!")}},
	},
	Types: []*model.TypeDef{
		{Kind: model.KIface, Name: "Pet", HasResolveType: true, Fields: []*model.FieldDef{tFld("name", "String"), tFld("id", "ID!")}},
		{Kind: model.KIface, Name: "Named", HasResolveType: true, Fields: []*model.FieldDef{tFld("name", "String")}},
		tObj("Dog", []string{"Pet", "Named"}, tFld("name", "String"), tFld("id", "ID!"), tFld("barks", "Boolean"), tFld("nick", "String"),
			tFld("owner", "Human"), tFld("age", "Int"), tFld("tags", "[String]"), tFld("knows", "Boolean", tArg("cmd", "Cmd!"), tArg("loud", "Boolean"))),
		tObj("Cat", []string{"Pet", "Named"}, tFld("name", "String"), tFld("id", "ID!"), tFld("meows", "Boolean"), tFld("nick", "String!"),
			tFld("owner", "Human"), tFld("age", "Float"), tFld("tags", "[String!]")),
		tObj("Human", []string{"Named"}, tFld("name", "String"), tFld("nick", "String"), tFld("id", "ID!"), tFld("pets", "[Pet!]"), tFld("friend", "Human")),
		tObj("Alien", nil, tFld("name", "String"), tFld("planet", "String")),
		{Kind: model.KUnion, Name: "CatOrDog", HasResolveType: true, Members: []string{"Cat", "Dog"}},
		{Kind: model.KUnion, Name: "HumanOrAlien", HasResolveType: true, Members: []string{"Human", "Alien"}},
		{Kind: model.KEnum, Name: "Cmd", Values: []*model.EnumVal{{Name: "SIT"}, {Name: "DOWN"}}},
		{Kind: model.KInput, Name: "Filter", InputFields: []*model.ArgDef{tArg("min", "Int!"), tArg("max", "Int"), tArg("tags", "[String!]"), tArg("sub", "Filter")}},
		tObj("Q", nil, tFld("pet", "Pet", tArg("id", "ID")), tFld("dog", "Dog"), tFld("cat", "Cat"), tFld("human", "Human", tArg("id", "ID!")),
			tFld("catOrDog", "CatOrDog"), tFld("hoa", "HumanOrAlien"), tFld("named", "Named"),
			tFld("search", "[Pet]", tArg("f", "Filter"), tArg("ints", "[Int]"), tArg("strict", "[Int!]!"), tArg("nested", "[[Int]]")),
			tFld("flag", "Boolean", tArg("b", "Boolean!")), tFld("self", "Q")),
		tObj("M", nil, tFld("bump", "Int", &model.ArgDef{Name: "by", Type: model.T("Int"), Default: model.Int(1)})),
	}}

type tableCase struct {
	name string
	doc  string
	want string // violated rules, space separated, any order; "" = valid
}

const (
	rArgs     = "ArgumentsOfCorrectType"
	rDefault  = "DefaultValuesOfCorrectType"
	rFields   = "FieldsOnCorrectType"
	rFragComp = "FragmentsOnCompositeTypes"
	rKnownArg = "KnownArgumentNames"
	rKnownDir = "KnownDirectives"
	rKnownFrg = "KnownFragmentNames"
	rKnownTyp = "KnownTypeNames"
	rLoneAnon = "LoneAnonymousOperation"
	rCycles   = "NoFragmentCycles"
	rUndefVar = "NoUndefinedVariables"
	rUnusedFr = "NoUnusedFragments"
	rUnusedVa = "NoUnusedVariables"
	rOverlap  = "OverlappingFieldsCanBeMerged"
	rSpreads  = "PossibleFragmentSpreads"
	rRequired = "ProvidedNonNullArguments"
	rLeafs    = "ScalarLeafs"
	rUniqArg  = "UniqueArgumentNames"
	rUniqFrag = "UniqueFragmentNames"
	rUniqInp  = "UniqueInputFieldNames"
	rUniqOp   = "UniqueOperationNames"
	rUniqVar  = "UniqueVariableNames"
	rVarInput = "VariablesAreInputTypes"
	rVarPos   = "VariablesInAllowedPosition"
)

var tableCases = []tableCase{
	// --- overlapping fields
	{"overlap: same field twice", `{ dog { name name } }`, ""},
	{"overlap: same field under two aliases", `{ dog { a: name b: name } }`, ""},
	{"overlap: alias onto another field", `{ dog { n: name n: nick } }`, rOverlap},
	{"overlap: alias against plain name", `{ dog { name: nick name } }`, rOverlap},
	{"overlap: differing argument values", `{ dog { knows(cmd: SIT) knows(cmd: DOWN) } }`, rOverlap},
	{"overlap: argument present / absent", `{ dog { knows(cmd: SIT, loud: true) knows(cmd: SIT) } }`, rOverlap},
	{"overlap: argument order is irrelevant", `{ dog { knows(cmd: SIT, loud: true) knows(loud: true, cmd: SIT) } }`, ""},
	{"overlap: same variable on both sides", `query ($a: ID) { pet(id: $a) { name } pet(id: $a) { id } }`, ""},
	{"overlap: variable against literal", `query ($a: ID) { pet(id: $a) { name } pet(id: "x") { id } }`, rOverlap},
	{"overlap: input object field order is significant (edition)", `{ search(strict: [], f: {min: 1, max: 2}) { name } search(strict: [], f: {max: 2, min: 1}) { name } }`, rOverlap},
	{"overlap: different fields of same shape under two object types", `{ pet { ... on Dog { n: nick } ... on Cat { n: name } } }`, ""},
	{"overlap: nullability differs under two object types", `{ pet { ... on Dog { n: nick } ... on Cat { n: nick } } }`, rOverlap},
	{"overlap: Int against Float under two object types", `{ pet { ... on Dog { age } ... on Cat { age } } }`, rOverlap},
	{"overlap: inner nullability of list differs", `{ pet { ... on Dog { tags } ... on Cat { tags } } }`, rOverlap},
	{"overlap: list against non-list", `{ pet { ... on Dog { x: tags } ... on Cat { x: name } } }`, rOverlap},
	{"overlap: leaf against composite", `{ pet { ... on Dog { x: owner { name } } ... on Cat { x: name } } }`, rOverlap},
	{"overlap: __typename against a Float field", `{ pet { ... on Dog { t: __typename } ... on Cat { t: age } } }`, rOverlap},
	{"overlap: object type against its interface is not exclusive", `{ pet { ... on Dog { x: name } ... on Pet { x: id } } }`, rOverlap},
	{"overlap: two interfaces are not exclusive", `{ dog { ... on Pet { x: name } ... on Named { x: name } } }`, ""},
	{"overlap: through two fragments", `{ dog { ...A ...B } } fragment A on Dog { x: name } fragment B on Dog { x: nick }`, rOverlap},
	{"overlap: field against fragment", `{ dog { x: name ...A } } fragment A on Dog { x: nick }`, rOverlap},
	{"overlap: field against chain of two fragments", `{ dog { x: name ...A } } fragment A on Dog { ...B } fragment B on Dog { x: nick }`, rOverlap},
	{"overlap: field against chain of three fragments", `{ dog { ...A x: name } } fragment A on Dog { ...B } fragment B on Dog { barks ...C } fragment C on Dog { x: nick }`, rOverlap},
	{"overlap: inside a fragment definition nobody... but used", `{ dog { ...A } } fragment A on Dog { x: name x: nick }`, rOverlap},
	{"overlap: nested one level", `{ dog { owner { n: name } } dog { owner { n: id } } }`, rOverlap},
	{"overlap: nested two levels, one side in a fragment", `{ dog { owner { friend { n: name } } } ...A } fragment A on Q { dog { owner { friend { n: nick } } } }`, rOverlap},
	{"overlap: exclusive parents, sub-fields of different shape", `{ pet { ... on Dog { owner { n: name } } ... on Cat { owner { n: id } } } }`, rOverlap},
	{"overlap: exclusive parents, sub-fields same shape but different fields (legal per spec)", `{ pet { ... on Dog { owner { n: name } } ... on Cat { owner { n: nick } } } }`, ""},
	{"overlap: exclusive parents, differing arguments (legal)", `{ self { pet { ... on Dog { knows(cmd: SIT) } } } self { pet { ... on Cat { knows: meows } } } }`, ""},
	{"overlap: unknown field on one side still differs by name", `{ dog { x: nope x: name } }`, rFields + " " + rOverlap},
	{"overlap: conflict in sub-selection of unknown field", `{ nope { a: x a: y } }`, rFields + " " + rOverlap},
	{"overlap: terminates on fragment cycles", `{ dog { ...A } } fragment A on Dog { name owner { friend { name } } ...A }`, rCycles},
	{"overlap: conflict found despite a cycle", `{ dog { ...A } } fragment A on Dog { x: name ...B } fragment B on Dog { x: nick ...A }`, rCycles + " " + rOverlap},
	{"overlap: self-similar pair through a cycle terminates", `{ self { ...A } } fragment A on Q { self { ...A } self { ...A } }`, rCycles},
	{"overlap: mutation root", `mutation { bump(by: 1) bump(by: 2) }`, rOverlap},

	// --- variables in allowed position
	{"varpos: Int into [Int]", `query ($a: Int) { search(strict: [], ints: $a) { name } }`, rVarPos},
	{"varpos: [Int] into [Int]", `query ($a: [Int]) { search(strict: [], ints: $a) { name } }`, ""},
	{"varpos: [Int!]! into [Int]", `query ($a: [Int!]!) { search(strict: [], ints: $a) { name } }`, ""},
	{"varpos: [Int] into [Int!]!", `query ($a: [Int]) { search(strict: $a) { name } }`, rVarPos},
	{"varpos: [Int!] into [Int!]!", `query ($a: [Int!]) { search(strict: $a) { name } }`, rVarPos},
	{"varpos: [Int!] with default into [Int!]!", `query ($a: [Int!] = [1]) { search(strict: $a) { name } }`, ""},
	{"varpos: [Int] with default into [Int!]!", `query ($a: [Int] = [1]) { search(strict: $a) { name } }`, rVarPos},
	{"varpos: Int! as element of [Int]", `query ($a: Int!) { search(strict: [], ints: [$a, 1]) { name } }`, ""},
	{"varpos: Int as element of [Int!]!", `query ($a: Int) { search(strict: [$a]) { name } }`, rVarPos},
	{"varpos: Int with default as element of [Int!]!", `query ($a: Int = 1) { search(strict: [$a]) { name } }`, ""},
	{"varpos: [Int] as element of [[Int]]", `query ($a: [Int]) { search(strict: [], nested: [$a]) { name } }`, ""},
	{"varpos: Int as element of [[Int]]", `query ($a: Int) { search(strict: [], nested: [$a]) { name } }`, rVarPos},
	{"varpos: Int into Int! input field", `query ($a: Int) { search(strict: [], f: {min: $a}) { name } }`, rVarPos},
	{"varpos: Int into Int input field, nested object", `query ($a: Int) { search(strict: [], f: {min: 1, sub: {min: 2, max: $a}}) { name } }`, ""},
	{"varpos: String! into [String!] input field", `query ($a: String!) { search(strict: [], f: {min: 1, tags: $a}) { name } }`, rVarPos},
	{"varpos: Boolean into Boolean!", `query ($a: Boolean) { flag(b: $a) }`, rVarPos},
	{"varpos: Boolean with default into Boolean!", `query ($a: Boolean = false) { flag(b: $a) }`, ""},
	{"varpos: Boolean into @skip(if:)", `query ($a: Boolean) { dog @skip(if: $a) { name } }`, rVarPos},
	{"varpos: String into ID", `query ($a: String) { pet(id: $a) { name } }`, rVarPos},
	{"varpos: Int into custom directive Int!", `query ($a: Int) { dog @tag(n: $a) { name } }`, rVarPos},
	{"varpos: per operation through a shared fragment", `query A($a: Int!) { ...F } query B($a: Int) { ...F } fragment F on Q { search(strict: [$a]) { name } }`, rVarPos},
	{"varpos: unknown argument is skipped", `query ($a: Int) { flag(b: true, zz: $a) }`, rKnownArg},
	{"varpos: object type variable", `query ($a: Dog) { pet(id: $a) { name } }`, rVarInput + " " + rVarPos},

	// --- defaults
	{"default: on non-null variable", `query ($a: Int! = 1) { search(strict: [$a]) { name } }`, rDefault},
	{"default: single value for list", `query ($a: [Int] = 1) { search(strict: [], ints: $a) { name } }`, ""},
	{"default: wrong element", `query ($a: [Int] = [1, "x"]) { search(strict: [], ints: $a) { name } }`, rDefault},
	{"default: input object misses required field", `query ($a: Filter = {max: 1}) { search(strict: [], f: $a) { name } }`, rDefault},
	{"default: unknown type is not judged", `query ($a: Nope = 1) { flag(b: true, zz: $a) }`, rKnownTyp + " " + rKnownArg},

	// --- possible fragment spreads
	{"spread: object in other object", `{ dog { ... on Cat { name } } }`, rSpreads},
	{"spread: object in itself", `{ dog { ... on Dog { name } } }`, ""},
	{"spread: implemented interface in object", `{ dog { ... on Pet { name } } }`, ""},
	{"spread: containing union in object", `{ dog { ... on CatOrDog { __typename } } }`, ""},
	{"spread: foreign union in object", `{ dog { ... on HumanOrAlien { __typename } } }`, rSpreads},
	{"spread: implementer in interface", `{ pet { ... on Dog { barks } } }`, ""},
	{"spread: non-implementer in interface", `{ pet { ... on Human { name } } }`, rSpreads},
	{"spread: overlapping union in interface", `{ pet { ... on CatOrDog { __typename } } }`, ""},
	{"spread: disjoint union in interface", `{ pet { ... on HumanOrAlien { __typename } } }`, rSpreads},
	{"spread: partially overlapping union in interface", `{ named { ... on HumanOrAlien { __typename } } }`, ""},
	{"spread: disjoint interface in union (named fragment)", `{ hoa { ...F } } fragment F on Pet { name }`, rSpreads},
	{"spread: overlapping interface in union (named fragment)", `{ hoa { ...F } } fragment F on Named { name }`, ""},
	{"spread: non-member in union", `{ catOrDog { ... on Human { name } } }`, rSpreads},
	{"spread: interface in interface with common implementer", `{ pet { ... on Named { name } } }`, ""},
	{"spread: no type condition", `{ dog { ... { name } ... @include(if: true) { nick } } }`, ""},
	{"spread: enum condition is another rule's business", `{ dog { ... on Cmd { name } } }`, rFragComp},
	{"spread: parent from fragment definition", `{ dog { ...A } } fragment A on Dog { ... on Cat { name } }`, rSpreads},

	// --- cycles and the fragment graph
	{"cycle: self", `{ dog { ...A } } fragment A on Dog { ...A }`, rCycles},
	{"cycle: two, nested in field and inline fragment", `{ human(id: 1) { ...A } } fragment A on Human { friend { ...B } } fragment B on Human { ... on Human { ...A } }`, rCycles},
	{"cycle: three", `{ dog { ...A } } fragment A on Dog { ...B } fragment B on Dog { ...C } fragment C on Dog { ...A }`, rCycles},
	{"cycle: not reachable from an operation", `{ dog { name } } fragment A on Dog { ...B } fragment B on Dog { ...A }`, rCycles + " " + rUnusedFr},
	{"cycle: a fragment leading into a cycle is not on it", `{ dog { ...C } } fragment C on Dog { ...A } fragment A on Dog { ...A }`, rCycles},
	{"cycle: diamond is not a cycle", `{ dog { ...A } } fragment A on Dog { ...B ...C } fragment B on Dog { ...D } fragment C on Dog { ...D } fragment D on Dog { name }`, ""},
	{"graph: unknown spread inside a fragment", `{ dog { ...A } } fragment A on Dog { ...Nope }`, rKnownFrg},
	{"graph: fragment used only by an unused fragment", `{ dog { name } } fragment A on Dog { ...B } fragment B on Dog { name }`, rUnusedFr},

	// --- variables: defined / used
	{"vars: undefined in one of two operations", `query A($a: ID) { ...F } query B { ...F } fragment F on Q { pet(id: $a) { name } }`, rUndefVar},
	{"vars: used only in an unreachable fragment", `query A($a: ID) { dog { name } } fragment F on Q { pet(id: $a) { name } }`, rUnusedVa + " " + rUnusedFr},
	{"vars: used inside a list inside an object", `query ($a: String!) { search(strict: [], f: {min: 1, tags: [$a]}) { name } }`, ""},
	{"vars: used in directive on operation-level fragment spread", `query ($a: Boolean!) { ...F @include(if: $a) } fragment F on Q { dog { name } }`, ""},
	{"vars: used through a fragment chain", `query ($a: ID) { ...A } fragment A on Q { ...B } fragment B on Q { pet(id: $a) { name } }`, ""},
	{"vars: duplicate definition", `query ($a: ID, $a: ID) { pet(id: $a) { name } }`, rUniqVar},
	{"vars: same name in two operations is fine", `query A($a: ID) { pet(id: $a) { name } } query B($a: ID) { pet(id: $a) { name } }`, ""},

	// --- fields, leafs, arguments, directives, values, operations
	{"fields: meta fields on the query root", `{ __type(name: "Dog") { name } __schema { types { name } } __typename }`, ""},
	{"fields: __schema below the root", `{ dog { __schema { types { name } } } }`, rFields},
	{"fields: __schema on a nested query type", `{ self { __schema { types { name } } } }`, ""},
	{"fields: on union", `{ catOrDog { name } }`, rFields},
	{"fields: __typename on union", `{ catOrDog { __typename } }`, ""},
	{"fields: implementer's field on interface", `{ pet { barks } }`, rFields},
	{"fields: inside fragment on unknown type", `{ dog { ... on Nope { whatever } } }`, rKnownTyp},
	{"leafs: composite without selection", `{ dog }`, rLeafs},
	{"leafs: scalar with selection", `{ dog { name { x } } }`, rLeafs},
	{"leafs: list of composite without selection", `{ search(strict: []) }`, rLeafs},
	{"args: required missing on field", `{ human { name } }`, rRequired},
	{"args: required missing on directive", `{ dog @include { name } }`, rRequired},
	{"args: argument with default may be omitted", `mutation { bump }`, ""},
	{"args: unknown on directive", `{ dog @skip(if: true, unless: false) { name } }`, rKnownArg},
	{"args: duplicate", `{ flag(b: true, b: true) }`, rUniqArg},
	{"args: unknown on __typename", `{ __typename(x: 1) }`, rKnownArg},
	{"directives: @skip on query", `query @skip(if: true) { dog { name } }`, rKnownDir},
	{"directives: custom on allowed locations", `query @onQuery { dog @tag(n: 1) { name } ...F } fragment F on Q @tag(n: 2) { __typename }`, ""},
	{"directives: custom on wrong locations", `mutation @onQuery { bump @onQuery }`, rKnownDir},
	{"directives: @deprecated in a query", `{ dog @deprecated { name } }`, rKnownDir},
	{"directives: unknown", `{ dog @nope { name } }`, rKnownDir},
	{"values: single value for list, also nested", `{ search(strict: 1, ints: 2, nested: 3) { name } }`, ""},
	{"values: wrong element in list", `{ search(strict: [1, "a"]) { name } }`, rArgs},
	{"values: string for enum", `{ dog { knows(cmd: "SIT") } }`, rArgs},
	{"values: unknown enum value", `{ dog { knows(cmd: ROLL) } }`, rArgs},
	{"values: float for ID", `{ pet(id: 1.5) { name } }`, rArgs},
	{"values: int for ID", `{ pet(id: 15) { name } }`, ""},
	{"values: Int out of 32 bits inside object", `{ search(strict: [], f: {min: 3000000000}) { name } }`, rArgs},
	{"values: unknown input field", `{ search(strict: [], f: {min: 1, zz: 1}) { name } }`, rArgs},
	{"values: missing required input field in nested object", `{ search(strict: [], f: {min: 1, sub: {max: 1}}) { name } }`, rArgs},
	{"values: variables are accepted anywhere", `query ($a: Int!, $f: Filter) { search(strict: [$a], f: {min: $a, sub: $f}) { name } }`, ""},
	{"values: duplicate input field", `{ search(strict: [], f: {min: 1, min: 2}) { name } }`, rUniqInp},
	{"values: duplicate input field in nested object", `{ search(strict: [], f: {min: 1, sub: {min: 1, min: 2}}) { name } }`, rUniqInp},
	{"values: same field name at two depths is fine", `{ search(strict: [], f: {min: 1, sub: {min: 1}}) { name } }`, ""},
	{"values: duplicate input field in object in list", `query ($a: [Filter] = [{min: 1, min: 1}]) { search(strict: [], f: $a) { name } }`, rUniqInp + " " + rVarPos},
	{"operations: two anonymous", `{ __typename } { __typename }`, rLoneAnon},
	{"operations: anonymous and named", `{ __typename } query A { __typename }`, rLoneAnon},
	{"operations: anonymous with fragments only", `{ ...F } fragment F on Q { __typename }`, ""},
	{"operations: duplicate name across kinds", `query A { __typename } mutation A { bump }`, rUniqOp},
	{"operations: fragment may share an operation's name", `query A { ...A } fragment A on Q { __typename }`, ""},
	{"fragments: duplicate name", `{ ...A } fragment A on Q { __typename } fragment A on Q { __typename }`, rUniqFrag},
	{"fragments: on scalar, enum, input", `{ ...A ...B ... on Filter { __typename } } fragment A on Int { __typename } fragment B on Cmd { __typename }`, rFragComp},
	{"types: introspection type names exist", `{ ... on __Type { name } }`, ""},
	{"types: unknown in list variable", `query ($a: [Nope!]) { flag(b: true, zz: $a) }`, rKnownTyp + " " + rKnownArg},
}

func ruleSet(s string) string {
	f := strings.Fields(s)
	sort.Strings(f)
	return strings.Join(f, " ")
}

func TestValidateTable(t *testing.T) {
	if v := ref.Validate(tableSchema, parseDoc(`{ __typename }`)); len(ref.Violated(v)) != 0 {
		t.Fatalf("trivial document: %v", v)
	}
	for _, tc := range tableCases {
		d := parseDoc(tc.doc)
		// the reader and the printer agree
		if again := model.Print(parseDoc(model.Print(d, nil).Text), nil).Text; again != model.Print(d, nil).Text {
			t.Errorf("%s: reader/printer round trip differs:\n%s\n%s", tc.name, model.Print(d, nil).Text, again)
		}
		v := ref.Validate(tableSchema, d)
		got := strings.Join(ref.Violated(v), " ")
		if ruleSet(got) != ruleSet(tc.want) {
			t.Errorf("%s\n   %s\n   want [%s]\n   got  [%s]\n   %v", tc.name, tc.doc, tc.want, got, v)
		}
		// acceptable nodes must be nodes of the document (or position keys of such nodes)
		pos := model.Print(d, nil).Pos
		for _, vs := range v {
			for _, x := range vs {
				if len(x.Nodes) == 0 {
					t.Errorf("%s: violation without nodes: %v", tc.name, x)
				}
				some := false
				for _, n := range x.Nodes {
					if _, ok := pos[n]; ok {
						some = true
					}
				}
				if !some {
					t.Errorf("%s: none of the nodes of %v has a printed position", tc.name, x)
				}
			}
		}
	}
}

// A fragment that merely leads into a cycle contributes no acceptable node.
func TestValidateCycleNodes(t *testing.T) {
	d := parseDoc(`{ dog { ...C } } fragment C on Dog { ...A } fragment A on Dog { name ...A }`)
	v := ref.Validate(tableSchema, d)["NoFragmentCycles"]
	if len(v) != 1 || len(v[0].Nodes) != 1 || v[0].Nodes[0] != interface{}(d.Defs[2].Sel[1]) {
		t.Fatalf("want exactly the self-spread of A, got %v", v)
	}
}
