package ref

import (
	"fmt"

	"verif/model"
)

// ExecErr is a field error the execution algorithm prescribes: where, and of which class.
// Classes: resolver (the resolver failed), nonnull (null in a non-null position), notlist,
// runtimetype (abstract value did not resolve to a possible object type), istypeof.
type ExecErr struct {
	Path  []interface{}
	Class string
}

func (e ExecErr) String() string { return PathKey(e.Path) + ":" + e.Class }

// Call is one expected resolver invocation.
type Call struct {
	Path       []interface{}
	ParentType string // runtime object type
	Field      string
	Args       map[string]interface{}
	SourceID   string // Tok.ID of the parent value ("" = the request's root value, "?" = not a Tok)
	ReturnType string
	// Occ lists the included occurrences (indices into the group's occurrence list is not
	// meaningful across implementations, so the *model.Sel pointers are kept).
	Occ    []*model.Sel
	AllOcc []*model.Sel
}

// TypeCall is one expected runtime-type decision for an abstract position.
type TypeCall struct {
	Path           []interface{}
	Abstract       string
	ViaResolveType bool
}

type Result struct {
	TypeCalls []TypeCall
	Vars      map[string]interface{} // coerced variable values
	Data      interface{}            // nil (data: null) or map[string]interface{}
	Errors    []ExecErr
	Calls     []Call
	ReqError  string // non-empty: the request fails before execution (no data)
	// TypeCalls counts type-resolution questions asked, per path.
	Thunks int
	// Non-triviality measures: how many levels the deepest null propagation climbed, and per
	// abstract position (path without list indices) the set of runtime types it resolved to.
	MaxPropagation int
	AbstractTypes  map[string]map[string]bool
	curProp        int
}

type exec struct {
	s    *model.Schema
	d    *model.Doc
	vars map[string]interface{}
	w    *World
	res  *Result
}

// Execute runs the operation (opName "" = the only one) per the execution algorithm of
// DESIGN §3.4 and returns the prescribed response.
func Execute(s *model.Schema, d *model.Doc, opName string, inputs map[string]*model.Val, w *World) *Result {
	res := &Result{}
	op := d.Operation(opName)
	if op == nil {
		res.ReqError = "no operation"
		return res
	}
	vars, verr := CoerceVariables(s, op.Vars, inputs)
	if verr != nil {
		res.ReqError = "variables: " + verr.Var + ": " + verr.Why
		return res
	}
	root := s.Query
	switch op.Kind {
	case "mutation":
		root = s.Mutation
	case "subscription":
		root = s.Subscription
	}
	if root == "" {
		res.ReqError = "no root type for " + op.Kind
		return res
	}
	res.Vars = vars
	e := &exec{s: s, d: d, vars: vars, w: w, res: res}
	data, prop := e.selSet(root, nil, [][]*model.Sel{op.Sel}, nil)
	if prop {
		res.Data = nil
		res.curProp++
		if res.curProp > res.MaxPropagation {
			res.MaxPropagation = res.curProp
		}
	} else {
		res.Data = data
	}
	return res
}

// ExecuteWithRoot is Execute for subscriptions' per-event execution and similar uses where the
// root source is a given token.
func ExecuteRoot(s *model.Schema, d *model.Doc, opName string, vars map[string]interface{}, w *World, rootType string, prefix []interface{}) *Result {
	res := &Result{}
	op := d.Operation(opName)
	e := &exec{s: s, d: d, vars: vars, w: w, res: res}
	data, prop := e.selSet(rootType, nil, [][]*model.Sel{op.Sel}, prefix)
	if !prop {
		res.Data = data
	}
	return res
}

type group struct {
	key string
	occ []*model.Sel
}

// Included evaluates @skip/@include on one node: @skip wins.
func Included(dirs []*model.Dir, vars map[string]interface{}) bool {
	if d := model.FindDir(dirs, "skip"); d != nil {
		if dirIf(d, vars) {
			return false
		}
	}
	if d := model.FindDir(dirs, "include"); d != nil {
		if !dirIf(d, vars) {
			return false
		}
	}
	return true
}

func dirIf(d *model.Dir, vars map[string]interface{}) bool {
	a := d.Arg("if")
	if a == nil || a.Val == nil {
		return false
	}
	switch a.Val.K {
	case "bool":
		return a.Val.B
	case "var":
		b, _ := vars[a.Val.S].(bool)
		return b
	}
	return false
}

// Collect implements CollectFields for one object type over several selection sets (the
// sub-selections of the included occurrences of a merged field), grouping by response key in
// first-occurrence order.
func Collect(s *model.Schema, d *model.Doc, vars map[string]interface{}, objType string, sets [][]*model.Sel) []*group {
	var out []*group
	idx := map[string]int{}
	visited := map[string]bool{}
	var walk func(sel []*model.Sel)
	walk = func(sel []*model.Sel) {
		for _, x := range sel {
			if !Included(x.Dirs, vars) {
				continue
			}
			switch x.K {
			case "field":
				k := x.Key()
				if i, ok := idx[k]; ok {
					out[i].occ = append(out[i].occ, x)
				} else {
					idx[k] = len(out)
					out = append(out, &group{key: k, occ: []*model.Sel{x}})
				}
			case "spread":
				if visited[x.Name] {
					continue
				}
				visited[x.Name] = true
				f := d.Fragment(x.Name)
				if f == nil || !typeApplies(s, f.TypeCond, objType) {
					continue
				}
				walk(f.Sel)
			case "inline":
				if x.TypeCond != "" && !typeApplies(s, x.TypeCond, objType) {
					continue
				}
				walk(x.Sel)
			}
		}
	}
	for _, set := range sets {
		walk(set)
	}
	return out
}

func typeApplies(s *model.Schema, cond, objType string) bool {
	if cond == objType {
		return true
	}
	return s.IsPossible(cond, objType)
}

func pathWith(path []interface{}, k interface{}) []interface{} {
	out := make([]interface{}, len(path)+1)
	copy(out, path)
	out[len(path)] = k
	return out
}

// selSet executes the merged selection sets on an object value. The second result is true when
// a non-null failure propagates out of this object.
func (e *exec) selSet(objType string, source interface{}, sets [][]*model.Sel, path []interface{}) (map[string]interface{}, bool) {
	out := map[string]interface{}{}
	td := e.s.Type(objType)
	for _, g := range Collect(e.s, e.d, e.vars, objType, sets) {
		f := g.occ[0]
		fpath := pathWith(path, g.key)
		if f.Name == "__typename" {
			out[g.key] = objType
			continue
		}
		fd := td.Field(f.Name)
		if fd == nil {
			continue // unknown field: validation rejects it; nothing is emitted
		}
		v, prop := e.field(objType, source, fd, g, fpath)
		if prop {
			return nil, true
		}
		out[g.key] = v
	}
	return out, false
}

func (e *exec) err(path []interface{}, class string) {
	e.res.Errors = append(e.res.Errors, ExecErr{Path: append([]interface{}(nil), path...), Class: class})
}

func (e *exec) field(objType string, source interface{}, fd *model.FieldDef, g *group, path []interface{}) (interface{}, bool) {
	args := ArgValues(e.s, fd.Args, g.occ[0].Args, e.vars)
	sid := ""
	if source != nil {
		if t, ok := source.(*Tok); ok && t != nil {
			sid = t.ID
		} else {
			sid = "?"
		}
	}
	e.res.Calls = append(e.res.Calls, Call{Path: path, ParentType: objType, Field: fd.Name, Args: args, SourceID: sid,
		ReturnType: fd.Type.String(), Occ: g.occ})
	r := e.w.Resolve(objType, fd, path, args)
	if r.IsThunk() {
		e.res.Thunks++
	}
	if r.Fails() {
		e.err(path, "resolver")
		return nil, fd.Type.NonNull()
	}
	var raw interface{}
	switch r.Kind {
	case "nil", "thunk_nil":
		raw = nil
	default:
		raw = r.Val
	}
	v, ok := e.complete(fd.Type, raw, g, path)
	if !ok {
		if !fd.Type.NonNull() {
			e.res.curProp = 0
		}
		return nil, fd.Type.NonNull()
	}
	return v, false
}

// complete implements CompleteValue. ok=false: a field error was recorded somewhere inside
// and null must be put at this position (the caller decides about propagation from the
// nullability of the position it owns).
func (e *exec) complete(t model.TypeRef, raw interface{}, g *group, path []interface{}) (interface{}, bool) {
	if et, ok := raw.(ElemThunk); ok {
		raw = et.V // a deferred list element completes to what it yields
	}
	if t.NonNull() {
		v, ok := e.complete(t.Inner(), raw, g, path)
		if !ok {
			return nil, false
		}
		if v == nil {
			e.err(path, "nonnull")
			return nil, false
		}
		return v, true
	}
	if isNil(raw) {
		return nil, true
	}
	if t.IsList() {
		items, isList := raw.([]interface{})
		if !isList {
			e.err(path, "notlist")
			return nil, false
		}
		out := make([]interface{}, 0, len(items))
		for i, it := range items {
			v, ok := e.complete(t.Inner(), it, g, pathWith(path, i))
			if !ok {
				if t.Inner().NonNull() {
					return nil, false // the failing item nulls the list
				}
				v = nil
			}
			out = append(out, v)
		}
		return out, true
	}
	td := e.s.Type(t.Name)
	switch td.Kind {
	case model.KScalar, model.KEnum:
		if LeafRaises(raw) {
			e.err(path, "leafpanic") // the serializer raised: a field error at this position
			return nil, false
		}
		v, ok := SerializeLeaf(e.s, t.Name, raw)
		if !ok {
			return nil, true // no legal serialisation: null, no error (DESIGN §3.4)
		}
		return v, true
	case model.KObject:
		if td.HasIsTypeOf && !e.w.IsTypeOf(t.Name, raw, path) {
			e.err(path, "istypeof")
			return nil, false
		}
		return e.object(t.Name, raw, g, path)
	case model.KIface, model.KUnion:
		rt := ""
		if td.HasResolveType {
			rt = e.w.RuntimeType(t.Name, raw, path)
		} else {
			for _, p := range e.s.PossibleTypes(t.Name) {
				if pt := e.s.Type(p); pt != nil && pt.HasIsTypeOf && e.w.IsTypeOf(p, raw, path) {
					rt = p
					break
				}
			}
		}
		e.res.TypeCalls = append(e.res.TypeCalls, TypeCall{Path: append([]interface{}(nil), path...), Abstract: t.Name, ViaResolveType: td.HasResolveType})
		if rt == "" || e.s.Kind(rt) != model.KObject || !e.s.IsPossible(t.Name, rt) {
			e.err(path, "runtimetype")
			return nil, false
		}
		if e.res.AbstractTypes == nil {
			e.res.AbstractTypes = map[string]map[string]bool{}
		}
		pk := ""
		for _, p := range path {
			if s, ok := p.(string); ok {
				pk += "/" + s
			}
		}
		if e.res.AbstractTypes[pk] == nil {
			e.res.AbstractTypes[pk] = map[string]bool{}
		}
		e.res.AbstractTypes[pk][rt] = true
		return e.object(rt, raw, g, path)
	}
	panic(fmt.Sprintf("ref: cannot complete %v", t))
}

func (e *exec) object(objType string, raw interface{}, g *group, path []interface{}) (interface{}, bool) {
	var sets [][]*model.Sel
	for _, o := range g.occ {
		sets = append(sets, o.Sel)
	}
	m, prop := e.selSet(objType, raw, sets, path)
	if prop {
		e.res.curProp++
		if e.res.curProp > e.res.MaxPropagation {
			e.res.MaxPropagation = e.res.curProp
		}
		return nil, false
	}
	return m, true
}

func isNil(x interface{}) bool {
	if x == nil {
		return true
	}
	if t, ok := x.(*Tok); ok && t == nil {
		return true
	}
	return false
}

// CollectKeys returns the response keys CollectFields yields for objType over one selection
// set, in order.
func CollectKeys(s *model.Schema, d *model.Doc, vars map[string]interface{}, objType string, sel []*model.Sel) []string {
	var out []string
	for _, g := range Collect(s, d, vars, objType, [][]*model.Sel{sel}) {
		out = append(out, g.key)
	}
	return out
}
