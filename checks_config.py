"""Per-property run tables for ./check. Each run names a Go test regexp of harness/props and its
budgets per tier (rapid case counts, shards). Budgets are case counts, never per-case time limits."""

CONFIG = {}

def prop(pid, rule, runs, assumptions=None, **kw):
    CONFIG[pid] = dict(rule=rule, runs=runs, assumptions=assumptions or [], **kw)

EXEC_ASSUME = [
    "the reference interpreter (harness/ref) reads the October-2016 execution algorithm as written down in DESIGN.md §3.4",
    "resolver behaviour is a pure function of (response path, field, arguments) drawn per case (ref.World), shared by the library-side resolvers and the reference",
    "inputs on which spec edition / port / graphql-js disagree are not generated (DESIGN §3.3) and counted under excluded",
]

prop("C01",
     level_text="generated-input search (rapid): schemas x valid documents x variables x resolver outcomes; Do, Execute and PlanQuery+ExecutePlan compared with an independent interpreter of the execution algorithm",
     note="trusts the reference interpreter's reading of the spec (DESIGN §3.4) and the generators' reach; says nothing beyond the explored cases; ADDED IN THE SENSITIVITY PHASE (DESIGN 13): also: the prepared plan is executed again with 1-2 other valuations of the variables and then the first; documents may select a field next to a spread of a fragment that contains it, leading back into the fragment; list elements may be deferred values; resolvers may fail with foreign located errors or their own context errors",
     technique="property-based testing (rapid) against a reference-model oracle",
     rule="rapid draws schema model x valid-by-construction document x coercible variables x resolver-outcome table; each case runs Do, Execute and PlanQuery+ExecutePlan (twice) and compares data (JSON) and the (path,class) error multiset with an independent interpreter of the execution algorithm. Non-trivial = document has a duplicated response key, a fragment spread twice, a variable-driven directive, several operations, an abstract position resolving to >=2 runtime types, or a null propagating >=2 levels; distinct by hash of the whole case.",
     assumptions=EXEC_ASSUME,
     runs=[dict(test="^TestC01$", quick=dict(checks=4000), thorough=dict(checks=40000, shards=16, timeout=3000))])

prop("C04",
     level_text="generated-input search (rapid) with an adversarial outcome for about half of all reachable resolver / type-resolver / isTypeOf invocations; oracle = intrinsic response-conformance predicate + equality with the reference interpreter + no panic + JSON-serialisable",
     note="conformance predicate and reference interpreter are the harness's own (harness/ref); deferred failures in non-null positions are not generated (ambiguous ordering, DESIGN §3.4) except the canonical reproducer of KF-C04-thunk-nonnull; ADDED IN THE SENSITIVITY PHASE (DESIGN 13): outcomes added in the sensitivity phase: runtime-type decisions at list-typed fields (every element), serializers that raise (leafpanic) or yield nothing although the value is not nullish (NaN text, NaN, typed nil pointer, integer text outside 32 bits), at fields and at list items; deferred list elements; foreign located errors; context errors of the resolver's own; deferred list elements producing objects with deferred fields below them",
     technique="property-based testing (rapid): fault injection into resolvers, validity predicate + reference-model oracle",
     rule="C01 generator with outcome table drawn adversarially (nil, typed nil, error, value+error, panic with error/string/int, thunks that succeed/fail/yield nil, non-iterable for list, unserialisable / NaN / Inf / out-of-range / unknown-enum leaves, type resolver returning nil or a non-member, isTypeOf lying) at ~50% of reachable positions. Non-trivial = at least one override below the root level and at least one field error or thunk actually reached; distinct by hash of the case.",
     assumptions=EXEC_ASSUME,
     runs=[dict(test="^TestC04$", quick=dict(checks=6000), thorough=dict(checks=40000, shards=16, timeout=3000))])

MANIFEST_HEAD = {
    "version": 1,
    "setup_cmd": "cd /verif && ./check --setup",
    "hooks": {
        "guard": "verif",
        "enable": "go test -tags verif (the harness module /verif/harness replaces github.com/graphql-go/graphql with /repo)",
        "baseline_off_cmd": "cd /repo && GOFLAGS=-mod=mod GOPROXY=off GOSUMDB=off go test -vet=off -count=1 -timeout 25m ./...",
        "source_commits": ["be1118b", "bbad90f", "dfdb34e"],
        "add_only": True,
    },
    "engines": [
        {"name": "props", "path": "harness/props", "serves_properties": [],
         "kind_free_text": "rapid v1.3.0 property tests (plus native go fuzz targets) against reference implementations written over plain-data models (harness/ref, harness/syn)"},
        {"name": "check", "path": "check", "serves_properties": [],
         "kind_free_text": "python3 driver: builds the harness from /repo's working tree, shards runs, merges evidence, maps outcomes to exit codes"},
    ],
    "notes": "All checks: ./check <ID> quick|thorough; VERIF_SEED selects the rapid seed family. Known findings: KNOWN_FINDINGS.txt.",
}

# Properties not (yet) claimed, each with a reason; entries for claimed properties are dropped.
NOT_APPLICABLE = [
    {"property_id": p, "reason": "check not built yet in this session (planned, see DESIGN.md §4); not a limitation of the technique"}
    for p in ["C02", "C03", "C05", "C06", "C07", "C08", "C09", "C10", "C11", "C12", "C13", "C14", "C15", "C16", "C17", "C18", "C19", "C20"]
]

prop("C20",
     level_text="generated-input search (rapid): every callback invocation (resolvers, type resolvers, isTypeOf) is recorded and compared field by field with the call log the reference interpreter prescribes; one plan is re-executed with fresh variables, roots, contexts and resolver behaviours while resolvers scribble on their Args",
     note="the expected call log comes from harness/ref; Info.FieldASTs is checked for 'contains every included occurrence and only occurrences of this key'; ADDED IN THE SENSITIVITY PHASE (DESIGN 13): callbacks that are not handed the request's context record themselves in the schema's fallback session, which the check reads; plan reuse with argument-scribbling resolvers",
     technique="property-based testing (rapid) with an instrumented schema and a reference-model call log",
     rule="C01 generator plus reuse histories (0-3 further ExecutePlan calls on the plan built for the first execution). Per call: exactly-once per reference path, Source identity (Tok id / request root), Args, FieldName, ReturnType, runtime ParentType, Path, FieldASTs, Operation, Fragments, VariableValues, RootValue, Schema, context marker; resolveType count per abstract value. Non-trivial = list depth >= 2, an abstract position with >= 2 runtime types, or a reused plan.",
     assumptions=EXEC_ASSUME,
     runs=[dict(test="^TestC20$", quick=dict(checks=3000), thorough=dict(checks=30000, shards=16, timeout=3000))])

prop("C05",
     level_text="generated-input search (rapid): input type x JSON-like value (conformant, or with exactly one of the named non-conformances injected at a drawn depth) x placement (variable, inline literal, variable nested inside a literal, variable default, argument default; bare values for list types); oracle = independent input-coercion model + resolver-invocation counter + literal/variable metamorphic relation + literal-validity/variable-coercibility agreement",
     note="values on which the port is knowingly lenient and the property is silent (numeric strings / booleans for Int and Float, fractional floats for Int, non-strings for String/Boolean) are never generated (DESIGN §3.3); ADDED IN THE SENSITIVITY PHASE (DESIGN 13): integer text outside 32 bits is generated as a non-coercible Int value (out of range as a number, not a number otherwise); the same probe exists on a subscription root and the arguments handed to its Subscribe function are compared too",
     technique="property-based testing (rapid): reference model of input coercion + metamorphic relation",
     rule="schema from the C01 generator plus a probe field probe(x: T [= default]): String whose resolver records Args; T drawn over scalars, custom scalars, enums (int / string / name internals), nested input objects, wrappers to depth 3. Non-trivial = value nesting depth >= 2 or an argument default participates; distinct by hash of (schema, type, value).",
     assumptions=EXEC_ASSUME,
     runs=[dict(test="^TestC05$", quick=dict(checks=6000), thorough=dict(checks=60000, shards=16, timeout=3000))])

prop("C13",
     level_text="generated-input search (rapid): mutation documents x resolver outcomes with deferred results (thunks) and errors at every level; every case is executed 30 times (Do, Execute, ExecutePlan in turn) and the event log of resolver starts and thunk forcings must be a concatenation of per-top-level-field blocks in CollectFields order",
     note="events are recorded by the instrumented schema's hook; order of top-level keys comes from the reference CollectFields; repeats sample Go's per-range map iteration order; ADDED IN THE SENSITIVITY PHASE (DESIGN 13): runs also go through a normalising and an exact-key plan cache that first served the mutation with its top-level selections reversed",
     technique="property-based testing (rapid) with an invariant over the recorded event history",
     rule="mutation documents from the C01 generator (2-6 top-level fields through aliases, duplicates, fragments, inline fragments, nested selections); outcomes at ~40% of reachable positions from {nil, error, value+error, panic, thunk, failing thunk, nil thunk} (failures only in nullable positions). Non-trivial = >= 2 top-level fields and at least one thunk forced; distinct by hash of the case.",
     assumptions=EXEC_ASSUME,
     runs=[dict(test="^TestC13$", quick=dict(checks=1500), thorough=dict(checks=15000, shards=16, timeout=3000))])

SYN_ASSUME = [
    "the grammar is the one the parser documents in its own production comments (June-2018 with the differences listed in DESIGN.md §3.1); the reference lexer/parser (harness/syn/reflex.go) is written from it and does not import the library",
    "offsets are byte offsets into Source.Body",
]

prop("C03",
     level_text="differential testing against an independent reference lexer+parser: bounded exhaustive enumeration of token strings (complete up to a length, sharded beyond), grammar-derived sentences under hostile layouts, token/byte mutations, and (thorough) a coverage-guided native fuzz campaign; oracle = accept/reject agreement, AST equality incl. decoded values and byte spans, source immutability",
     note="two recorded known findings (malformed type references, rune offsets after multi-byte ignored characters) are absorbed only by their narrow classifiers while their reproducers still fail; the token generator also emits almost-numbers (-01, -00e3, 1., .5, 0x1)",
     technique="bounded exhaustive enumeration + property-based testing (rapid) + go test -fuzz, differential oracle (reference parser)",
     rule="(a) every token string of length <= 3 over a 31-token alphabet (all punctuators, four literal forms, 13 names/keywords), a seed-selected 1/8 slice of length 4 in quick and all of length 4 plus all of length 5 (16 shards) in thorough; all [ ] ! a sequences <= 6 in two type-reference positions; 9 type-system prefixes x all continuations <= 4 over 12 tokens. (b) rapid: sentences derived from the grammar (executable, type-system, mixed, values) with hostile strings, block strings, numbers, layouts (commas, CR/LF/CRLF, comments, BOM, non-ASCII comments, touching tokens). (c) one token mutation (insert/delete/replace/swap/duplicate) and optionally one byte mutation. Non-trivial = not rejected by both sides within the first two tokens (enumeration) / contains a string, comment, type reference or is a rejected mutation (generated); distinct by input text.",
     assumptions=SYN_ASSUME,
     runs=[
         dict(test="^TestC03_(Enum|Corpus)$", quick=dict(env=dict(VERIF_C03_FULL=3, VERIF_C03_SLICE=4, VERIF_C03_PARTS=8)),
              thorough=dict(env=dict(VERIF_C03_FULL=4, VERIF_C03_SLICE=5, VERIF_C03_PARTS=1), shards=16, timeout=3000)),
         dict(test="^TestC03_Gen$", quick=dict(checks=8000), thorough=dict(checks=60000, shards=16, timeout=3000)),
         dict(test="^XXX$", thorough_only=True, thorough=dict(fuzz="^FuzzC03$", fuzztime="240s", timeout=900)),
     ])

prop("C08",
     level_text="round-trip testing: for generated and corpus documents the parser accepts, parse(print(A)) must be structurally identical to A (kinds, names, decoded values, order; locations aside), print must be stable after one round, and Print must leave its argument untouched; thorough adds a native fuzz campaign over arbitrary accepted byte strings",
     note="quantifies over documents that are both accepted by the library and derivable from the grammar (inputs accepted only because of KF-C03-typeref are C03's business); layouts are ASCII so KF-C03-offsets cannot interfere; invalid UTF-8 is not generated; ADDED IN THE SENSITIVITY PHASE (DESIGN 13): string contents are composed from code-point classes (controls, C1, separators, BMP edges, non-BMP printable and not, combining marks), numbers from their grammatical parts, block strings from lines with drawn indentation and LF / CRLF / CR; percent signs and formatting verbs inside strings and descriptions",
     technique="property-based testing (rapid) + go test -fuzz with a round-trip oracle",
     rule="sentences derived from the grammar (executable, type-system, mixed): every definition kind, every value kind nested, strings over a hostile alphabet (quotes, backslash, C0 controls, DEL, U+2028, BOM, non-BMP), descriptions as quoted and block strings with triple quotes / trailing quotes / indentation / CR / blank lines, directives with arguments on every definition kind, empty field lists. Non-trivial = parseable and contains a character outside plain printable ASCII, an escape, a block string, or a described / directive-carrying type-system definition; distinct by text.",
     assumptions=SYN_ASSUME,
     runs=[
         dict(test="^TestC08_(Gen|Corpus)$", quick=dict(checks=6000), thorough=dict(checks=60000, shards=16, timeout=3000)),
         dict(test="^XXX$", thorough_only=True, thorough=dict(fuzz="^FuzzC08$", fuzztime="240s", timeout=900)),
     ])

prop("C09",
     level_text="robustness search over every public entry point (parser.Parse, printer.Print, ValidateDocument with each rule alone and all, PlanQuery+ExecutePlan / Execute / ExecuteSubscription on UNVALIDATED ASTs, Do, Subscribe, PlanCache.Get with and without normalisation): no panic, returns within a watchdog proportional to input size, result JSON-serialisable, no data after a parse/validation failure, an error whenever data is absent, subscription channels deliver and close",
     note="fixed 'kitchen' schema (every type kind, cyclic types, mutation and subscription roots); watchdog = 11 x (5 s + 1 ms/byte), a hit is 'inconclusive' unless it persists; native fuzzing only in the thorough tier (its saved crasher is the reproducible unit); ADDED IN THE SENSITIVITY PHASE (DESIGN 13): also: scaled valid documents (C19 recipes over the kitchen schema, n = 48..80, half with mutually exclusive parents) against the watchdog, a quarter of all fields and list elements of the kitchen world are deferred values, TestC09_Valuations (128 valuations on one plan under a 30 s watchdog); a call that does not return ends the process at once with the failure recorded; absence of data is judged on the serialised response (a typed-nil map is null on the wire); documents whose root selection is excluded entirely",
     technique="fuzzing: rapid-generated structured inputs + corpus replay, go test -fuzz in thorough; crash / hang / result-shape oracle",
     rule="inputs: grammatical sentences over the schema's vocabulary (optionally one token mutation, hostile layouts), token soup, a catalogue of ~110 validation-breaking documents (cyclic fragments of length 1-3 incl. through fields, unknown types/fields/fragments, type-system definitions mixed in, missing/duplicate operations, malformed type references, 60-200 deep nesting, 3000 siblings, 2000-element and 60-deep literals), random bytes; operation names and variable maps (incl. wrong kinds, 1e400, non-object JSON) from pools. Non-trivial = parsed successfully or failed after more than a few tokens; distinct by (text, operation name, variables).",
     assumptions=["resolvers are the harness's (World with salt 7, 1/6 nulls); subscription source = 2 events then close"],
     runs=[
         dict(test="^TestC09_(Gen|Corpus)$", quick=dict(checks=1200), thorough=dict(checks=8000, shards=16, timeout=3000)),
         dict(test="^TestC09_Valuations$", quick=dict(checks=100), thorough=dict(checks=100, shards=8, timeout=3000)),
         dict(test="^XXX$", thorough_only=True, thorough=dict(fuzz="^FuzzC09$", fuzztime="300s", timeout=1200)),
     ])

prop("C14",
     level_text="generated-input search (rapid): parsed ASTs (executable, type-system, mixed) x visitor policies ({continue, skip, break} on up to three drawn (node, phase) pairs) x five visitor forms x 1-4 parallel visitors x optional type tracking; oracle = a plain recursive reference walk producing the expected event list (node, key, parent, ancestors, path) and an independent type tracker",
     note="children per kind are those of visitor.QueryDocumentKeys as frozen in the harness's syn.Node shape; Path is compared on enter only (DESIGN §3.5); a leading nil in Ancestors is tolerated; type tracking is compared on executable documents over the fixed kitchen schema, except where the reference says 'unspecified' (arguments of unknown directives, introspection subtrees, fragments on input types, variables of output types); ADDED IN THE SENSITIVITY PHASE (DESIGN 13): visitor forms 5 and 6 have callbacks for a drawn subset of kinds only (silent nodes in between); half of the type-tracking cases use type-directed documents over the kitchen schema (bare values for list positions, variables, one injected violation)",
     technique="property-based testing (rapid) against a reference traversal",
     rule="documents from the grammar sentence generator (vocabulary of the kitchen schema when type tracking is on); policies aim at existing pre-order indices; forms: KindFuncMap{Kind,Leave}, KindFuncMap{Enter,Leave}, generic Enter/Leave (with EnterKindMap traps), Enter/LeaveKindMap, mixture. Also: no-edit traversal leaves the tree identical, second traversal gives the same number of events. Non-trivial = a skip/break in some policy, or >= 2 parallel visitors, or a type-system document; distinct by hash of the case.",
     assumptions=SYN_ASSUME,
     runs=[dict(test="^TestC14$", quick=dict(checks=4000), thorough=dict(checks=40000, shards=16, timeout=3000)),
           dict(test="^TestC14_Rules$", quick=dict(checks=2500), thorough=dict(checks=25000, shards=16, timeout=3000))])

prop("C18",
     level_text="generated-input search (rapid): (a) syntactically corrupted documents under CR/LF/CRLF layouts: the (line, column) of the syntax error, converted by the harness's own line splitter, must fall inside the first token / malformed lexeme at which the reference parser says the text stops being a valid prefix; (b) validation errors of injected violations must be located at the start of a node the violated rule may blame; (c) field errors: path = response keys and indices of a field the reference says fails, data at the path or a prefix is null, every location is the start of an occurrence of that field",
     note="columns are accepted counted in bytes or in characters; inputs on which KF-C03-offsets can act (multi-byte characters before the error position) and errors inside malformed type references (KF-C03-typeref) are excluded and counted; ADDED IN THE SENSITIVITY PHASE (DESIGN 13): the field sub-check also serves through an exact-key and a normalising plan cache that first served whitespace variants of the text (locations under normalisation: KF-C18-normalized-locations); serializer / foreign-error outcomes as in C04",
     technique="property-based testing (rapid): positions recomputed independently (reference parser spans, printer offset table, reference interpreter paths)",
     rule="(a) grammar sentences with one token mutation and optionally one byte mutation (truncation, quote, backslash, NUL, dot, bad number characters, line terminators); (b) valid documents with one injected violation per rule, hostile ASCII layouts; (c) C04-style adversarial executions printed under drawn layouts. Non-trivial = an error on a text containing a line terminator, or a path with a list index; distinct by text / case hash.",
     assumptions=SYN_ASSUME + EXEC_ASSUME,
     runs=[dict(test="^TestC18_Syntax$", quick=dict(checks=10000), thorough=dict(checks=100000, shards=16, timeout=3000)),
           dict(test="^TestC18_Field$", quick=dict(checks=2500), thorough=dict(checks=25000, shards=16, timeout=3000)),
           dict(test="^TestC18_Validation$", quick=dict(checks=1500), thorough=dict(checks=15000, shards=16, timeout=3000))])

prop("C12",
     level_text="repeat-and-compare search: each request (a catalogue aimed at every place where output is built from a Go map, plus rapid-generated valid / failing / invalid requests) is executed 13 times in one process, interleaved with other requests and also served through a plan cache, and the JSON bytes and ValidateDocument error lists must be identical; the same generated requests are then run in several fresh processes (fresh map seeds) and their response digests must agree",
     note="Go randomises map iteration per range statement and per process; repetition samples those seeds, it does not enumerate them (DESIGN §7); ADDED IN THE SENSITIVITY PHASE (DESIGN 13): between repetitions: the same text with other variable values (each compared with its own first answer, also through the same cache entry), 1-2 generated neighbour documents over the same schema, an introspection request; worlds where every isTypeOf answers yes (the order in which possible types are asked shows); the fixed schema is built afresh per case",
     technique="property-based testing (rapid) + multi-process differential (self-comparison oracle)",
     rule="catalogue: unknown field / argument / type / enum value with several equidistant suggestions, input-object literals and variables with several invalid fields, several failing thunks in objects and lists, introspection of types / fields / args / inputFields / enumValues / possibleTypes / directives, multi-rule invalid documents; generated: C04-style executions. Non-trivial = the response carries >= 2 error messages, a suggestion list, or an introspection list; distinct by hash of the case.",
     assumptions=["replica processes are given the same rapid seed and therefore the same requests; only map seeds differ"],
     runs=[dict(test="^TestC12_", quick=dict(checks=600, replicas=3), thorough=dict(checks=4000, shards=8, replicas=4, timeout=3000))])

prop("C02",
     level_text="differential testing of ValidateDocument against 24 independent rule predicates written from the spec text over the harness's document model: every rule is run alone and all together on valid-by-construction documents, on documents with one or two injected violations from a 78-operator catalogue, and on an exhaustively enumerated family of fragment topologies; oracle = per-rule 'reports iff violated', at least one reported location at the start of a node the rule may blame, IsValid iff no rule violated, Do answers without data iff invalid",
     note="edition = October 2016 / graphql-js 0.8 (DESIGN §3.2); verdicts the edition leaves open (PossibleFragmentSpreads on non-composite conditions, shape of __typename, same-named definitions with different bodies) are not compared and counted under excluded; generated schemas mention all five built-in scalars; ADDED IN THE SENSITIVITY PHASE (DESIGN 13): documents carry up to six injected violations (interactions between rules); verdicts that depend on reading order are not compared: duplicate argument names on one field (overlap rule), __typename against another field under one key, locations when two definitions share a name; fields may have an argument named like a directive's (`if`) and documents apply the schema's custom directives with arguments",
     technique="property-based testing (rapid) + bounded exhaustive enumeration, differential oracle (reference rule predicates)",
     rule="generated: schema x valid document (C01 generator, with custom directives) x 0-6 injections (unknown field/arg/type/directive/fragment, misplaced directives, wrong literal kinds at depth, missing required args/fields, undefined/unused/duplicate variables, stricter positions, non-input variable types, cycles of length 1-3, unused/duplicate fragments, impossible spreads, leaf/selection mismatches, duplicate args/input fields/operation names, anonymous+named, overlapping fields differing in name/args/shape directly and through fragment chains on one or both sides, plus 'legal divergence' operators). Enumerated: query + k fragments on one type, each body = one of 6 selections (x:a, x:b, x:c, q{x:a}, q{x:b}, y:a) followed by any subset of spreads: k=2 complete (13 824 documents; a seed-chosen quarter in quick), k=3 over 4 selections complete in thorough (1 048 576). Non-trivial = some rule is violated, or >= 2 fragments with a duplicated response key; distinct by case hash / text.",
     assumptions=["reference predicates: harness/ref/validate.go (does not import the library)"],
     runs=[dict(test="^TestC02_Gen$", quick=dict(checks=1200), thorough=dict(checks=12000, shards=16, timeout=3000)),
           dict(test="^TestC02_Enum$", quick=dict(env=dict(VERIF_C02_FRAGS=2, VERIF_C02_ALPHA=6, VERIF_C02_PARTS=4)),
                thorough=dict(env=dict(VERIF_C02_FRAGS=3, VERIF_C02_ALPHA=4, VERIF_C02_PARTS=1), shards=16, timeout=3000)),
           dict(test="^TestC02_EnumExclusive$", quick=dict(), thorough=dict(shards=4, timeout=3000)),
           dict(test="^TestC02_Enum$", thorough_only=True, thorough=dict(env=dict(VERIF_C02_FRAGS=2, VERIF_C02_ALPHA=6, VERIF_C02_PARTS=1), shards=4, timeout=3000))])

prop("C17",
     level_text="generated-input search (rapid): 0-3 instrumented extensions, each hook (Init, the four start hooks, the four finish functions, HasResult, GetResult) with a drawn policy {ok, panic(error), panic(string), panic(int), panic(struct)}, over requests of every outcome class (syntax error, validation error, variable error, field errors incl. a panicking resolver, success); oracle = invariants over the recorded event log",
     note="per extension: pipeline order, one Init, every start hook that returned is matched by exactly one finish, resolve notifications properly nested and closed before execution finishes, phase outcomes (parse error iff syntax error, validation errors iff invalid) when no hook panicked; globally: no panic escapes Do and every panicking hook is reflected by an error naming its extension. The order in which different extensions' finish functions run is not asserted.; ADDED IN THE SENSITIVITY PHASE (DESIGN 13): hook policies may name one response path: the resolve hooks then panic for that field only",
     technique="property-based testing (rapid): fault injection into hooks, invariant over the event history",
     rule="requests from a fixed catalogue per outcome class on the kitchen schema; Non-trivial = (>= 2 extensions and >= 1 panic) or a non-error panic value; distinct by case hash.",
     assumptions=["extension names are unique (the interface asks for that); hooks never return a nil finish function"],
     runs=[dict(test="^TestC17$", quick=dict(checks=6000), thorough=dict(checks=60000, shards=16, timeout=3000))])

prop("C10",
     level_text="generated-input search (rapid): schema model (wrappers to depth 4, defaults of every input kind incl. enums with non-name internals, lists, nested input objects, custom scalars; descriptions; deprecations; custom directives; thunked interfaces / members; unreferenced implementers and an unreferenced union of them) built directly or by NewSchema + AppendType in a drawn order, where members of an appended union are appended before it, after it, or arrive only through it; the full introspection result is decoded and compared with the generating model, every defaultValue is parsed by the reference parser and coerced by the reference coercion and must give back the configured default; __type(name:) per type with includeDeprecated off",
     note="configured defaults are generated in coerced form (input-object defaults carry their fields' own defaults, no null inside lists: this edition has no null literal); __typename = runtime type is covered by C01/C04; ADDED IN THE SENSITIVITY PHASE (DESIGN 13): a quarter of the cases supply no Types (the expected schema is what the roots reach); string defaults and descriptions are composed from code-point classes; an unreferenced union of unreferenced implementers is appended with members before / after / only through it; after the partial requests the full introspection is repeated and must give the same description; an enum value listed twice is reported",
     technique="property-based testing (rapid): model round trip through introspection + parse/coerce round trip of defaults",
     rule="Non-trivial = a default of list / input-object / enum kind, an interface with >= 2 implementers, or a schema extended by AppendType; distinct by case hash.",
     assumptions=["the set of types a schema must list = model types + built-in scalars it mentions + String, Boolean + the eight introspection types"],
     runs=[dict(test="^TestC10$", quick=dict(checks=2000), thorough=dict(checks=20000, shards=16, timeout=3000))])

prop("C11",
     level_text="generated-input search (rapid): valid schema configurations built through the library's constructors with 0-2 injected malformations out of 45 operators (duplicate / invalid / reserved names on every kind of named thing, empty field / value / member sets, nil in every pointer-typed slot incl. typed-nil roots, interface fields missing / of wrong or contravariant type / with missing, differing or extra required arguments, NonNull(NonNull), List(nil), output types in input positions and vice versa, missing query root, repeated union members, abstract types nobody can resolve, malformed directives) and AppendType histories; oracle = no panic from any constructor / NewSchema / AppendType, and err == nil implies an independent consistency checker over the public accessors, and appended == up-front",
     note="the statement is one-directional: rejecting a valid configuration is not an alarm (valid configurations are always exercised: every fifth case is unmutated and must be accepted); names with the reserved __ prefix are not counted as illegal (the ported edition only warns); ADDED IN THE SENSITIVITY PHASE (DESIGN 13): a quarter of the cases supply no Types; illegal names are drawn from a pool incl. non-ASCII letters, digits and marks; operators added: duplicateInterface; malformed types arriving through AppendType must give an error or a consistent schema",
     technique="property-based testing (rapid): fault injection into configurations, validity predicate over the result",
     rule="consistency = unique legal names, type map closed under field / argument / input-field / interface / member / root references and containing the 8 introspection types, output vs input positions, declared interfaces really implemented (own covariance relation, identical argument types, no extra required arguments), PossibleTypes = declared implementers / members each once, IsPossibleType agrees. Non-trivial = a mutated configuration or an append history; distinct by case hash.",
     runs=[dict(test="^TestC11$", quick=dict(checks=20000), thorough=dict(checks=200000, shards=16, timeout=3000))])

prop("C06",
     level_text="model-based search over cache histories (rapid): sequences of Get+ExecutePlan / Reset / plan-once-execute-many over a working set drawn from a pool of near-identical requests (pairs differing in one literal, literal kind, directive, variable default, alias, argument order, repeated field, separator-like string contents, operation name, fragment body; invalid, over-size and syntactically wrong requests), two schema values of equal shape, MaxEntries in {1,2,3,1024}, MaxQueryBytes default or small, Normalize on/off, nil cache; plus rapid-generated documents with a literal-perturbed neighbour served alternately. Oracle = every served response equals graphql.Do of the same request from scratch (data JSON, error presence, error paths); with exact keys the hit/miss counters must match a reference LRU bounded by MaxEntries and bound to the schema pointer; over-size and nil-cache requests never touch the counters; a planned document is left unmodified",
     note="resolvers echo their arguments, so a wrong literal, default or shared entry shows in data; under Normalize the counters are only required to move by exactly one per cacheable lookup. 'The original document is not modified' is observable only for PlanQuery+ExecutePlan on a caller-held AST (PlanCache.Get takes text); ADDED IN THE SENSITIVITY PHASE (DESIGN 13): also compared: error messages, and error locations except under normalisation while KF-C06-normalized-locations is active; resolvers may write into their argument maps; pool entries for operation names that select nothing, equal literals in other patterns, swapped variables, literals that mimic each other's structure; TestC06_Valuations serves one plan / cache entry with all 128 valuations of seven directive variables; pool entries differing only in the kind of a literal that normalisation leaves in place (1 / \"1\" for a custom scalar)",
     technique="property-based testing (rapid): stateful / model-based history generation with a from-scratch differential oracle",
     rule="Non-trivial = a history that looks a key up again after it was stored (potential hit, collision or eviction), a reused plan executed more than once, or a generated document whose neighbour differs in >= 1 literal; distinct by case hash.",
     assumptions=EXEC_ASSUME,
     runs=[dict(test="^TestC06$", quick=dict(checks=4000), thorough=dict(checks=40000, shards=16, timeout=3000)),
           dict(test="^TestC06_Gen$", quick=dict(checks=1500), thorough=dict(checks=15000, shards=16, timeout=3000)),
           dict(test="^TestC06_Valuations$", quick=dict(checks=100), thorough=dict(checks=100, shards=8, timeout=3000))])

prop("C19",
     level_text="scaling search over document families (nesting depth through an abstract field x number of implementers, fragment chains, one fragment spread at n sites, dense fragment DAGs, fragments spreading each other twice per level through fields, n repetitions of a response key with sub-selections, input literals n deep / n wide, n mutually exclusive inline fragments, n aliases): work is read from step counters at the field-collection and field-pair-comparison sites (verif build tag) after ValidateDocument, PlanQuery and ExecutePlan; composed recipe families (1-3 root contexts under no / different concrete type conditions, directly or under one response key, x which later fragments each fragment spreads: next, next two, all later, next and n/2 ahead, every third x how: directly, through a field, through an aliased field, alternating) measured at n = 8, 12, 18, 27 (40) with consecutive-size ratio <= 12 (degree 5 gives 7.6); oracle for the fixed families = doubling ratio <= 12 on the ladder 4..64 (128 in thorough), a cubic envelope fixed at the smallest size, plan-time work identical for 2 / 8 / 32 / 128 implementers, and at most one planned runtime type per abstract value encountered at execution",
     note="no wall-clock oracle; the counters are the only source hook (commit listed under hooks.source_commits); exponential blow-ups pass ratio 12 by n=16 in every family probed; ADDED IN THE SENSITIVITY PHASE (DESIGN 13): families added: sparse, uniondepth (also in the implementers comparison), composed recipes; every measurement executes the plan twice (the second must plan nothing); literal coercion / validation are counted (second hook commit); a measurement is abandoned at 30M steps or 120 s and the process ends with the failure recorded; a counter in IsPossibleType's fallback scan (third hook commit); implementers appended with AppendType after construction; family conds (n type conditions under one field)",
     technique="property-based testing (rapid-drawn sizes) + fixed scaling ladders, metamorphic / growth-rate oracle on instrumented step counts",
     rule="ladder: every family x sizes 4,8,16,32,64 (dense DAG families to 32); implementers: depth family at n in {4,16,48} x m in {2,8,32,128}; rapid: family x n in [5,64] x m in {2,4,16,64} against the cubic envelope. Every case with n >= 8 is non-trivial; distinct by (family, n, m).",
     runs=[dict(test="^TestC19_", quick=dict(checks=300), thorough=dict(checks=3000, shards=4, timeout=3000))])

prop("C07",
     level_text="concurrency stress under the race detector (rapid-seeded): per case a fresh (cold) schema, one shared prepared plan and one shared plan cache; 2-16 goroutines released by a start barrier each run a drawn script of Do / ValidateDocument / PlanCache.Get+ExecutePlan / ExecutePlan(shared plan) / Reset over queries touching enums (in and out), unions, interfaces and nested abstract fields resolving to different runtime types; oracle = no race report (GORACE=halt_on_error=1, the driver reads the report), no panic, all goroutines finish, and every response equals the response of the same request run alone on a private instance",
     note="the Go scheduler is not owned: the race detector needs both accesses to occur unordered in the observed run, which first-use initialisation does in practically every case; races that need a rare interleaving of warm state are out of reach (DESIGN §7). A halted process leaves the running case as the replay file; replay repeats the history 20 times.; ADDED IN THE SENSITIVITY PHASE (DESIGN 13): the shared plan and one pool query carry variable-driven directives and every operation draws a valuation; literal-neighbour queries share a normalised cache entry",
     technique="property-based stress testing (rapid-drawn histories) with the Go race detector and a sequential-baseline differential oracle",
     rule="Non-trivial = at least two requests were in flight at the same time (measured with atomic start/finish stamps); distinct by case hash.",
     runs=[dict(test="^TestC07$", race=True, quick=dict(checks=150), thorough=dict(checks=1500, shards=8, timeout=3000))])

prop("C16",
     level_text="schedule search with harness-owned gates (rapid): documents with 1-6 gated resolver invocations (nested, in lists), gates also inside ParseValue of a custom scalar during variable coercion (variables of type Gate, [Gate], input object with a Gate field; cancellation while the k-th coercion call is blocked); a context the harness ends itself (cancel or deadline as a logical event; also stock context.WithCancel / an already expired WithDeadline), cancellation point drawn from {before the call, while resolver k is blocked for every k, after the last resolver, never, racing the last gate}, resolvers that ignore or observe the context, entries Do and PlanQuery+ExecutePlan; oracle = while a resolver is still blocked the call returns with no data and exactly the context's error; without cancellation the complete response; in racing schedules one of the two and nothing else; afterwards no library goroutine survives",
     note="'promptly' = returns while the gate of the blocked resolver is still closed (watchdog 20 s >> microseconds); interleavings inside the library between its two goroutines are sampled, not enumerated; built with -race; ADDED IN THE SENSITIVITY PHASE (DESIGN 13): also: mutation documents, stock contexts that carry a cause, gated resolvers that fail with their own sub-context's deadline error, and TestC16_Coercion (gates inside ParseValue)",
     technique="property-based testing (rapid) over harness-controlled schedules (logical gates instead of sleeps)",
     rule="Non-trivial = cancellation at an interior resolver (0 < k < n) or racing completion; distinct by case hash.",
     runs=[dict(test="^TestC16$", race=True, quick=dict(checks=400), thorough=dict(checks=4000, shards=16, timeout=3000)),
           dict(test="^TestC16_Coercion$", race=True, quick=dict(checks=300), thorough=dict(checks=3000, shards=16, timeout=3000))])

prop("C15",
     level_text="history search (rapid) with the harness as producer and consumer: the subscription source is an unbuffered channel, so emit / read / cancel / closeSource happen exactly in the drawn order; payloads make field resolution succeed, fail, or fail in a non-null position, or are nil; sources that are a stream, a single value, nil, an error, a panic with an error or with a string; requests that fail to parse or validate; consumers that keep or stop reading after cancellation. Oracle = the i-th result equals the harness's own execution of the selection for the i-th event (data JSON and error count), one per event and in order; the channel closes after the source closes or the context is cancelled; failing requests deliver exactly one error result and close; afterwards no goroutine with an ExecuteSubscription frame survives",
     note="an emit is only attempted when the library is idle (otherwise the producer itself would block), so stalls are modelled as 'result pending, consumer not reading'; after cancellation a result may be the correct next one or carry only the context error; multi-root subscriptions are not generated (the edition has no single-root rule and the port picks a root by map order); built with -race; ADDED IN THE SENSITIVITY PHASE (DESIGN 13): payloads also: nil events, gated (the resolver blocks until released; action release); a non-null root field, variables with non-idempotent coercion, a root field reached through the second of two spreads; the census counts every goroutine in library code",
     technique="property-based testing (rapid): model-based history generation with harness-owned hand-offs and a goroutine census",
     rule="Non-trivial = an event whose execution fails, or a cancellation while a result is pending; distinct by case hash.",
     runs=[dict(test="^TestC15$", race=True, quick=dict(checks=1200), thorough=dict(checks=12000, shards=16, timeout=3000))])
