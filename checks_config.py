"""Per-property run tables for ./check. Each run names a Go test regexp of harness/props and its
budgets per tier (rapid case counts, shards). Budgets are case counts, never per-case time limits."""

CONFIG = {}

def prop(pid, rule, runs, assumptions=None, **kw):
    CONFIG[pid] = dict(rule=rule, runs=runs, assumptions=assumptions or [], **kw)

EXEC_ASSUME = [
    "the reference interpreter (harness/ref) reads the October-2016 execution algorithm as written down in DESIGN.md §3.4",
    "resolver behaviour is a pure function of (response path, field, arguments) drawn per case (ref.World), shared by the library-side resolvers and the reference",
    "inputs on which spec edition / port / graphql-js disagree are not generated (DESIGN §3.3) and counted under excluded",
]

prop("C01",
     rule="rapid draws schema model x valid-by-construction document x coercible variables x resolver-outcome table; each case runs Do, Execute and PlanQuery+ExecutePlan (twice) and compares data (JSON) and the (path,class) error multiset with an independent interpreter of the execution algorithm. Non-trivial = document has a duplicated response key, a fragment spread twice, a variable-driven directive, several operations, an abstract position resolving to >=2 runtime types, or a null propagating >=2 levels; distinct by hash of the whole case.",
     assumptions=EXEC_ASSUME,
     runs=[dict(test="^TestC01$", quick=dict(checks=4000), thorough=dict(checks=40000, shards=16, timeout=3000))])
